(* Structs/InflightProofs.v — invariants of the in-flight table model for all
   operation sequences: the scheduler lists and the state map describe the
   same partial map block => peer; exact release; the F5 witness. *)
From CKB Require Import Structs.AList Structs.AListProofs Structs.Inflight.

Local Notation lkS := (alookup key_eqb).
Local Notation lkP := (alookup N.eqb).
Local Notation ks := key_eqb_spec.
Local Notation ns := N.eqb_spec.

Lemma kinsert_lookup {V} (k k' : key) (v : V) l : lkS k l = None ->
  lkS k' (kinsert k v l) = if key_eqb k k' then Some v else lkS k' l.
Proof.
  induction l as [|[a w] l IH]; cbn; intros Hn.
  - destruct (ks k' k), (ks k k'); congruence.
  - destruct (ks k a) as [->|Hka]; [discriminate|].
    destruct (key_ltb k a); cbn.
    + destruct (ks k' k), (ks k k'); try congruence.
    + destruct (ks k' a) as [->|].
      * destruct (ks k a); congruence.
      * now apply IH.
Qed.

Lemma kinsert_keys {V} (k : key) (v : V) l x : In x (map fst (kinsert k v l)) <-> x = k \/ In x (map fst l).
Proof.
  induction l as [|[a w] l IH]; cbn.
  - intuition.
  - destruct (key_ltb k a); cbn; [intuition|]. rewrite IH. intuition.
Qed.

Lemma kinsert_nodup {V} (k : key) (v : V) l : ~ In k (map fst l) -> NoDup (map fst l) -> NoDup (map fst (kinsert k v l)).
Proof.
  induction l as [|[a w] l IH]; cbn; intros Hn ND.
  - repeat constructor. tauto.
  - inversion ND; subst. destruct (key_ltb k a); cbn.
    + constructor; auto.
    + constructor; [|apply IH; auto]. rewrite kinsert_keys. intros [->|]; tauto.
Qed.

Lemma existsb_key_In x (l : list key) : existsb (key_eqb x) l = true <-> In x l.
Proof. exact (smem_In key_eqb ks x l). Qed.

Record iinv (st : ifb) : Prop := {
  iL : forall p d b, lkP p (scheds st) = Some d -> In b (hashes d) ->
         exists ts, lkS b (states st) = Some (p, ts);
  iO : forall b p ts, lkS b (states st) = Some (p, ts) ->
         exists d, lkP p (scheds st) = Some d /\ In b (hashes d);
  iN1 : forall p d, lkP p (scheds st) = Some d -> NoDup (hashes d);
  iN2 : NoDup (map fst (states st)) }.

Lemma iinv_ext a b : scheds a = scheds b -> states a = states b -> iinv a -> iinv b.
Proof. intros E1 E2 [L O N1 N2]. split; rewrite <- ?E1, <- ?E2; auto. Qed.

Lemma iinv_default : iinv ifb_default.
Proof. split; cbn; try discriminate. constructor. Qed.

Definition keeps_hashes (g : sched -> sched) : Prop := forall d, hashes (g d) = hashes d.
Lemma kh_id : keeps_hashes (fun d => d). Proof. intros d; reflexivity. Qed.
Lemma kh_punish e : keeps_hashes (punish e). Proof. intros d; reflexivity. Qed.
Lemma kh_increase n : keeps_hashes (increase n).
Proof. intros d. unfold increase. destruct (N.ltb _ _); reflexivity. Qed.
Lemma kh_decrease n : keeps_hashes (decrease n).
Proof. intros d. unfold decrease. destruct (N.ltb _ _); reflexivity. Qed.

Lemma release_one_inv g tn st k : keeps_hashes g -> iinv st -> iinv (release_one g tn st k).
Proof.
  intros Hg [L O N1 N2]. unfold release_one.
  destruct (lkS k (states st)) as [[p0 ts0]|] eqn:Ek; [|split; auto].
  destruct (O _ _ _ Ek) as (d0 & Ed0 & Hin0). rewrite Ed0.
  split; cbn [set_core scheds states].
  - intros p d b. rewrite (alookup_ainsert N.eqb ns). destruct (ns p0 p) as [<-|Hp].
    + intros [= <-]. rewrite Hg. cbn. intros Hb. apply (In_sremove key_eqb ks) in Hb. destruct Hb as [Hb Hn].
      destruct (L _ _ _ Ed0 Hb) as [ts Hts]. exists ts.
      rewrite (alookup_adelete key_eqb ks). destruct (ks k b); congruence.
    + intros Ed Hb. destruct (L _ _ _ Ed Hb) as [ts Hts]. exists ts.
      rewrite (alookup_adelete key_eqb ks). destruct (ks k b) as [<-|]; congruence.
  - intros b p ts. rewrite (alookup_adelete key_eqb ks). destruct (ks k b) as [<-|Hn]; [discriminate|].
    intros Eb. destruct (O _ _ _ Eb) as (d & Ed & Hin).
    rewrite (alookup_ainsert N.eqb ns). destruct (ns p0 p) as [<-|Hp].
    + eexists. split; [reflexivity|]. rewrite Hg. cbn. apply (In_sremove key_eqb ks).
      split; [congruence|congruence].
    + eauto.
  - intros p d. rewrite (alookup_ainsert N.eqb ns). destruct (ns p0 p) as [<-|Hp]; [|apply N1].
    intros [= <-]. rewrite Hg. cbn. apply NoDup_sremove. eauto.
  - now apply NoDup_adelete.
Qed.

Lemma fold_release_inv g tn keys : keeps_hashes g -> forall st, iinv st -> iinv (fold_left (release_one g tn) keys st).
Proof. intros Hg. induction keys; cbn; auto using release_one_inv. Qed.

Lemma existsb_key_false x (l : list key) : existsb (key_eqb x) l = false <-> ~ In x l.
Proof. rewrite <- existsb_key_In. destruct (existsb _ l); split; congruence. Qed.

Lemma remove_by_peer_inv p0 st : iinv st -> iinv (fst (remove_by_peer p0 st)).
Proof.
  intros [L O N1 N2]. unfold remove_by_peer.
  destruct (lkP p0 (scheds st)) as [d0|] eqn:Ed0; [|split; auto].
  split; cbn [fst set_core scheds states].
  - intros p d b. rewrite (alookup_adelete N.eqb ns). destruct (ns p0 p) as [<-|Hp]; [discriminate|].
    intros Ed Hb. destruct (L _ _ _ Ed Hb) as [ts Hts]. exists ts.
    rewrite (alookup_adelete_all key_eqb ks). destruct (existsb (key_eqb b) (hashes d0)) eqn:E; auto.
    apply existsb_key_In in E. destruct (L _ _ _ Ed0 E) as [ts' Hts']. congruence.
  - intros b p ts. rewrite (alookup_adelete_all key_eqb ks).
    destruct (existsb (key_eqb b) (hashes d0)) eqn:E; [discriminate|]. apply existsb_key_false in E.
    intros Eb. destruct (O _ _ _ Eb) as (d & Ed & Hin). exists d. split; auto.
    rewrite (alookup_adelete N.eqb ns). destruct (ns p0 p) as [<-|]; auto. congruence.
  - intros p d. rewrite (alookup_adelete N.eqb ns). destruct (ns p0 p); [discriminate|apply N1].
  - now apply NoDup_adelete_all.
Qed.

Lemma insert_inv now peer b st : iinv st -> iinv (fst (insert now peer b st)).
Proof.
  intros [L O N1 N2]. unfold insert.
  destruct (lkS b (states st)) eqn:Eb; [split; auto|].
  set (d0 := match lkP peer (scheds st) with Some d => d | None => sched_default end).
  assert (Hd0 : forall x, In x (hashes d0) -> exists ts, lkS x (states st) = Some (peer, ts)).
  { unfold d0. destruct (lkP peer (scheds st)) eqn:E; [eauto|intros x []]. }
  assert (Nd0 : NoDup (hashes d0)).
  { unfold d0. destruct (lkP peer (scheds st)) eqn:E; [eauto|constructor]. }
  split; cbn [fst set_core scheds states].
  - intros p d x. rewrite (alookup_ainsert N.eqb ns). destruct (ns peer p) as [<-|Hp].
    + intros [= <-]. cbn. intros Hx. apply (In_sinsert key_eqb ks) in Hx.
      rewrite (kinsert_lookup _ _ _ _ Eb). destruct (ks b x) as [<-|Hn]; [eauto|].
      destruct Hx as [->|Hx]; [congruence|]. auto.
    + intros Ed Hx. destruct (L _ _ _ Ed Hx) as [ts Hts].
      rewrite (kinsert_lookup _ _ _ _ Eb). destruct (ks b x) as [<-|Hn]; [congruence|eauto].
  - intros x p ts. rewrite (kinsert_lookup _ _ _ _ Eb). destruct (ks b x) as [<-|Hn].
    + intros [= <- <-]. eexists. rewrite (alookup_ainsert N.eqb ns), N.eqb_refl. split; [reflexivity|].
      cbn. apply (In_sinsert key_eqb ks). auto.
    + intros Ex. destruct (O _ _ _ Ex) as (d & Ed & Hin).
      rewrite (alookup_ainsert N.eqb ns). destruct (ns peer p) as [<-|Hp]; [|eauto].
      eexists. split; [reflexivity|]. cbn. apply (In_sinsert key_eqb ks). right.
      unfold d0. now rewrite Ed.
  - intros p d. rewrite (alookup_ainsert N.eqb ns). destruct (ns peer p) as [<-|Hp]; [|apply N1].
    intros [= <-]. cbn. now apply (NoDup_sinsert key_eqb ks).
  - apply kinsert_nodup; auto. now apply (alookup_None key_eqb ks).
Qed.

Lemma remove_by_block_inv now b st : iinv st -> iinv (fst (remove_by_block now b st)).
Proof.
  intros Hinv. unfold remove_by_block.
  destruct (lkS b (states st)) as [[peer ts]|] eqn:Eb; [|exact Hinv].
  destruct (amem N.eqb peer (scheds st) && adjustment st).
  - destruct (push_time (ta st) (now - ts)) as [ta' q]. cbn [fst].
    match goal with |- iinv (mkIfb (scheds ?s) (states ?s) _ _ _ _ _) => apply (iinv_ext s); auto end.
    apply release_one_inv; auto.
    destruct q; try apply kh_increase; destruct (should_punish st); auto using kh_decrease, kh_id.
  - cbn [fst]. apply release_one_inv; auto using kh_id.
Qed.

Lemma evict_inv st : iinv st -> iinv (evict st).
Proof.
  unfold evict. generalize (evicted_peers st). intros l. revert st.
  induction l; cbn; auto using remove_by_peer_inv.
Qed.

Lemma prune_inv now tip st : iinv st -> iinv (fst (prune now tip st)).
Proof.
  intros Hinv. unfold prune, prune_gen. cbn [fst].
  match goal with |- iinv (mkIfb (scheds ?s) (states ?s) _ _ _ _ _) => apply (iinv_ext s); auto end.
  apply fold_release_inv; [destruct (_ && _); auto using kh_punish, kh_id|].
  apply evict_inv. apply fold_release_inv; auto.
  destruct (_ && _); auto using kh_punish, kh_id.
Qed.

Lemma istep_inv st o : iinv st -> iinv (fst (istep st o)).
Proof.
  intros Hinv. destruct o; unfold istep, istep_gen.
  - pose proof (insert_inv now peer b st Hinv). destruct (insert now peer b st). exact H.
  - pose proof (remove_by_peer_inv peer st Hinv). destruct (remove_by_peer peer st). exact H.
  - pose proof (remove_by_block_inv now b st Hinv). destruct (remove_by_block now b st). exact H.
  - cbn [fst]. eapply iinv_ext; [| |exact Hinv]; reflexivity.
  - pose proof (prune_inv now tip st Hinv). destruct (prune now tip st). exact H.
  - cbn [fst]. eapply iinv_ext; [| |exact Hinv]; reflexivity.
Qed.

Lemma irun_inv ops : forall st, iinv st -> iinv (irun st ops).
Proof. induction ops; cbn; auto using istep_inv. Qed.

(* ---- the statements ---------------------------------------------------------- *)
Theorem inflight_listed_is_owned : forall ops p b,
  listed (irun ifb_default ops) p b -> exists since, owner (irun ifb_default ops) b = Some (p, since).
Proof.
  intros ops p b [d [Ed Hb]]. exact (iL _ (irun_inv ops _ iinv_default) _ _ _ Ed Hb).
Qed.

Theorem inflight_owned_is_listed : forall ops p b since,
  owner (irun ifb_default ops) b = Some (p, since) -> listed (irun ifb_default ops) p b.
Proof. intros ops p b since H. exact (iO _ (irun_inv ops _ iinv_default) _ _ _ H). Qed.

(* a block has one state, is listed by at most one peer and once *)
Theorem inflight_single_owner : forall ops,
  let st := irun ifb_default ops in
  NoDup (map fst (states st)) /\
  (forall p1 p2 b, listed st p1 b -> listed st p2 b -> p1 = p2) /\
  (forall p d, alookup N.eqb p (scheds st) = Some d -> NoDup (hashes d)).
Proof.
  intros ops st. pose proof (irun_inv ops _ iinv_default) as Hinv. fold st in Hinv.
  split; [apply (iN2 _ Hinv)|]. split; [|apply (iN1 _ Hinv)].
  intros p1 p2 b [d1 [E1 H1]] [d2 [E2 H2]].
  destruct (iL _ Hinv _ _ _ E1 H1) as [t1 X1]. destruct (iL _ Hinv _ _ _ E2 H2) as [t2 X2]. congruence.
Qed.

(* ---- exact release ------------------------------------------------------------ *)
Lemma release_one_owner g tn st k x :
  owner (release_one g tn st k) x = if key_eqb k x then None else owner st x.
Proof.
  unfold owner, release_one. destruct (lkS k (states st)) as [[p t]|] eqn:Ek.
  - destruct (lkP p (scheds st)); cbn [set_core states]; apply (alookup_adelete key_eqb ks).
  - destruct (ks k x) as [<-|]; auto.
Qed.

Lemma fold_release_owner g tn keys : forall st x,
  owner (fold_left (release_one g tn) keys st) x = if existsb (key_eqb x) keys then None else owner st x.
Proof.
  induction keys as [|k keys IH]; intros st x; cbn; [reflexivity|].
  rewrite IH, release_one_owner. destruct (ks x k) as [->|Hn].
  - destruct (ks k k); [|congruence]. destruct (existsb _ keys); reflexivity.
  - destruct (ks k x); [congruence|]. reflexivity.
Qed.

Definition owned_by (p : N) (o : option (N * N)) : bool :=
  match o with Some (q, _) => N.eqb q p | None => false end.

Lemma remove_by_peer_owner p st x : iinv st ->
  owner (fst (remove_by_peer p st)) x = if owned_by p (owner st x) then None else owner st x.
Proof.
  intros Hinv. unfold remove_by_peer, owner.
  destruct (lkP p (scheds st)) as [d|] eqn:Ed; cbn [fst set_core states].
  - rewrite (alookup_adelete_all key_eqb ks).
    destruct (existsb (key_eqb x) (hashes d)) eqn:E.
    + apply existsb_key_In in E. destruct (iL _ Hinv _ _ _ Ed E) as [ts ->]. cbn. now rewrite N.eqb_refl.
    + apply existsb_key_false in E. destruct (lkS x (states st)) as [[q t]|] eqn:Ex; [|reflexivity].
      cbn. destruct (ns q p) as [->|]; [|reflexivity].
      destruct (iO _ Hinv _ _ _ Ex) as (d' & Ed' & Hin). congruence.
  - destruct (lkS x (states st)) as [[q t]|] eqn:Ex; [|reflexivity].
    cbn. destruct (ns q p) as [->|]; [|reflexivity].
    destruct (iO _ Hinv _ _ _ Ex) as (d' & Ed' & Hin). congruence.
Qed.

Lemma NoDup_map_fst_filter {A B} (f : A * B -> bool) (l : list (A * B)) :
  NoDup (map fst l) -> NoDup (map fst (filter f l)).
Proof.
  induction l as [|e l IH]; cbn; intros ND; [constructor|]. inversion ND; subst.
  destruct (f e); cbn; auto. constructor; auto.
  intros X. apply H1. apply in_map_iff in X. destruct X as [e' [E Hin]]. apply filter_In in Hin.
  apply in_map_iff. exists e'. tauto.
Qed.

Lemma remove_by_peer_count p st : iinv st ->
  snd (remove_by_peer p st) = length (filter (fun e => N.eqb (fst (snd e)) p) (states st)).
Proof.
  intros Hinv. unfold remove_by_peer.
  set (own := filter (fun e : key * (N * N) => N.eqb (fst (snd e)) p) (states st)).
  assert (Hown : forall x, In x (map fst own) <-> exists t, lkS x (states st) = Some (p, t)).
  { intros x. unfold own. rewrite in_map_iff. split.
    - intros [[k [q t]] [<- Hin]]. apply filter_In in Hin. cbn in Hin. destruct Hin as [Hin Hq].
      apply N.eqb_eq in Hq. subst q. exists t. apply (In_alookup key_eqb ks); auto. apply (iN2 _ Hinv).
    - intros [t Ht]. exists (x, (p, t)). split; [reflexivity|]. apply filter_In. split.
      + now apply (alookup_In key_eqb ks).
      + cbn. apply N.eqb_refl. }
  assert (NDown : NoDup (map fst own)).
  { unfold own. apply NoDup_map_fst_filter. apply (iN2 _ Hinv). }
  rewrite <- (map_length fst own).
  destruct (lkP p (scheds st)) as [d|] eqn:Ed; cbn [snd].
  - apply Nat.le_antisymm; apply NoDup_incl_length; auto.
    + apply (iN1 _ Hinv _ _ Ed).
    + intros x Hx. apply Hown. apply (iL _ Hinv _ _ _ Ed Hx).
    + intros x Hx. apply Hown in Hx. destruct Hx as [t Ht].
      destruct (iO _ Hinv _ _ _ Ht) as (d' & Ed' & Hin). congruence.
  - destruct (map fst own) as [|x l] eqn:E; [reflexivity|].
    assert (In x (x :: l)) as Hx by now left. apply Hown in Hx. destruct Hx as [t Ht].
    destruct (iO _ Hinv _ _ _ Ht) as (d' & Ed' & Hin). congruence.
Qed.

Lemma evict_owner st x : iinv st ->
  owner (evict st) x = if existsb (fun p => owned_by p (owner st x)) (evicted_peers st) then None else owner st x.
Proof.
  unfold evict. generalize (evicted_peers st). intros l. revert st.
  induction l as [|p l IH]; intros st Hinv; cbn; [reflexivity|].
  rewrite IH by now apply remove_by_peer_inv. rewrite remove_by_peer_owner by auto.
  destruct (owned_by p (owner st x)) eqn:E; cbn.
  - destruct (existsb _ l); reflexivity.
  - reflexivity.
Qed.

Definition is_some {A} (o : option A) : bool := match o with Some _ => true | None => false end.

(* block arrival, peer removal, assignment: the abstract map changes exactly at the
   affected entries; timeouts: prune only releases, and releases every request that
   timed out inside its window and every request of a peer it reports for disconnection *)
Theorem inflight_release_exact : forall ops,
  let st := irun ifb_default ops in
  (forall now b,
     snd (remove_by_block now b st) = is_some (owner st b) /\
     forall x, owner (fst (remove_by_block now b st)) x = if key_eqb b x then None else owner st x) /\
  (forall p,
     snd (remove_by_peer p st) = length (filter (fun e => N.eqb (fst (snd e)) p) (states st)) /\
     forall x, owner (fst (remove_by_peer p st)) x = if owned_by p (owner st x) then None else owner st x) /\
  (forall now p b,
     snd (insert now p b st) = negb (is_some (owner st b)) /\
     forall x, owner (fst (insert now p b st)) x =
               if negb (is_some (owner st b)) && key_eqb b x then Some (p, now) else owner st x) /\
  (forall now tip,
     let st' := fst (prune now tip st) in
     let gone := snd (prune now tip st) in
     (forall x, owner st' x = None \/ owner st' x = owner st x) /\
     (forall x, In x (timed_out now (tip + 20) (states st)) -> owner st' x = None) /\
     (forall x p since, owner st x = Some (p, since) -> In p gone -> owner st' x = None) /\
     (forall p, In p gone -> alookup N.eqb p (scheds st') = None)).
Proof.
  intros ops st. pose proof (irun_inv ops _ iinv_default) as Hinv. fold st in Hinv.
  split; [|split; [|split]].
  - intros now b. unfold remove_by_block. fold (owner st b).
    destruct (owner st b) as [[peer ts]|] eqn:Eb; cbn [is_some].
    + destruct (amem N.eqb peer (scheds st) && adjustment st).
      * destruct (push_time (ta st) (now - ts)) as [ta' q]. cbn [fst snd]. split; [reflexivity|].
        intros x. unfold owner at 1. cbn [states]. apply release_one_owner.
      * cbn [fst snd]. split; [reflexivity|]. intros x. apply release_one_owner.
    + cbn [fst snd]. split; [reflexivity|]. intros x. destruct (ks b x) as [<-|]; auto.
  - intros p. split; [now apply remove_by_peer_count|]. intros x. now apply remove_by_peer_owner.
  - intros now p b. unfold insert. fold (owner st b). destruct (owner st b) as [v|] eqn:Eb; cbn [is_some negb].
    + cbn [fst snd andb]. auto.
    + cbn [fst snd]. split.
      * destruct (lkP p (scheds st)) as [d|] eqn:Ed; [|reflexivity].
        destruct (smem key_eqb b (hashes d)) eqn:E; [|reflexivity].
        apply (smem_In key_eqb ks) in E. destruct (iL _ Hinv _ _ _ Ed E) as [ts Hts].
        unfold owner in Eb. congruence.
      * intros x. unfold owner at 1. cbn [set_core states]. rewrite (kinsert_lookup _ _ _ _ Eb). reflexivity.
  - intros now tip st' gone.
    assert (Hown : forall x, owner st' x =
      let g2 := if should_punish st && adjustment st then punish 2 else (fun d => d) in
      let st1 := fold_left (release_one g2 false) (timed_out now (tip + 20) (states st)) st in
      let st2 := evict st1 in
      let old := filter (fun e => N.ltb (low_time (ta st2) + snd e) now) (trace_number st2) in
      if existsb (key_eqb x) (map fst old) then None else owner st2 x).
    { intros x. unfold st', prune, prune_gen. cbn [fst]. unfold owner at 1. cbn [states].
      exact (fold_release_owner _ false _ _ x). }
    cbv zeta in Hown.
    set (g2 := if should_punish st && adjustment st then punish 2 else (fun d => d)) in *.
    set (st1 := fold_left (release_one g2 false) (timed_out now (tip + 20) (states st)) st) in *.
    assert (Hinv1 : iinv st1).
    { apply fold_release_inv; auto. unfold g2. destruct (_ && _); auto using kh_punish, kh_id. }
    assert (H1 : forall x, owner st1 x = if existsb (key_eqb x) (timed_out now (tip + 20) (states st)) then None else owner st x)
      by (intros x; apply fold_release_owner).
    assert (Hgone : gone = evicted_peers st1) by reflexivity.
    split; [|split; [|split]].
    + intros x. rewrite Hown. destruct (existsb (key_eqb x) _); auto.
      rewrite (evict_owner _ _ Hinv1). destruct (existsb _ (evicted_peers st1)); auto.
      rewrite H1. destruct (existsb _ _); auto.
    + intros x Hx. rewrite Hown. destruct (existsb (key_eqb x) _); auto.
      rewrite (evict_owner _ _ Hinv1). destruct (existsb _ (evicted_peers st1)); auto.
      rewrite H1. apply existsb_key_In in Hx. now rewrite Hx.
    + intros x p since Hx Hp. rewrite Hown. destruct (existsb (key_eqb x) _); auto.
      rewrite (evict_owner _ _ Hinv1). rewrite H1.
      destruct (existsb (key_eqb x) (timed_out now (tip + 20) (states st))); cbn.
      * destruct (existsb _ (evicted_peers st1)); reflexivity.
      * rewrite Hx. rewrite Hgone in Hp.
        assert (existsb (fun p0 => owned_by p0 (Some (p, since))) (evicted_peers st1) = true) as ->; [|reflexivity].
        apply existsb_exists. exists p. split; auto. cbn. apply N.eqb_refl.
    + intros p Hp. rewrite Hgone in Hp.
      (* the scheduler of an evicted peer is gone after the eviction and nothing re-creates it *)
      assert (Hev : forall l s, In p l -> lkP p (scheds (fold_left (fun st p => fst (remove_by_peer p st)) l s)) = None).
      { induction l as [|q l IH]; intros s Hin; [destruct Hin|]. destruct Hin as [->|Hin]; cbn.
        - clear IH. assert (lkP p (scheds (fst (remove_by_peer p s))) = None) as X.
          { unfold remove_by_peer. destruct (lkP p (scheds s)) eqn:E; cbn; auto.
            now rewrite (alookup_adelete N.eqb ns), N.eqb_refl. }
          revert X. generalize (fst (remove_by_peer p s)). induction l as [|r l IH]; cbn; auto.
          intros s0 X. apply IH. unfold remove_by_peer. destruct (lkP r (scheds s0)) eqn:E; cbn; auto.
          rewrite (alookup_adelete N.eqb ns). destruct (N.eqb r p); auto.
        - now apply IH. }
      assert (Hrel : forall g tn keys s, lkP p (scheds s) = None -> lkP p (scheds (fold_left (release_one g tn) keys s)) = None).
      { intros g tn keys. induction keys as [|k keys IH]; cbn; auto. intros s Hs. apply IH.
        unfold release_one. destruct (lkS k (states s)) as [[q t]|]; auto.
        destruct (lkP q (scheds s)) eqn:E; cbn [set_core scheds]; auto.
        rewrite (alookup_ainsert N.eqb ns). destruct (ns q p); congruence. }
      unfold st', prune, prune_gen. cbn [fst scheds]. apply Hrel. unfold evict. apply Hev. exact Hp.
Qed.

(* ---- F5: the prune before the repair ------------------------------------------- *)
Definition f5_ops : list iop :=
  [ISetProtect 0; IInsert 0 1 (1, 1); IInsert 0 1 (2, 2); IInsert 0 1 (3, 3);
   IInsert 30001 1 (4, 4); IInsert 30001 1 (5, 5); IInsert 30001 2 (6, 6); IPrune 30001 0]%N.

(* three stale and two fresh requests of peer 1, one prune: peer 1 is reported for
   disconnection, its two fresh requests stay in flight without being listed,
   remove_by_peer releases nothing and the block cannot be assigned to peer 3 *)
Theorem prune_old_refuted :
  exists ops b p since,
    let st := irun_old ifb_default ops in
    owner st b = Some (p, since) /\ ~ listed st p b /\
    snd (remove_by_peer p st) = 0%nat /\
    snd (insert (since + 1) 3 b (fst (remove_by_peer p st))) = false.
Proof.
  exists f5_ops, (4, 4)%N, 1%N, 30001%N. cbv zeta. split; [vm_compute; reflexivity|]. split.
  - intros [d [E _]]. vm_compute in E. discriminate.
  - split; vm_compute; reflexivity.
Qed.

Theorem prune_fixed_on_witness :
  let st := irun ifb_default f5_ops in
  snd (prune 30001 0 (irun ifb_default (removelast f5_ops))) = [1%N] /\
  owner st (4, 4)%N = None /\ owner st (6, 6)%N = Some (2, 30001)%N /\
  snd (insert 30002 3 (4, 4)%N st) = true.
Proof. vm_compute. auto. Qed.
