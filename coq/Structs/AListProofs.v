(* Structs/AListProofs.v — lookup equations of the association-list maps. *)
From CKB Require Import Structs.AList.

Section ALP.
  Context {K V : Type} (eqb : K -> K -> bool).
  Hypothesis eqb_spec : forall a b, reflect (a = b) (eqb a b).

  Lemma eqb_refl_ k : eqb k k = true.
  Proof. destruct (eqb_spec k k); congruence. Qed.
  Lemma eqb_neq a b : a <> b -> eqb a b = false.
  Proof. destruct (eqb_spec a b); congruence. Qed.

  Lemma alookup_adelete k k' (l : list (K * V)) :
    alookup eqb k' (adelete eqb k l) = if eqb k k' then None else alookup eqb k' l.
  Proof.
    unfold adelete.
    induction l as [|[a v] l IH]; cbn.
    - destruct (eqb k k'); reflexivity.
    - destruct (eqb_spec k a); cbn.
      + subst a. rewrite IH. destruct (eqb_spec k k').
        * reflexivity.
        * destruct (eqb_spec k' k); congruence.
      + rewrite IH. destruct (eqb_spec k' a).
        * subst a. rewrite eqb_neq by congruence. reflexivity.
        * reflexivity.
  Qed.

  Lemma alookup_ainsert k v k' (l : list (K * V)) :
    alookup eqb k' (ainsert eqb k v l) = if eqb k k' then Some v else alookup eqb k' l.
  Proof.
    unfold ainsert; cbn. destruct (eqb_spec k' k).
    - subst. rewrite eqb_refl_. reflexivity.
    - rewrite alookup_adelete. destruct (eqb_spec k k'); congruence.
  Qed.

  Lemma alookup_adelete_all ks k' (l : list (K * V)) :
    alookup eqb k' (adelete_all eqb ks l) = if existsb (eqb k') ks then None else alookup eqb k' l.
  Proof.
    unfold adelete_all. revert l. induction ks as [|a ks IH]; intros l; cbn.
    - reflexivity.
    - rewrite IH. rewrite alookup_adelete.
      destruct (eqb_spec k' a).
      + subst. rewrite eqb_refl_. cbn. destruct (existsb _ ks); reflexivity.
      + rewrite (eqb_neq a k') by congruence. reflexivity.
  Qed.

  Lemma alookup_In k v (l : list (K * V)) : alookup eqb k l = Some v -> In (k, v) l.
  Proof.
    induction l as [|[a w] l IH]; cbn; [discriminate|].
    destruct (eqb_spec k a).
    - intros [= ->]. subst. now left.
    - intros H. right. auto.
  Qed.

  Lemma alookup_None k (l : list (K * V)) : alookup eqb k l = None <-> ~ In k (map fst l).
  Proof.
    induction l as [|[a w] l IH]; cbn.
    - tauto.
    - destruct (eqb_spec k a).
      + subst. split; [discriminate|]. intros H; exfalso; apply H; now left.
      + rewrite IH. split; intros H; [intros [E|E]; [congruence|tauto]|tauto].
  Qed.

  Lemma In_alookup k v (l : list (K * V)) :
    NoDup (map fst l) -> In (k, v) l -> alookup eqb k l = Some v.
  Proof.
    induction l as [|[a w] l IH]; cbn; [tauto|].
    intros ND [E|E].
    - injection E as -> ->. now rewrite eqb_refl_.
    - inversion ND; subst. destruct (eqb_spec k a).
      + subst. exfalso. apply H1. apply in_map_iff. exists (a, v). auto.
      + auto.
  Qed.

  Lemma adelete_keys_incl k (l : list (K * V)) x : In x (map fst (adelete eqb k l)) -> In x (map fst l).
  Proof.
    unfold adelete. rewrite !in_map_iff. intros [y [E H]]. apply filter_In in H. exists y. tauto.
  Qed.

  Lemma NoDup_adelete k (l : list (K * V)) : NoDup (map fst l) -> NoDup (map fst (adelete eqb k l)).
  Proof.
    induction l as [|[a w] l IH]; cbn; [constructor|].
    intros ND; inversion ND; subst.
    destruct (eqb k a); cbn; auto.
    constructor; auto. intros H; apply H1. eapply adelete_keys_incl; eauto.
  Qed.

  Lemma NoDup_ainsert k v (l : list (K * V)) : NoDup (map fst l) -> NoDup (map fst (ainsert eqb k v l)).
  Proof.
    intros ND. unfold ainsert; cbn. constructor.
    - intros H. apply (proj1 (alookup_None k (adelete eqb k l))) in H; auto.
      rewrite alookup_adelete, eqb_refl_. reflexivity.
    - now apply NoDup_adelete.
  Qed.

  Lemma NoDup_adelete_all ks (l : list (K * V)) : NoDup (map fst l) -> NoDup (map fst (adelete_all eqb ks l)).
  Proof.
    unfold adelete_all. revert l; induction ks; cbn; auto using NoDup_adelete.
  Qed.

  Lemma amem_true k (l : list (K * V)) : amem eqb k l = true <-> exists v, alookup eqb k l = Some v.
  Proof. unfold amem. destruct (alookup eqb k l); split; eauto; try discriminate. intros [v [=]]. Qed.
  Lemma amem_false k (l : list (K * V)) : amem eqb k l = false <-> alookup eqb k l = None.
  Proof. unfold amem. destruct (alookup eqb k l); split; congruence. Qed.

  (* length of a key-duplicate-free map after delete / insert *)
  Lemma length_adelete k (l : list (K * V)) : NoDup (map fst l) ->
    length (adelete eqb k l) = (length l - (if amem eqb k l then 1 else 0))%nat.
  Proof.
    unfold adelete, amem.
    induction l as [|[a w] l IH]; cbn; [reflexivity|].
    intros ND; inversion ND; subst.
    destruct (eqb_spec k a); cbn.
    - subst. assert (alookup eqb a l = None) as E by (apply alookup_None; auto).
      specialize (IH H2). rewrite E in IH. lia.
    - specialize (IH H2). destruct (alookup eqb k l) eqn:E.
      + assert (length l <> 0)%nat by (destruct l; [discriminate|cbn; lia]). lia.
      + lia.
  Qed.

  (* sets as duplicate-free lists *)
  Lemma smem_In x (s : list K) : smem eqb x s = true <-> In x s.
  Proof.
    unfold smem. rewrite existsb_exists. split.
    - intros [y [H E]]. destruct (eqb_spec x y); congruence.
    - intros H. exists x. split; auto. apply eqb_refl_.
  Qed.
  Lemma In_sremove x y (s : list K) : In y (sremove eqb x s) <-> In y s /\ y <> x.
  Proof.
    unfold sremove. rewrite filter_In. destruct (eqb_spec x y); cbn; split; intros; intuition congruence.
  Qed.
  Lemma In_sinsert x y (s : list K) : In y (sinsert eqb x s) <-> y = x \/ In y s.
  Proof.
    unfold sinsert. destruct (smem eqb x s) eqn:E.
    - apply smem_In in E. split; [tauto|]. intros [->|]; auto.
    - cbn. split; intros [|]; auto.
  Qed.
  Lemma NoDup_sremove x (s : list K) : NoDup s -> NoDup (sremove eqb x s).
  Proof. apply NoDup_filter. Qed.
  Lemma NoDup_sinsert x (s : list K) : NoDup s -> NoDup (sinsert eqb x s).
  Proof.
    unfold sinsert. destruct (smem eqb x s) eqn:E; auto.
    intros. constructor; auto. rewrite <- smem_In, E. discriminate.
  Qed.
End ALP.

Lemma key_eqb_spec : forall a b : key, reflect (a = b) (key_eqb a b).
Proof.
  intros [a1 a2] [b1 b2]. unfold key_eqb; cbn.
  destruct (N.eqb_spec a1 b1), (N.eqb_spec a2 b2); cbn; constructor; congruence.
Qed.
