(* Structs/SkipProofs.v — proofs about Structs/Skip.v *)
From Coq Require Import ZArith NArith Lia Bool List.
From CKB Require Import Structs.AList Structs.Skip.
Import ListNotations.

Local Open Scope Z_scope.

Lemma land_le_r a b : 0 <= b -> Z.land a b <= b.
Proof.
  intros Hb.
  assert (Z.land a b + Z.ldiff b a = b) as E.
  { rewrite Z.add_nocarry_lxor.
    - apply Z.bits_inj'. intros n Hn. rewrite Z.lxor_spec, Z.land_spec, Z.ldiff_spec.
      destruct (Z.testbit a n), (Z.testbit b n); reflexivity.
    - apply Z.bits_inj'. intros n Hn. rewrite !Z.land_spec, Z.ldiff_spec, Z.bits_0.
      destruct (Z.testbit a n), (Z.testbit b n); reflexivity. }
  assert (0 <= Z.ldiff b a) by (apply Z.ldiff_nonneg; auto).
  lia.
Qed.

Lemma of_N_land a b : Z.of_N (N.land a b) = Z.land (Z.of_N a) (Z.of_N b).
Proof. destruct a, b; reflexivity. Qed.

Lemma of_N_clear n : (0 < n)%N -> Z.land (Z.of_N n) (Z.of_N n - 1) = Z.of_N (clear_lowest n).
Proof.
  intros H. unfold clear_lowest. rewrite of_N_land. f_equal. lia.
Qed.

Lemma clear_lowest_0 : clear_lowest 0 = 0%N.
Proof. reflexivity. Qed.

Lemma clear_lowest_lt n : (0 < n)%N -> (clear_lowest n < n)%N.
Proof.
  intros H. apply N2Z.inj_lt. rewrite <- of_N_clear by auto.
  pose proof (land_le_r (Z.of_N n) (Z.of_N n - 1)). lia.
Qed.

Lemma clear_lowest_le n : (clear_lowest n <= n)%N.
Proof.
  destruct (N.eq_dec n 0) as [->|]. { rewrite clear_lowest_0. lia. }
  pose proof (clear_lowest_lt n). lia.
Qed.

Lemma land1_odd h : N.land h 1 = if N.odd h then 1%N else 0%N.
Proof. destruct h as [|[p|p|]]; reflexivity. Qed.

Lemma invert_nonneg z : 0 <= z -> invert_lowest_one z = Some (Z.land z (z - 1)).
Proof.
  intros H. unfold invert_lowest_one.
  destruct (Z.eqb_spec z (- 2 ^ 63)); [lia|reflexivity].
Qed.

Lemma as_u64_small n : (n < 2 ^ 64)%N -> as_u64 (Z.of_N n) = n.
Proof.
  intros H. unfold as_u64. rewrite Z.mod_small; [apply N2Z.id|].
  split; [lia|]. change (2 ^ 64) with (Z.of_N (2 ^ 64)). lia.
Qed.

Lemma invert_of_N n : invert_lowest_one (Z.of_N n) = Some (Z.of_N (clear_lowest n)).
Proof.
  rewrite invert_nonneg by lia. f_equal.
  destruct (N.eq_dec n 0) as [->|]; [reflexivity|]. apply of_N_clear. lia.
Qed.

(* the i64 bit tricks compute skip_spec for every height a chain can reach *)
Theorem get_skip_height_spec h : (h < 2 ^ 63)%N -> get_skip_height h = Some (skip_spec h).
Proof.
  intros Hh. unfold get_skip_height, skip_spec.
  destruct (N.ltb_spec h 2); [reflexivity|].
  assert (as_i64 h = Z.of_N h) as Ei.
  { unfold as_i64. destruct (Z.ltb_spec (Z.of_N h) (2 ^ 63)); [reflexivity|].
    change (2 ^ 63) with (Z.of_N (2 ^ 63)) in *. lia. }
  rewrite Ei, land1_odd.
  assert (2 ^ 63 < 2 ^ 64)%N as P by reflexivity.
  destruct (N.odd h) eqn:Eo; cbn [N.ltb N.compare].
  - change (0 ?= 1)%N with Lt. cbn iota.
    replace (Z.of_N h - 1) with (Z.of_N (h - 1)) by lia.
    rewrite invert_of_N, invert_of_N.
    pose proof (clear_lowest_le (h - 1)). pose proof (clear_lowest_le (clear_lowest (h - 1))).
    rewrite as_u64_small by lia.
    destruct (N.eqb_spec (clear_lowest (clear_lowest (h - 1))) (2 ^ 64 - 1)); [lia|reflexivity].
  - change (0 ?= 0)%N with Eq. cbn iota.
    rewrite invert_of_N. pose proof (clear_lowest_le h).
    rewrite as_u64_small by lia. reflexivity.
Qed.

Theorem skip_spec_lt h : (0 < h)%N -> (skip_spec h < h)%N.
Proof.
  intros H. unfold skip_spec.
  destruct (N.ltb_spec h 2); [lia|].
  destruct (N.odd h).
  - destruct (N.eq_dec (clear_lowest (h - 1)) 0) as [E|E].
    + rewrite E, clear_lowest_0. lia.
    + pose proof (clear_lowest_lt (h - 1)). pose proof (clear_lowest_lt (clear_lowest (h - 1))). lia.
  - apply clear_lowest_lt. lia.
Qed.

Theorem skip_height_lt h : (0 < h)%N -> (h < 2 ^ 63)%N ->
  exists s, get_skip_height h = Some s /\ (s < h)%N.
Proof.
  intros H1 H2. exists (skip_spec h). split; [now apply get_skip_height_spec|now apply skip_spec_lt].
Qed.

(* beyond i64::MAX the expression overflows: the code panics *)
Theorem skip_height_overflow_witness : get_skip_height (2 ^ 63) = None.
Proof. vm_compute. reflexivity. Qed.

Example skip_height_examples :
  map get_skip_height [0; 1; 2; 3; 12; 13; 1000; 2 ^ 63 - 1]%N
  = map Some [0; 0; 0; 1; 8; 1; 992; 2 ^ 63 - 7]%N.
Proof. vm_compute. reflexivity. Qed.

(* ---- get_ancestor = parent walk ------------------------------------------------ *)
Local Close Scope Z_scope.
Local Open Scope N_scope.

Section Walk.
  Variable par : N -> N.        (* parent hash of a hash *)
  Variable num : N -> N.        (* block number of a hash *)
  Variable getv : N -> bool -> option hdr.
  Variable fast : N -> N * N -> option hdr.
  Variable tip : N.

  Fixpoint walkh (k : nat) (x : N) : N :=
    match k with O => x | S k' => walkh k' (par x) end.

  (* a view tells the truth about its block; its skip pointer, if any, is the
     ancestor at the skip height *)
  Definition faithful (c : hdr) : Prop :=
    h_number c = num (h_hash c) /\ h_parent c = par (h_hash c) /\
    forall s, h_skip c = Some s -> s = walkh (N.to_nat (num (h_hash c) - skip_spec (num (h_hash c)))) (h_hash c).

  Hypothesis Hnum : forall x, 0 < num x -> num (par x) = num x - 1.
  Hypothesis Hgetv : forall x sf c, getv x sf = Some c -> h_hash c = x /\ faithful c.
  Hypothesis Hfast : forall n x t, fast n (num x, x) = Some t -> n <= num x ->
                                   h_hash t = walkh (N.to_nat (num x - n)) x.

  Lemma num_walkh k : forall x, N.of_nat k <= num x -> num (walkh k x) = num x - N.of_nat k.
  Proof.
    induction k as [|k IH]; intros x Hk; cbn [walkh].
    - rewrite N.sub_0_r. reflexivity.
    - rewrite IH; rewrite Hnum; lia.
  Qed.

  Lemma walkh_add b : forall a x, walkh a (walkh b x) = walkh (b + a) x.
  Proof. induction b as [|b IH]; intros a x; cbn; auto. Qed.

  Definition ok_result (number nw : N) (x : N) (r : res) : Prop :=
    match r with
    | RSome t => h_hash t = walkh (N.to_nat (nw - number)) x
    | RNone => True
    | RPanic => False
    | RFuel => False
    end.

  Lemma ga_loop_spec number fuel : forall current nw,
    faithful current -> nw = num (h_hash current) -> nw < 2 ^ 63 -> (N.to_nat nw < fuel)%nat ->
    ok_result number nw (h_hash current) (ga_loop getv fast tip fuel number current nw).
  Proof.
    induction fuel as [|f IH]; intros current nw Hf Hnw Hb Hfu; [lia|].
    cbn [ga_loop]. destruct (N.leb_spec nw number) as [Hle|Hgt].
    - cbn. replace (nw - number) with 0 by lia. reflexivity.
    - rewrite (get_skip_height_spec nw Hb), (get_skip_height_spec (nw - 1)) by lia.
      destruct Hf as (Hn & Hp & Hs).
      pose proof (skip_spec_lt nw ltac:(lia)) as Hsk.
      set (x := h_hash current) in *.
      (* the two ways to move *)
      assert (Hparent : forall c, getv (h_parent current) (h_number current <=? tip) = Some c ->
                ok_result number nw x
                  match fast number (h_number c, h_hash c) with
                  | Some t => RSome t
                  | None => ga_loop getv fast tip f number c (nw - 1)
                  end).
      { intros c Hc. destruct (Hgetv _ _ _ Hc) as [Hh Hfc]. rewrite Hp in Hh.
        assert (Hnc : num (h_hash c) = nw - 1) by (rewrite Hh, Hnum; lia).
        destruct Hfc as (Hcn & Hfc'). rewrite Hcn.
        destruct (fast number (num (h_hash c), h_hash c)) as [t|] eqn:Ef.
        - cbn. rewrite (Hfast _ _ _ Ef) by lia. rewrite Hnc, Hh.
          change (walkh (N.to_nat (nw - 1 - number)) (par x)) with (walkh (N.to_nat (nw - 1 - number)) (walkh 1 x)).
          rewrite walkh_add. f_equal. lia.
        - assert (Hi : ok_result number (nw - 1) (h_hash c) (ga_loop getv fast tip f number c (nw - 1))).
          { apply IH; [split; auto|lia|lia|lia]. }
          destruct (ga_loop getv fast tip f number c (nw - 1)); cbn in *; auto.
          rewrite Hi, Hh. change (walkh (N.to_nat (nw - 1 - number)) (par x)) with (walkh (N.to_nat (nw - 1 - number)) (walkh 1 x)).
          rewrite walkh_add. f_equal. lia. }
      destruct (h_skip current) as [sh|] eqn:Esk.
      + destruct (follow_skip number (skip_spec nw) (skip_spec (nw - 1))) eqn:Efs.
        * destruct (getv sh (h_number current <=? tip)) as [c|] eqn:Ec; cbn [option_map]; [|exact I].
          destruct (Hgetv _ _ _ Ec) as [Hh Hfc].
          assert (Hge : number <= skip_spec nw).
          { unfold follow_skip in Efs. apply orb_true_iff in Efs. destruct Efs as [E|E].
            - apply N.eqb_eq in E. lia.
            - apply andb_true_iff in E. destruct E as [E _]. apply N.ltb_lt in E. lia. }
          specialize (Hs sh eq_refl). rewrite <- Hnw in Hs.
          assert (Hnc : num (h_hash c) = skip_spec nw).
          { rewrite Hh, Hs, num_walkh; fold x; lia. }
          destruct Hfc as (Hcn & Hfc'). rewrite Hcn.
          destruct (fast number (num (h_hash c), h_hash c)) as [t|] eqn:Ef.
          -- cbn. rewrite (Hfast _ _ _ Ef) by lia. rewrite Hnc, Hh, Hs, walkh_add. f_equal. lia.
          -- assert (Hi : ok_result number (skip_spec nw) (h_hash c) (ga_loop getv fast tip f number c (skip_spec nw))).
             { apply IH; [split; auto|lia|lia|lia]. }
             destruct (ga_loop getv fast tip f number c (skip_spec nw)); cbn in *; auto.
             rewrite Hi, Hh, Hs, walkh_add. f_equal. lia.
        * destruct (getv (h_parent current) (h_number current <=? tip)) as [c|] eqn:Ec; cbn [option_map]; [|exact I].
          now apply Hparent.
      + destruct (getv (h_parent current) (h_number current <=? tip)) as [c|] eqn:Ec; cbn [option_map]; [|exact I].
        now apply Hparent.
  Qed.

  (* the header get_ancestor returns is the one reached by number(self) - number
     parent steps; the loop neither runs out of rounds nor overflows *)
  Theorem get_ancestor_eq_walk : forall self number,
    faithful self -> num (h_hash self) < 2 ^ 63 ->
    match get_ancestor getv fast tip self number with
    | RSome t => number <= num (h_hash self) /\
                 h_hash t = walkh (N.to_nat (num (h_hash self) - number)) (h_hash self)
    | RNone => True
    | RPanic | RFuel => False
    end.
  Proof.
    intros self number Hf Hb. unfold get_ancestor.
    destruct (N.ltb_spec (h_number self) number) as [H|H]; [exact I|].
    pose proof Hf as (Hn & _).
    pose proof (ga_loop_spec number (S (N.to_nat (h_number self))) self (h_number self) Hf Hn) as G.
    rewrite Hn in *. specialize (G Hb ltac:(lia)).
    destruct (ga_loop _ _ _ _ _ _ _); cbn in *; auto.
  Qed.
End Walk.

(* termination on its own: with number(self) + 1 rounds the loop never reports
   RFuel, whatever the oracles answer (heights below 2^63) *)
Theorem get_ancestor_terminates : forall getv fast tip number fuel current nw,
  nw < 2 ^ 63 -> (N.to_nat nw < fuel)%nat ->
  ga_loop getv fast tip fuel number current nw <> RFuel /\
  ga_loop getv fast tip fuel number current nw <> RPanic.
Proof.
  intros getv fast tip number fuel. induction fuel as [|f IH]; intros current nw Hb Hfu; [lia|].
  cbn [ga_loop]. destruct (N.leb_spec nw number); [split; discriminate|].
  rewrite (get_skip_height_spec nw Hb), (get_skip_height_spec (nw - 1)) by lia.
  pose proof (skip_spec_lt nw ltac:(lia)) as Hsk.
  match goal with |- context [match ?n with Some _ => _ | None => RNone end] => destruct n as [[c nw']|] eqn:En end;
    [|split; discriminate].
  assert (nw' < nw) as Hlt.
  { destruct (h_skip current); [destruct (follow_skip _ _ _)|];
      match type of En with option_map _ ?g = _ => destruct g; cbn in En; [injection En as <- <-|discriminate] end; lia. }
  destruct (fast number (h_number c, h_hash c)); [split; discriminate|]. apply IH; lia.
Qed.

(* non-vacuity: the linear chain hash = number with true skip pointers satisfies the hypotheses *)
Definition lin_par (x : N) : N := x - 1.
Definition lin_num (x : N) : N := x.
Definition lin_getv (x : N) (_ : bool) : option hdr :=
  Some (mkHdr x x (x - 1) (if N.eqb x 0 then None else Some (skip_spec x))).
Definition lin_fast (_ : N) (_ : N * N) : option hdr := None.

Lemma lin_walkh k : forall x, walkh lin_par k x = x - N.of_nat k.
Proof. induction k; intros x; cbn [walkh]; [lia|]. rewrite IHk. unfold lin_par. lia. Qed.

Example get_ancestor_example :
  (forall x, 0 < lin_num x -> lin_num (lin_par x) = lin_num x - 1) /\
  (forall x sf c, lin_getv x sf = Some c -> h_hash c = x /\ faithful lin_par lin_num c) /\
  res_hash (get_ancestor lin_getv lin_fast 0 (mkHdr 1000 1000 999 (Some 992)) 37) = Some 37.
Proof.
  split; [reflexivity|]. split; [|vm_compute; reflexivity].
  intros x sf c [= <-]. cbn. split; [reflexivity|]. split; [reflexivity|]. split; [reflexivity|].
  intros s. unfold lin_num. destruct (N.eqb_spec x 0); [discriminate|]. intros [= <-].
  rewrite lin_walkh, N2Nat.id. unfold lin_num. cbn [h_hash]. pose proof (skip_spec_lt x ltac:(lia)). lia.
Qed.

(* ---- locator: every listed hash is the start's ancestor at the listed height ---- *)
Section LocatorSpec.
  Variable A : N -> N.                 (* the chain of the start header: height => hash *)
  Variable ga : N -> N -> option N.
  Variable genesis n : N.
  (* get_ancestor, asked from any header of that chain, walks to the header at the height *)
  Hypothesis Hga : forall m k, k <= m -> m <= n -> ga (A m) k = Some (A k).

  Lemma loc_loop_eq fuel : forall step index m acc, index <= m -> m <= n ->
    loc_loop ga genesis fuel step index (A m) acc
    = loc_loop (fun _ k => Some (A k)) genesis fuel step index (A m) acc.
  Proof.
    induction fuel as [|f IH]; intros step index m acc H1 H2; [reflexivity|].
    cbn [loc_loop]. rewrite (Hga m index H1 H2).
    set (st := if Nat.leb 10 (length (acc ++ [A index])) then step * 2 else step).
    destruct (N.ltb index (st * 2)).
    - destruct (_ && _); [|reflexivity].
      rewrite (IH st (index / 2) index) by (try lia; apply N.div_le_upper_bound; lia).
      reflexivity.
    - apply (IH st (index - st) index); lia.
  Qed.

  Theorem locator_eq_walk :
    get_locator ga genesis n (A n) = get_locator (fun _ k => Some (A k)) genesis n (A n).
  Proof. unfold get_locator. apply loc_loop_eq; lia. Qed.
End LocatorSpec.

Example locator_example :
  get_locator (fun _ k => Some k) 0 30 30 = Some [30; 29; 28; 27; 26; 25; 24; 23; 22; 21; 19; 15; 0]%N
  /\ option_map (@length N) (get_locator (fun _ k => Some k) 0 40000 40000) = Some 26%nat.
Proof. vm_compute. auto. Qed.
