(* Structs/SkipProofs.v — proofs about Structs/Skip.v *)
From Coq Require Import ZArith NArith Lia Bool List.
From CKB Require Import Structs.AList Structs.Skip.
Import ListNotations.

Local Open Scope Z_scope.

Lemma land_le_r a b : 0 <= b -> Z.land a b <= b.
Proof.
  intros Hb.
  assert (Z.land a b + Z.ldiff b a = b) as E.
  { rewrite Z.add_nocarry_lxor.
    - apply Z.bits_inj'. intros n Hn. rewrite Z.lxor_spec, Z.land_spec, Z.ldiff_spec.
      destruct (Z.testbit a n), (Z.testbit b n); reflexivity.
    - apply Z.bits_inj'. intros n Hn. rewrite !Z.land_spec, Z.ldiff_spec, Z.bits_0.
      destruct (Z.testbit a n), (Z.testbit b n); reflexivity. }
  assert (0 <= Z.ldiff b a) by (apply Z.ldiff_nonneg; auto).
  lia.
Qed.

Lemma of_N_land a b : Z.of_N (N.land a b) = Z.land (Z.of_N a) (Z.of_N b).
Proof. destruct a, b; reflexivity. Qed.

Lemma of_N_clear n : (0 < n)%N -> Z.land (Z.of_N n) (Z.of_N n - 1) = Z.of_N (clear_lowest n).
Proof.
  intros H. unfold clear_lowest. rewrite of_N_land. f_equal. lia.
Qed.

Lemma clear_lowest_0 : clear_lowest 0 = 0%N.
Proof. reflexivity. Qed.

Lemma clear_lowest_lt n : (0 < n)%N -> (clear_lowest n < n)%N.
Proof.
  intros H. apply N2Z.inj_lt. rewrite <- of_N_clear by auto.
  pose proof (land_le_r (Z.of_N n) (Z.of_N n - 1)). lia.
Qed.

Lemma clear_lowest_le n : (clear_lowest n <= n)%N.
Proof.
  destruct (N.eq_dec n 0) as [->|]. { rewrite clear_lowest_0. lia. }
  pose proof (clear_lowest_lt n). lia.
Qed.

Lemma land1_odd h : N.land h 1 = if N.odd h then 1%N else 0%N.
Proof. destruct h as [|[p|p|]]; reflexivity. Qed.

Lemma invert_nonneg z : 0 <= z -> invert_lowest_one z = Some (Z.land z (z - 1)).
Proof.
  intros H. unfold invert_lowest_one.
  destruct (Z.eqb_spec z (- 2 ^ 63)); [lia|reflexivity].
Qed.

Lemma as_u64_small n : (n < 2 ^ 64)%N -> as_u64 (Z.of_N n) = n.
Proof.
  intros H. unfold as_u64. rewrite Z.mod_small; [apply N2Z.id|].
  split; [lia|]. change (2 ^ 64) with (Z.of_N (2 ^ 64)). lia.
Qed.

Lemma invert_of_N n : invert_lowest_one (Z.of_N n) = Some (Z.of_N (clear_lowest n)).
Proof.
  rewrite invert_nonneg by lia. f_equal.
  destruct (N.eq_dec n 0) as [->|]; [reflexivity|]. apply of_N_clear. lia.
Qed.

(* the i64 bit tricks compute skip_spec for every height a chain can reach *)
Theorem get_skip_height_spec h : (h < 2 ^ 63)%N -> get_skip_height h = Some (skip_spec h).
Proof.
  intros Hh. unfold get_skip_height, skip_spec.
  destruct (N.ltb_spec h 2); [reflexivity|].
  assert (as_i64 h = Z.of_N h) as Ei.
  { unfold as_i64. destruct (Z.ltb_spec (Z.of_N h) (2 ^ 63)); [reflexivity|].
    change (2 ^ 63) with (Z.of_N (2 ^ 63)) in *. lia. }
  rewrite Ei, land1_odd.
  assert (2 ^ 63 < 2 ^ 64)%N as P by reflexivity.
  destruct (N.odd h) eqn:Eo; cbn [N.ltb N.compare].
  - change (0 ?= 1)%N with Lt. cbn iota.
    replace (Z.of_N h - 1) with (Z.of_N (h - 1)) by lia.
    rewrite invert_of_N, invert_of_N.
    pose proof (clear_lowest_le (h - 1)). pose proof (clear_lowest_le (clear_lowest (h - 1))).
    rewrite as_u64_small by lia.
    destruct (N.eqb_spec (clear_lowest (clear_lowest (h - 1))) (2 ^ 64 - 1)); [lia|reflexivity].
  - change (0 ?= 0)%N with Eq. cbn iota.
    rewrite invert_of_N. pose proof (clear_lowest_le h).
    rewrite as_u64_small by lia. reflexivity.
Qed.

Theorem skip_spec_lt h : (0 < h)%N -> (skip_spec h < h)%N.
Proof.
  intros H. unfold skip_spec.
  destruct (N.ltb_spec h 2); [lia|].
  destruct (N.odd h).
  - destruct (N.eq_dec (clear_lowest (h - 1)) 0) as [E|E].
    + rewrite E, clear_lowest_0. lia.
    + pose proof (clear_lowest_lt (h - 1)). pose proof (clear_lowest_lt (clear_lowest (h - 1))). lia.
  - apply clear_lowest_lt. lia.
Qed.

Theorem skip_height_lt h : (0 < h)%N -> (h < 2 ^ 63)%N ->
  exists s, get_skip_height h = Some s /\ (s < h)%N.
Proof.
  intros H1 H2. exists (skip_spec h). split; [now apply get_skip_height_spec|now apply skip_spec_lt].
Qed.

(* beyond i64::MAX the expression overflows: the code panics *)
Theorem skip_height_overflow_witness : get_skip_height (2 ^ 63) = None.
Proof. vm_compute. reflexivity. Qed.

Example skip_height_examples :
  map get_skip_height [0; 1; 2; 3; 12; 13; 1000; 2 ^ 63 - 1]%N
  = map Some [0; 0; 0; 1; 8; 1; 992; 2 ^ 63 - 7]%N.
Proof. vm_compute. reflexivity. Qed.
