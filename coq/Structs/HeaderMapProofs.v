(* Structs/HeaderMapProofs.v — the two-tier header map answers like a plain map
   for every interleaving of spill steps and every memory limit. *)
From CKB Require Import Structs.AList Structs.AListProofs Structs.HeaderMap.

Local Notation lk := (alookup N.eqb).
Local Notation ns := N.eqb_spec.

Lemma alookup_app {V} k (a b : list (N * V)) :
  lk k (a ++ b) = match lk k a with Some v => Some v | None => lk k b end.
Proof. induction a as [|[x v] a IH]; cbn; auto. destruct (N.eqb k x); auto. Qed.

Lemma minsert_lookup k v k' l : lk k' (minsert k v l) = if N.eqb k k' then Some v else lk k' l.
Proof.
  unfold minsert. rewrite alookup_app, (alookup_adelete N.eqb ns). cbn.
  destruct (ns k k') as [->|Hn].
  - now rewrite N.eqb_refl.
  - destruct (lk k' l); auto. destruct (ns k' k); congruence.
Qed.

Lemma minsert_nodup k v l : NoDup (map fst l) -> NoDup (map fst (minsert k v l)).
Proof.
  intros ND. unfold minsert. rewrite map_app. cbn.
  assert (NoDup (map fst (adelete N.eqb k l))) as H by now apply NoDup_adelete.
  assert (~ In k (map fst (adelete N.eqb k l))) as Hk.
  { apply (alookup_None N.eqb ns). now rewrite (alookup_adelete N.eqb ns), N.eqb_refl. }
  revert H Hk. generalize (map fst (adelete N.eqb k l)). intros m. induction m as [|x m IH]; cbn; intros H Hk.
  - repeat constructor. tauto.
  - inversion H; subst. constructor.
    + rewrite in_app_iff. cbn. intuition.
    + apply IH; auto.
Qed.

Lemma firstn_lookup {V} n k (v : V) l : lk k (firstn n l) = Some v -> lk k l = Some v.
Proof.
  revert l. induction n; intros [|[x w] l]; cbn; try discriminate.
  destruct (N.eqb k x); auto.
Qed.
Lemma firstn_In {A} n (l : list A) x : In x (firstn n l) -> In x l.
Proof. revert l. induction n; intros [|y l]; cbn; try tauto. intros [->|H]; auto. Qed.
Lemma firstn_nodup {A} n (l : list A) : NoDup l -> NoDup (firstn n l).
Proof.
  revert l. induction n; intros l ND; [constructor|]. destruct l as [|x l]; [constructor|].
  cbn. inversion ND; subst. constructor; auto.
  intros H. apply H1. eapply firstn_In; eauto.
Qed.

(* the state relation: the plain map is "memory shadows backend" *)
Definition view_of (st : hm) (k : N) : option view :=
  match lk k (memory st) with Some v => Some v | None => lk k (backend st) end.

Record hrel (st : hm) (m : list (N * view)) : Prop := {
  r1 : forall k, lk k m = view_of st k;
  r2 : bcount st = N.of_nat (length (backend st));
  r3 : NoDup (map fst (backend st));
  r4 : NoDup (map fst (memory st)) }.

Lemma count_zero st m : hrel st m -> bcount st = 0%N -> backend st = [].
Proof. intros R E. rewrite (r2 _ _ R) in E. destruct (backend st); [auto|cbn in E; lia]. Qed.

Lemma insert_batch_spec vals : NoDup (map fst vals) -> forall be cnt,
  NoDup (map fst be) -> cnt = N.of_nat (length be) ->
  let bc := insert_batch vals be cnt in
  (forall k, lk k (fst bc) = match lk k vals with Some v => Some v | None => lk k be end) /\
  NoDup (map fst (fst bc)) /\ snd bc = N.of_nat (length (fst bc)).
Proof.
  unfold insert_batch. induction vals as [|[x v] vals IH]; intros NDv be cnt NDb Ec; cbn.
  - auto.
  - inversion NDv; subst.
    assert (Hlen : (if amem N.eqb x be then N.of_nat (length be) else N.of_nat (length be) + 1)%N
                   = N.of_nat (length (ainsert N.eqb x v be))).
    { unfold ainsert. cbn [length]. rewrite (length_adelete N.eqb ns) by auto.
      destruct (amem N.eqb x be) eqn:E; [|lia].
      apply amem_true in E. destruct E as [w E]. assert (length be <> 0)%nat by (destruct be; [discriminate|cbn; lia]). lia. }
    specialize (IH H2 (ainsert N.eqb x v be) _ (NoDup_ainsert N.eqb ns _ _ _ NDb) Hlen).
    cbn [fst snd] in IH |- *. destruct IH as (I1 & I2 & I3). split; [|auto].
    intros k. rewrite I1, (alookup_ainsert N.eqb ns). destruct (ns k x) as [->|Hn].
    + assert (lk x vals = None) as -> by (apply (alookup_None N.eqb ns); auto). now rewrite N.eqb_refl.
    + destruct (lk k vals); auto. destruct (ns x k); congruence.
Qed.

Lemma hstep_rel st m o : hrel st m ->
  hrel (fst (hstep st o)) (fst (pstep m o)) /\ erase (snd (hstep st o)) = snd (pstep m o).
Proof.
  intros R. pose proof (r1 _ _ R) as R1. unfold view_of in R1.
  destruct o as [k v|k|k|k|]; cbn [hstep pstep].
  - (* insert *)
    cbn. split; [|reflexivity]. split; cbn [memory backend bcount]; try apply R.
    + intros k'. unfold view_of. cbn [memory backend]. rewrite (alookup_ainsert N.eqb ns), minsert_lookup, R1.
      destruct (N.eqb k k'); reflexivity.
    + apply minsert_nodup, R.
  - (* get *)
    unfold hm_get. rewrite R1. destruct (lk k (memory st)) as [v|] eqn:Em; cbn [fst snd erase].
    + split; [|reflexivity]. split; cbn [memory backend bcount]; try apply R; [|apply minsert_nodup, R].
      intros k'. unfold view_of. cbn [memory backend]. rewrite minsert_lookup, R1.
      destruct (ns k k') as [<-|]; [now rewrite Em|reflexivity].
    + destruct (ns (bcount st) 0) as [E0|E0].
      * rewrite (count_zero _ _ R E0). cbn. auto.
      * destruct (lk k (backend st)) as [v|] eqn:Eb; cbn [fst snd erase]; [|auto].
        split; [|reflexivity]. split; cbn [memory backend bcount].
        -- intros k'. unfold view_of. cbn [memory backend].
           rewrite minsert_lookup, (alookup_adelete N.eqb ns), R1.
           destruct (ns k k') as [<-|]; [now rewrite Em, Eb|reflexivity].
        -- rewrite (r2 _ _ R), (length_adelete N.eqb ns) by apply R.
           assert (amem N.eqb k (backend st) = true) as -> by (apply amem_true; eauto).
           assert (length (backend st) <> 0)%nat by (destruct (backend st); [discriminate|cbn; lia]). lia.
        -- apply NoDup_adelete, R.
        -- apply minsert_nodup, R.
  - (* contains_key *)
    cbn [fst snd erase]. split; [exact R|]. f_equal. unfold hm_contains, amem. rewrite R1.
    destruct (lk k (memory st)); [reflexivity|].
    destruct (ns (bcount st) 0) as [E0|E0]; [now rewrite (count_zero _ _ R E0)|reflexivity].
  - (* remove *)
    cbn [fst snd erase]. split; [|reflexivity]. unfold hm_remove.
    destruct (ns (bcount st) 0) as [E0|E0].
    + split; cbn [memory backend bcount]; try apply R; [|apply NoDup_adelete, R].
      intros k'. unfold view_of. cbn [memory backend]. rewrite !(alookup_adelete N.eqb ns), R1.
      rewrite (count_zero _ _ R E0). destruct (N.eqb k k'); [reflexivity|]. reflexivity.
    + destruct (amem N.eqb k (backend st)) eqn:Eb.
      * split; cbn [memory backend bcount].
        -- intros k'. unfold view_of. cbn [memory backend]. rewrite !(alookup_adelete N.eqb ns), R1.
           destruct (N.eqb k k'); reflexivity.
        -- rewrite (r2 _ _ R), (length_adelete N.eqb ns), Eb by apply R.
           apply amem_true in Eb. destruct Eb as [w Eb].
           assert (length (backend st) <> 0)%nat by (destruct (backend st); [discriminate|cbn; lia]). lia.
        -- apply NoDup_adelete, R.
        -- apply NoDup_adelete, R.
      * split; cbn [memory backend bcount]; try apply R; [|apply NoDup_adelete, R].
        intros k'. unfold view_of. cbn [memory backend]. rewrite !(alookup_adelete N.eqb ns), R1.
        destruct (ns k k') as [<-|]; [|reflexivity].
        apply amem_false in Eb. now rewrite Eb.
  - (* spill *)
    cbn [fst snd erase]. split; [|reflexivity]. unfold hm_spill.
    destruct (Nat.ltb (limit st) (length (memory st))); [|exact R].
    set (vals := firstn (length (memory st) - limit st) (memory st)).
    assert (NDv : NoDup (map fst vals)).
    { unfold vals. rewrite <- firstn_map. apply firstn_nodup, R. }
    destruct (insert_batch_spec vals NDv (backend st) (bcount st) (r3 _ _ R) (r2 _ _ R)) as (I1 & I2 & I3).
    split; cbn [memory backend bcount]; auto.
    + intros k. unfold view_of. cbn [memory backend].
      rewrite (alookup_adelete_all N.eqb ns), I1, R1.
      destruct (existsb (N.eqb k) (map fst vals)) eqn:E.
      * apply (smem_In N.eqb ns) in E.
        destruct (lk k vals) as [v|] eqn:Ev; [|apply (alookup_None N.eqb ns) in Ev; tauto].
        now rewrite (firstn_lookup _ _ _ _ Ev).
      * assert (lk k vals = None) as ->; [|reflexivity].
        apply (alookup_None N.eqb ns). intros X. apply (smem_In N.eqb ns) in X. unfold smem in X. congruence.
    + apply NoDup_adelete_all, R.
Qed.

Lemma hrun_rel ops : forall st m, hrel st m -> map erase (hrun st ops) = prun m ops.
Proof.
  induction ops as [|o ops IH]; intros st m R; cbn; [reflexivity|].
  destruct (hstep_rel st m o R) as [R' E].
  destruct (hstep st o) as [s a], (pstep m o) as [m' a']. cbn in *. rewrite E. f_equal. now apply IH.
Qed.

Theorem headermap_refines : forall lim ops,
  map erase (hrun (hm_empty lim) ops) = prun [] ops.
Proof.
  intros lim ops. apply hrun_rel. split; cbn; auto; constructor.
Qed.

(* the memory tier holds at most [limit] items after a spill step *)
Lemma adelete_absent {V} k (l : list (N * V)) : ~ In k (map fst l) -> adelete N.eqb k l = l.
Proof.
  unfold adelete. induction l as [|[a w] l IH]; cbn; auto. intros H.
  destruct (ns k a) as [->|]; [exfalso; apply H; now left|]. cbn. f_equal. apply IH. tauto.
Qed.

Lemma spill_is_skipn {V} n (l : list (N * V)) : NoDup (map fst l) ->
  adelete_all N.eqb (map fst (firstn n l)) l = skipn n l.
Proof.
  revert l. induction n; intros l ND; [reflexivity|].
  destruct l as [|[k v] l]; [reflexivity|]. cbn. rewrite N.eqb_refl. cbn. inversion ND; subst.
  change (filter (fun kv : N * V => negb (k =? fst kv)%N) l) with (adelete N.eqb k l).
  rewrite adelete_absent by auto. apply IHn; auto.
Qed.

(* after a spill step the memory tier holds at most [limit] items *)
Theorem headermap_spill_bounds : forall st m, hrel st m -> length (memory (hm_spill st)) <= limit st.
Proof.
  intros st m R. unfold hm_spill.
  destruct (Nat.ltb_spec (limit st) (length (memory st))) as [H|H]; [|exact H].
  cbn [memory]. rewrite spill_is_skipn by apply R. rewrite skipn_length. lia.
Qed.

(* non-vacuity: a run in which keys sit in both tiers *)
Example headermap_example :
  hrun (hm_empty 1) [HInsert 1 10; HInsert 2 20; HSpill; HInsert 1 11; HGet 1; HSpill; HContains 2; HRemove 1; HGet 1; HGet 2]%N
  = [AIns false; AIns false; AUnit; AIns false; AGet (Some 11%N); AUnit; ACont true; AUnit; AGet None; AGet (Some 20%N)].
Proof. vm_compute. reflexivity. Qed.
