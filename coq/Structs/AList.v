(* Structs/AList.v — association lists used as the maps/sets of the C17 models
   (HashMap / BTreeMap / HashSet of the Rust code).  Lookup finds the first
   binding, delete removes every binding of a key, insert deletes and then
   puts the new binding in front, so the lookup equations hold without any
   side condition.  Executable definitions only; lemmas are in AListProofs.v. *)
From Coq Require Export List NArith Bool Lia Arith.
Export ListNotations.

Section AL.
  Context {K V : Type} (eqb : K -> K -> bool).

  Fixpoint alookup (k : K) (l : list (K * V)) : option V :=
    match l with
    | [] => None
    | (k', v) :: l' => if eqb k k' then Some v else alookup k l'
    end.
  Definition amem (k : K) (l : list (K * V)) : bool :=
    match alookup k l with Some _ => true | None => false end.
  Definition adelete (k : K) (l : list (K * V)) : list (K * V) :=
    filter (fun kv => negb (eqb k (fst kv))) l.
  Definition ainsert (k : K) (v : V) (l : list (K * V)) : list (K * V) :=
    (k, v) :: adelete k l.
  Definition adelete_all (ks : list K) (l : list (K * V)) : list (K * V) :=
    fold_left (fun l k => adelete k l) ks l.
End AL.

Section SL.
  Context {K : Type} (eqb : K -> K -> bool).
  Definition smem (x : K) (s : list K) : bool := existsb (eqb x) s.
  Definition sremove (x : K) (s : list K) : list K := filter (fun y => negb (eqb x y)) s.
  Definition sinsert (x : K) (s : list K) : list K := if smem x s then s else x :: s.
End SL.

(* keys of the in-flight table: BlockNumberAndHash *)
Definition key := (N * N)%type.
Definition key_eqb (a b : key) : bool := N.eqb (fst a) (fst b) && N.eqb (snd a) (snd b).
(* BTreeMap order: by number, then by hash *)
Definition key_ltb (a b : key) : bool :=
  N.ltb (fst a) (fst b) || (N.eqb (fst a) (fst b) && N.ltb (snd a) (snd b)).

(* comparison helpers of the case checkers *)
Fixpoint list_eqb {A} (eqb : A -> A -> bool) (a b : list A) : bool :=
  match a, b with
  | [], [] => true
  | x :: a', y :: b' => eqb x y && list_eqb eqb a' b'
  | _, _ => false
  end.
Definition option_eqb {A} (eqb : A -> A -> bool) (a b : option A) : bool :=
  match a, b with
  | None, None => true
  | Some x, Some y => eqb x y
  | _, _ => false
  end.
Definition subset_b {A} (eqb : A -> A -> bool) (a b : list A) : bool :=
  forallb (fun x => existsb (eqb x) b) a.
(* equal as sets, and equally long (so equal as duplicate-free lists up to order) *)
Definition perm_b {A} (eqb : A -> A -> bool) (a b : list A) : bool :=
  Nat.eqb (length a) (length b) && subset_b eqb a b && subset_b eqb b a.
