(* Structs/Orphan.v — executable model of chain/src/utils/orphan_block_pool.rs
   (InnerPool: blocks, parents, leaders) and of its specification, a finite
   set of stored blocks (id, parent, epoch).  Block hashes are numbers.  The
   HashMap/HashSet iteration order of the Rust code is not modelled: returned
   lists are compared as sets, plus "parents before children".
   No proofs here (Structs/OrphanProofs.v). *)
From CKB Require Export Structs.AList.

Record blk := mkBlk { b_id : N; b_parent : N; b_epoch : N }.
Definition blk_eqb (a b : blk) : bool :=
  N.eqb (b_id a) (b_id b) && N.eqb (b_parent a) (b_parent b) && N.eqb (b_epoch a) (b_epoch b).

Record pool := mkPool {
  blocks  : list (N * list (N * blk));   (* parent hash => (hash => block) *)
  parents : list (N * N);                (* hash => parent hash *)
  leaders : list N                       (* set *)
}.
Definition empty_pool : pool := mkPool [] [] [].

Definition EXPIRED_EPOCH : N := 6.

(* InnerPool::insert *)
Definition insert (p : pool) (b : blk) : pool :=
  let h := b_id b in
  let ph := b_parent b in
  let ch := match alookup N.eqb ph (blocks p) with Some c => c | None => [] end in
  let blocks' := ainsert N.eqb ph (ainsert N.eqb h b ch) (blocks p) in
  let leaders1 := sremove N.eqb h (leaders p) in
  let leaders2 := if amem N.eqb ph (parents p) then leaders1 else sinsert N.eqb ph leaders1 in
  mkPool blocks' (ainsert N.eqb h ph (parents p)) leaders2.

(* the `while let Some(parent_hash) = queue.pop_front()` loop *)
Fixpoint bfs (fuel : nat) (queue : list N) (bl : list (N * list (N * blk))) (pa : list (N * N))
             (removed : list blk) : list (N * list (N * blk)) * list (N * N) * list blk :=
  match fuel with
  | O => (bl, pa, removed)
  | S f =>
    match queue with
    | [] => (bl, pa, removed)
    | ph :: q =>
      match alookup N.eqb ph bl with
      | Some orphaned =>
        let hashes := map fst orphaned in
        bfs f (q ++ hashes) (adelete N.eqb ph bl) (adelete_all N.eqb hashes pa)
            (removed ++ map snd orphaned)
      | None => bfs f q bl pa removed
      end
    end
  end.

(* InnerPool::remove_blocks_by_parent; the loop runs at most once per stored
   block plus once for the start, which is the fuel given *)
Definition remove_blocks_by_parent (p : pool) (ph : N) : pool * list blk :=
  if smem N.eqb ph (leaders p) then
    match bfs (S (S (length (parents p)))) [ph] (blocks p) (parents p) [] with
    | (bl, pa, removed) => (mkPool bl pa (sremove N.eqb ph (leaders p)), removed)
    end
  else (p, []).

(* need_clean looks at the first child the HashMap iterator yields; the model
   takes the head of the association list *)
Definition need_clean (p : pool) (ph : N) (tip_epoch : N) : bool :=
  match alookup N.eqb ph (blocks p) with
  | Some ((_, b) :: _) => N.ltb (b_epoch b + EXPIRED_EPOCH) tip_epoch
  | _ => false
  end.

Definition clean_expired_blocks (p : pool) (tip_epoch : N) : pool * list blk :=
  fold_left (fun st l =>
               if need_clean (fst st) l tip_epoch
               then match remove_blocks_by_parent (fst st) l with
                    | (p', r) => (p', snd st ++ r)
                    end
               else st)
            (leaders p) (p, []).

Definition pool_len (p : pool) : nat := length (parents p).

(* ---- operations and runs ------------------------------------------------ *)
Inductive oop :=
| OInsert (b : blk)
| ORemoveByParent (ph : N)
| OCleanExpired (tip_epoch : N).

Definition ostep (p : pool) (o : oop) : pool * list blk :=
  match o with
  | OInsert b => (insert p b, [])
  | ORemoveByParent ph => remove_blocks_by_parent p ph
  | OCleanExpired t => clean_expired_blocks p t
  end.

Fixpoint orun (p : pool) (ops : list oop) : pool :=
  match ops with
  | [] => p
  | o :: ops' => orun (fst (ostep p o)) ops'
  end.

(* ---- specification: the set of stored blocks ---------------------------- *)
Definition stored (p : pool) : list blk :=
  flat_map (fun e => map snd (snd e)) (blocks p).

(* b descends from ph within S *)
Inductive descends (S : list blk) (ph : N) : blk -> Prop :=
| DChild b : In b S -> b_parent b = ph -> descends S ph b
| DStep b c : In b S -> descends S ph c -> b_parent b = b_id c -> descends S ph b.

(* every block of the list comes after its parent, unless the parent is ph *)
Definition parents_first (ph : N) (out : list blk) : Prop :=
  forall r1 b r2, out = r1 ++ b :: r2 -> b_parent b = ph \/ In (b_parent b) (map b_id r1).

(* well-formed inputs: a hash determines parent and epoch, no block is its own parent *)
Definition op_ok (par ep : N -> N) (o : oop) : Prop :=
  match o with
  | OInsert b => b_parent b = par (b_id b) /\ b_epoch b = ep (b_id b)
  | _ => True
  end.

(* ---- observations and case checkers ------------------------------------- *)
Record oobs := mkOObs { oo_len : nat; oo_leaders : list N; oo_ret : list blk }.
Definition observe_o (p : pool) (ret : list blk) : oobs := mkOObs (pool_len p) (leaders p) ret.

Fixpoint orun_obs (p : pool) (ops : list oop) : list oobs :=
  match ops with
  | [] => []
  | o :: ops' => let '(p', r) := ostep p o in observe_o p' r :: orun_obs p' ops'
  end.

(* the implementation's list must come parents-first *)
Fixpoint parents_first_b (ph_ok : N -> bool) (seen : list N) (out : list blk) : bool :=
  match out with
  | [] => true
  | b :: out' => (ph_ok (b_parent b) || smem N.eqb (b_parent b) seen)
                 && parents_first_b ph_ok (b_id b :: seen) out'
  end.

Definition oobs_eqb (m i : oobs) : bool :=
  Nat.eqb (oo_len m) (oo_len i) && perm_b N.eqb (oo_leaders m) (oo_leaders i)
  && perm_b blk_eqb (oo_ret m) (oo_ret i).

Record orphan_case := mkOCase { oc_ops : list oop; oc_obs : list oobs }.
Definition check_orphan (c : orphan_case) : bool :=
  list_eqb oobs_eqb (orun_obs empty_pool (oc_ops c)) (oc_obs c).
