(* Structs/ActiveChainProofs.v — proofs about Structs/ActiveChain.v: on every
   well-formed universe (store with main index and side branches + header map)
   ActiveChain::get_ancestor is the parent walk, also from stored side branches;
   the with_unverified variant is the parent walk above the unverified tip and,
   below it, under the invariant "no stored side branch"; the variant whose
   shortcut fires on any stored block is refuted; locator and
   last_common_ancestor follow. *)
From Coq Require Import ZArith NArith Lia Bool List.
From CKB Require Import Structs.AList Structs.AListProofs Structs.Skip Structs.SkipProofs Structs.ActiveChain.
Import ListNotations.
Local Open Scope N_scope.

Lemma walkn_walkh par k : forall x, walkn par k x = walkh par k x.
Proof. induction k as [|k IH]; intros x; cbn; auto. Qed.

(* ---- the walk of Skip.get_ancestor, total: in a parent- and skip-closed store the
   loop never answers None, and the header it returns is the parent walk.  The
   fast scanner is constrained at the queried number only. ---- *)
Section Total.
  Variable par : N -> N.
  Variable num : N -> N.
  Variable getv : N -> bool -> option hdr.
  Variable fast : N -> N * N -> option hdr.
  Variable tip : N.
  Variable number : N.

  Definition closedv (c : hdr) : Prop :=
    (0 < h_number c -> forall sf, getv (h_parent c) sf <> None) /\
    (forall s sf, h_skip c = Some s -> getv s sf <> None).

  Hypothesis Hnum : forall x, 0 < num x -> num (par x) = num x - 1.
  Hypothesis Hgetv : forall x sf c, getv x sf = Some c -> h_hash c = x /\ faithful par num c.
  Hypothesis Hclosed : forall x sf c, getv x sf = Some c -> closedv c.
  Hypothesis Hfast : forall x t, fast number (num x, x) = Some t -> number <= num x ->
    h_hash t = walkh par (N.to_nat (num x - number)) x /\ h_number t = num (h_hash t).

  Definition good (nw x : N) (r : res) : Prop :=
    match r with
    | RSome t => h_hash t = walkh par (N.to_nat (nw - number)) x /\ h_number t = num (h_hash t)
    | _ => False
    end.

  Lemma ga_loop_total fuel : forall current nw,
    faithful par num current -> closedv current -> nw = num (h_hash current) -> nw < 2 ^ 63 ->
    (N.to_nat nw < fuel)%nat ->
    good nw (h_hash current) (ga_loop getv fast tip fuel number current nw).
  Proof.
    induction fuel as [|f IH]; intros current nw Hf Hc Hnw Hb Hfu; [lia|].
    cbn [ga_loop]. destruct (N.leb_spec nw number) as [Hle|Hgt].
    - cbn. replace (nw - number) with 0 by lia. split; [reflexivity|]. apply Hf.
    - rewrite (get_skip_height_spec nw Hb), (get_skip_height_spec (nw - 1)) by lia.
      destruct Hf as (Hn & Hp & Hs).
      pose proof (skip_spec_lt nw ltac:(lia)) as Hsk.
      set (x := h_hash current) in *.
      assert (Hparent : forall c, getv (h_parent current) (h_number current <=? tip) = Some c ->
                good nw x
                  match fast number (h_number c, h_hash c) with
                  | Some t => RSome t
                  | None => ga_loop getv fast tip f number c (nw - 1)
                  end).
      { intros c Hc'. destruct (Hgetv _ _ _ Hc') as [Hh Hfc]. pose proof (Hclosed _ _ _ Hc') as Hcc.
        rewrite Hp in Hh.
        assert (Hnc : num (h_hash c) = nw - 1) by (rewrite Hh, Hnum; lia).
        destruct Hfc as (Hcn & Hfc'). rewrite Hcn.
        destruct (fast number (num (h_hash c), h_hash c)) as [t|] eqn:Ef.
        - cbn. destruct (Hfast _ _ Ef ltac:(lia)) as [E1 E2]. split; [|exact E2].
          rewrite E1, Hnc, Hh.
          change (walkh par (N.to_nat (nw - 1 - number)) (par x))
            with (walkh par (N.to_nat (nw - 1 - number)) (walkh par 1 x)).
          rewrite walkh_add. f_equal. lia.
        - assert (Hi : good (nw - 1) (h_hash c) (ga_loop getv fast tip f number c (nw - 1))).
          { apply IH; [split; auto|exact Hcc|lia|lia|lia]. }
          destruct (ga_loop getv fast tip f number c (nw - 1)); cbn in *; auto.
          destruct Hi as [E1 E2]. split; [|exact E2]. rewrite E1, Hh.
          change (walkh par (N.to_nat (nw - 1 - number)) (par x))
            with (walkh par (N.to_nat (nw - 1 - number)) (walkh par 1 x)).
          rewrite walkh_add. f_equal. lia. }
      assert (Hpos : 0 < h_number current) by (rewrite Hn; fold x; lia).
      destruct (h_skip current) as [sh|] eqn:Esk.
      + destruct (follow_skip number (skip_spec nw) (skip_spec (nw - 1))) eqn:Efs.
        * destruct (getv sh (h_number current <=? tip)) as [c|] eqn:Ec; cbn [option_map].
          2:{ exfalso. destruct Hc as [_ Hc2]. exact (Hc2 _ _ Esk Ec). }
          destruct (Hgetv _ _ _ Ec) as [Hh Hfc]. pose proof (Hclosed _ _ _ Ec) as Hcc.
          assert (Hge : number <= skip_spec nw).
          { unfold follow_skip in Efs. apply orb_true_iff in Efs. destruct Efs as [E|E].
            - apply N.eqb_eq in E. lia.
            - apply andb_true_iff in E. destruct E as [E _]. apply N.ltb_lt in E. lia. }
          specialize (Hs sh eq_refl). rewrite <- Hnw in Hs.
          assert (Hnc : num (h_hash c) = skip_spec nw).
          { rewrite Hh, Hs, (num_walkh par num Hnum); fold x; lia. }
          destruct Hfc as (Hcn & Hfc'). rewrite Hcn.
          destruct (fast number (num (h_hash c), h_hash c)) as [t|] eqn:Ef.
          -- cbn. destruct (Hfast _ _ Ef ltac:(lia)) as [E1 E2]. split; [|exact E2].
             rewrite E1, Hnc, Hh, Hs, walkh_add. f_equal. lia.
          -- assert (Hi : good (skip_spec nw) (h_hash c) (ga_loop getv fast tip f number c (skip_spec nw))).
             { apply IH; [split; auto|exact Hcc|lia|lia|lia]. }
             destruct (ga_loop getv fast tip f number c (skip_spec nw)); cbn in *; auto.
             destruct Hi as [E1 E2]. split; [|exact E2].
             rewrite E1, Hh, Hs, walkh_add. f_equal. lia.
        * destruct (getv (h_parent current) (h_number current <=? tip)) as [c|] eqn:Ec; cbn [option_map].
          2:{ exfalso. destruct Hc as [Hc1 _]. exact (Hc1 Hpos _ Ec). }
          now apply Hparent.
      + destruct (getv (h_parent current) (h_number current <=? tip)) as [c|] eqn:Ec; cbn [option_map].
        2:{ exfalso. destruct Hc as [Hc1 _]. exact (Hc1 Hpos _ Ec). }
        now apply Hparent.
  Qed.

  Theorem get_ancestor_total : forall self,
    faithful par num self -> closedv self -> num (h_hash self) < 2 ^ 63 ->
    if number <=? num (h_hash self)
    then good (num (h_hash self)) (h_hash self) (get_ancestor getv fast tip self number)
    else get_ancestor getv fast tip self number = RNone.
  Proof.
    intros self Hf Hc Hb. unfold get_ancestor. pose proof Hf as (Hn & _). rewrite Hn.
    destruct (N.leb_spec number (num (h_hash self))) as [H|H].
    - destruct (N.ltb_spec (num (h_hash self)) number); [lia|].
      apply ga_loop_total; auto; lia.
    - destruct (N.ltb_spec (num (h_hash self)) number); [reflexivity|lia].
  Qed.
End Total.

Lemma option_eqb_Some (a : option N) (x : N) : option_eqb N.eqb a (Some x) = true -> a = Some x.
Proof. destruct a as [y|]; cbn; [|discriminate]. intros H. apply N.eqb_eq in H. congruence. Qed.

(* ---- a well-formed universe ---------------------------------------------------- *)
Section Uni.
  Variable u : universe.
  Hypothesis Hwf : wf_b u = true.
  Local Notation par := (upar u).
  Local Notation num := (unum u).

  Lemma wf_views : forallb (view_ok u) (u_map u ++ u_store u) = true.
  Proof. unfold wf_b in Hwf. apply andb_true_iff in Hwf. apply Hwf. Qed.
  Lemma wf_main : forallb (main_ok u) (u_main u) = true.
  Proof. unfold wf_b in Hwf. apply andb_true_iff in Hwf. apply Hwf. Qed.

  Lemma view_of_In x sf c : view_of u x sf = Some c -> In (x, c) (u_map u ++ u_store u).
  Proof.
    unfold view_of, or_else. intros H. apply in_or_app.
    destruct sf.
    - destruct (alookup N.eqb x (u_store u)) eqn:E1.
      + right. injection H as <-. exact (alookup_In N.eqb N.eqb_spec _ _ _ E1).
      + left. exact (alookup_In N.eqb N.eqb_spec _ _ _ H).
    - destruct (alookup N.eqb x (u_map u)) eqn:E1.
      + left. injection H as <-. exact (alookup_In N.eqb N.eqb_spec _ _ _ E1).
      + right. exact (alookup_In N.eqb N.eqb_spec _ _ _ H).
  Qed.

  Lemma view_none_sf x sf sf' : view_of u x sf = None -> view_of u x sf' = None.
  Proof.
    unfold view_of, or_else.
    destruct sf, sf'; destruct (alookup N.eqb x (u_store u)), (alookup N.eqb x (u_map u)); congruence.
  Qed.

  Lemma known_view x : known u x = true -> forall sf, view_of u x sf <> None.
  Proof.
    unfold known. intros H sf E. rewrite (view_none_sf _ _ false E) in H. discriminate.
  Qed.
  Lemma view_known x sf c : view_of u x sf = Some c -> known u x = true.
  Proof.
    intros H. unfold known. destruct (view_of u x false) eqn:E; [reflexivity|].
    rewrite (view_none_sf _ _ sf E) in H. discriminate.
  Qed.

  Lemma view_facts k c : In (k, c) (u_map u ++ u_store u) ->
    h_hash c = k /\ h_number c = num k /\ h_parent c = par k /\ h_number c < 2 ^ 63 /\
    (0 < h_number c -> exists p, view_of u (h_parent c) false = Some p /\ h_number p = h_number c - 1) /\
    (forall s, h_skip c = Some s -> s = anc u k (skip_spec (h_number c)) /\ known u s = true).
  Proof.
    intros HIn. pose proof wf_views as W. rewrite forallb_forall in W. specialize (W _ HIn).
    unfold view_ok in W. cbn [fst snd] in W.
    apply andb_true_iff in W. destruct W as [W W6].
    apply andb_true_iff in W. destruct W as [W W5].
    apply andb_true_iff in W. destruct W as [W W4].
    apply andb_true_iff in W. destruct W as [W W3].
    apply andb_true_iff in W. destruct W as [W1 W2].
    apply N.eqb_eq in W1, W2, W3. apply N.ltb_lt in W4.
    repeat split; auto.
    - intros Hpos. destruct (N.ltb_spec 0 (h_number c)); [|lia].
      destruct (view_of u (h_parent c) false) as [p|]; [|discriminate].
      exists p. split; [reflexivity|]. now apply N.eqb_eq.
    - destruct (h_skip c) as [s'|]; [|discriminate]. injection H as <-.
      apply andb_true_iff in W6. destruct W6 as [W6 _]. now apply N.eqb_eq in W6.
    - destruct (h_skip c) as [s'|]; [|discriminate]. injection H as <-.
      apply andb_true_iff in W6. apply W6.
  Qed.

  Lemma Hnum_u : forall x, 0 < num x -> num (par x) = num x - 1.
  Proof.
    intros x Hx. unfold unum in Hx. unfold upar. unfold unum at 2.
    destruct (view_of u x false) as [c|] eqn:E; [|lia].
    destruct (view_facts _ _ (view_of_In _ _ _ E)) as (_ & _ & _ & _ & Hp & _).
    destruct (Hp Hx) as (p & Ep & Hpn). unfold unum. rewrite Ep. exact Hpn.
  Qed.

  Lemma Hgetv_u : forall x sf c, view_of u x sf = Some c -> h_hash c = x /\ faithful par num c.
  Proof.
    intros x sf c H.
    destruct (view_facts _ _ (view_of_In _ _ _ H)) as (H1 & H2 & H3 & _ & _ & H6).
    split; [exact H1|]. unfold faithful. rewrite H1. repeat split; auto.
    intros s Hs. destruct (H6 s Hs) as [E _]. rewrite E. unfold anc. rewrite walkn_walkh, H2. reflexivity.
  Qed.

  Lemma Hclosed_u : forall x sf c, view_of u x sf = Some c -> closedv (view_of u) c.
  Proof.
    intros x sf c H.
    destruct (view_facts _ _ (view_of_In _ _ _ H)) as (_ & _ & _ & _ & H5 & H6).
    split.
    - intros Hpos sf' E. destruct (H5 Hpos) as (p & Ep & _).
      rewrite (view_none_sf _ _ false E) in Ep. discriminate.
    - intros s sf' Hs. destruct (H6 s Hs) as [_ K]. now apply known_view.
  Qed.

  Lemma num_bound x : num x < 2 ^ 63.
  Proof.
    unfold unum. destruct (view_of u x false) as [c|] eqn:E; [|reflexivity].
    now destruct (view_facts _ _ (view_of_In _ _ _ E)) as (_ & _ & _ & H4 & _).
  Qed.

  (* ancestors *)
  Lemma anc_self x : anc u x (num x) = x.
  Proof. unfold anc. rewrite N.sub_diag. reflexivity. Qed.

  Lemma known_par x : known u x = true -> 0 < num x -> known u (par x) = true.
  Proof.
    intros K Hpos. unfold known in K. unfold unum in Hpos. unfold upar.
    destruct (view_of u x false) as [c|] eqn:E; [|discriminate].
    destruct (view_facts _ _ (view_of_In _ _ _ E)) as (_ & _ & _ & _ & H5 & _).
    destruct (H5 Hpos) as (p & Ep & _). eapply view_known; eauto.
  Qed.

  Lemma known_walk d : forall x, known u x = true -> N.of_nat d <= num x -> known u (walkh par d x) = true.
  Proof.
    induction d as [|d IH]; intros x K H; cbn [walkh]; [exact K|].
    apply IH; [apply known_par; auto; lia|]. rewrite Hnum_u; lia.
  Qed.

  Lemma anc_walkh x n : anc u x n = walkh par (N.to_nat (num x - n)) x.
  Proof. unfold anc. apply walkn_walkh. Qed.

  Lemma known_anc x n : known u x = true -> known u (anc u x n) = true.
  Proof. intros K. rewrite anc_walkh. apply known_walk; auto. lia. Qed.

  Lemma num_anc x n : n <= num x -> num (anc u x n) = n.
  Proof. intros H. rewrite anc_walkh, (num_walkh par num Hnum_u); lia. Qed.

  Lemma anc_anc x m k : k <= m -> m <= num x -> anc u (anc u x m) k = anc u x k.
  Proof.
    intros H1 H2. rewrite (anc_walkh (anc u x m)), num_anc by lia.
    rewrite (anc_walkh x m), walkh_add, anc_walkh. f_equal. lia.
  Qed.

  (* the main-chain index *)
  Lemma main_facts n h : alookup N.eqb n (u_main u) = Some h ->
    known u h = true /\ num h = n /\ (n <> 0 -> alookup N.eqb (n - 1) (u_main u) = Some (par h)).
  Proof.
    intros H. pose proof wf_main as W. rewrite forallb_forall in W.
    specialize (W _ (alookup_In N.eqb N.eqb_spec _ _ _ H)). unfold main_ok in W. cbn [fst snd] in W.
    apply andb_true_iff in W. destruct W as [W W4].
    apply andb_true_iff in W. destruct W as [W W3].
    apply andb_true_iff in W. destruct W as [_ W2].
    apply N.eqb_eq in W3. repeat split; auto.
    intros Hn. destruct (N.eqb_spec n 0); [contradiction|]. now apply option_eqb_Some.
  Qed.

  Lemma main_walk d : forall n h, alookup N.eqb n (u_main u) = Some h -> N.of_nat d <= n ->
    alookup N.eqb (n - N.of_nat d) (u_main u) = Some (walkh par d h).
  Proof.
    induction d as [|d IH]; intros n h H Hd; cbn [walkh].
    - replace (n - N.of_nat 0) with n by lia. exact H.
    - destruct (main_facts _ _ H) as (_ & _ & Hp). specialize (Hp ltac:(lia)).
      replace (n - N.of_nat (S d)) with (n - 1 - N.of_nat d) by lia.
      apply IH; [exact Hp|lia].
  Qed.

  Lemma is_main_spec x : is_main_chain u x = true -> alookup N.eqb (num x) (u_main u) = Some x.
  Proof.
    unfold is_main_chain. intros H. apply existsb_exists in H. destruct H as ([n h] & HIn & E).
    cbn [snd] in E. apply N.eqb_eq in E. subst h.
    pose proof wf_main as W. rewrite forallb_forall in W. specialize (W _ HIn).
    unfold main_ok in W. cbn [fst snd] in W.
    apply andb_true_iff in W. destruct W as [W _].
    apply andb_true_iff in W. destruct W as [W W3].
    apply andb_true_iff in W. destruct W as [W1 _].
    apply N.eqb_eq in W3. rewrite W3. now apply option_eqb_Some.
  Qed.

  (* an indexed block is the ancestor of every indexed block above it *)
  Lemma main_anc x n h : alookup N.eqb (num x) (u_main u) = Some x -> alookup N.eqb n (u_main u) = Some h ->
    n <= num x -> h = anc u x n.
  Proof.
    intros Hx Hh Hle.
    pose proof (main_walk (N.to_nat (num x - n)) _ _ Hx ltac:(lia)) as W.
    rewrite N2Nat.id in W. replace (num x - (num x - n)) with n in W by lia.
    rewrite anc_walkh. congruence.
  Qed.

  (* ---- get_ancestor_internal, whatever the guard, when its shortcut is right at the queried number ---- *)
  Definition fast_right (g : guard) (wu : bool) (number : N) : Prop :=
    forall x, N.leb (num x) (ac_tip u wu) && on_chain g u wu x = true -> number <= num x ->
              forall h, alookup N.eqb number (u_main u) = Some h -> h = anc u x number.

  Lemma ac_generic g wu base number : fast_right g wu number -> known u base = true ->
    res_nh (ac_get_ancestor g u wu base number)
    = if number <=? num base then Some (number, anc u base number) else None.
  Proof.
    intros Hfr K. unfold ac_get_ancestor. unfold known in K.
    destruct (view_of u base false) as [b|] eqn:Eb; [|discriminate].
    destruct (Hgetv_u _ _ _ Eb) as [Hh Hf]. pose proof (Hclosed_u _ _ _ Eb) as Hc.
    assert (Hfast : forall x t, ac_fast g u wu number (num x, x) = Some t -> number <= num x ->
              h_hash t = walkh par (N.to_nat (num x - number)) x /\ h_number t = num (h_hash t)).
    { intros x t Ef Hle. unfold ac_fast in Ef. cbn [fst snd] in Ef.
      destruct (N.leb (num x) (ac_tip u wu) && on_chain g u wu x) eqn:Eg; [|discriminate].
      destruct (alookup N.eqb number (u_main u)) as [h|] eqn:Eh; [|discriminate].
      destruct (Hgetv_u _ _ _ Ef) as [Et Hft]. split; [|apply Hft].
      rewrite Et, (Hfr x Eg Hle h Eh). apply anc_walkh. }
    pose proof (get_ancestor_total par num (view_of u) (ac_fast g u wu) (ac_tip u wu) number
                  Hnum_u Hgetv_u Hclosed_u Hfast b Hf Hc (num_bound _)) as G.
    rewrite Hh in G. destruct (number <=? num base) eqn:El.
    - destruct (get_ancestor _ _ _ b number) as [t| | |]; cbn in G; try contradiction.
      destruct G as [E1 E2]. cbn. rewrite E2, E1, <- anc_walkh. rewrite num_anc by (apply N.leb_le; exact El).
      reflexivity.
    - rewrite G. reflexivity.
  Qed.

  Lemma res_nh_hash r : res_hash r = option_map snd (res_nh r).
  Proof. destruct r; reflexivity. Qed.

  (* the code's guard without unverified blocks: is_main_chain *)
  Lemma fast_right_main number : fast_right GCode false number.
  Proof.
    intros x Eg Hle h Eh. apply andb_true_iff in Eg. destruct Eg as [_ Eg]. cbn in Eg.
    eapply main_anc; eauto. now apply is_main_spec.
  Qed.

  Theorem ac_get_ancestor_nh : forall base number, known u base = true ->
    ac_ga_nh GCode u base number = if number <=? num base then Some (number, anc u base number) else None.
  Proof. intros. unfold ac_ga_nh. apply ac_generic; auto. apply fast_right_main. Qed.

  (* get_ancestor(base, n) = the block reached from base by walking parent links down to height n,
     for every base the node knows: main chain, stored side branch, header-only, on a branch of a branch *)
  Theorem ac_get_ancestor_eq_walk : forall base number, known u base = true ->
    ac_ga GCode u false base number = if number <=? num base then Some (anc u base number) else None.
  Proof.
    intros base number K. unfold ac_ga. rewrite res_nh_hash, (ac_generic _ _ _ _ (fast_right_main number) K).
    destruct (number <=? num base); reflexivity.
  Qed.

  (* with_unverified: the only caller (BlockFetcher::fetch in IBD) asks above the unverified tip,
     where the is_unverified_chain shortcut cannot fire *)
  Theorem ac_get_ancestor_unverified_above : forall base number, known u base = true -> u_utip u < number ->
    ac_ga GCode u true base number = if number <=? num base then Some (anc u base number) else None.
  Proof.
    intros base number K Hu. unfold ac_ga.
    assert (Hfr : fast_right GCode true number).
    { intros x Eg Hle. apply andb_true_iff in Eg. destruct Eg as [Eg _]. apply N.leb_le in Eg. cbn in Eg. lia. }
    rewrite res_nh_hash, (ac_generic _ _ _ _ Hfr K). destruct (number <=? num base); reflexivity.
  Qed.

  (* with_unverified at any height: right when no stored side branch lies at or below the unverified tip *)
  Theorem ac_get_ancestor_unverified_inv : stored_descend u = true ->
    forall base number, known u base = true ->
    ac_ga GCode u true base number = if number <=? num base then Some (anc u base number) else None.
  Proof.
    intros Hsd base number K. unfold ac_ga.
    assert (Hfr : fast_right GCode true number).
    { intros x Eg Hle h Eh. apply andb_true_iff in Eg. destruct Eg as [Eg1 Eg2]. cbn in Eg2.
      unfold is_unverified_chain in Eg2. apply (smem_In N.eqb N.eqb_spec) in Eg2.
      unfold stored_descend in Hsd. rewrite forallb_forall in Hsd. specialize (Hsd _ Eg2).
      cbn in Eg1. rewrite Eg1 in Hsd. rewrite forallb_forall in Hsd.
      specialize (Hsd _ (alookup_In N.eqb N.eqb_spec _ _ _ Eh)). cbn [fst snd] in Hsd.
      destruct (N.leb_spec number (num x)); [|lia]. now apply N.eqb_eq in Hsd. }
    rewrite res_nh_hash, (ac_generic _ _ _ _ Hfr K). destruct (number <=? num base); reflexivity.
  Qed.

  (* ---- locator ---- *)
  Theorem ac_locator_eq_walk : forall genesis s, known u s = true ->
    get_locator (ac_ga GCode u false) genesis (num s) s
    = get_locator (fun _ k => Some (anc u s k)) genesis (num s) s.
  Proof.
    intros genesis s K.
    assert (Hga : forall m k, k <= m -> m <= num s -> ac_ga GCode u false (anc u s m) k = Some (anc u s k)).
    { intros m k H1 H2. rewrite ac_get_ancestor_eq_walk by (now apply known_anc).
      rewrite num_anc by lia. destruct (N.leb_spec k m); [|lia]. rewrite anc_anc by lia. reflexivity. }
    pose proof (locator_eq_walk (anc u s) (ac_ga GCode u false) genesis (num s) Hga) as L.
    rewrite anc_self in L. exact L.
  Qed.

  (* ---- last_common_ancestor ---- *)
  Lemma key_eqb_same h l r : key_eqb (h, l) (h, r) = N.eqb l r.
  Proof. unfold key_eqb. cbn. rewrite N.eqb_refl. reflexivity. Qed.

  Lemma lca_loop_spec fuel : forall h l r,
    known u l = true -> known u r = true -> num l = h -> num r = h -> anc u l 0 = anc u r 0 ->
    (N.to_nat h < fuel)%nat ->
    exists nc, nc <= h /\
      lca_loop (ac_ga_nh GCode u) fuel (h, l) (h, r) = LSome (nc, anc u l nc) /\
      anc u l nc = anc u r nc /\
      forall k, nc < k -> k <= h -> anc u l k <> anc u r k.
  Proof.
    induction fuel as [|f IH]; intros h l r Kl Kr Hl Hr H0 Hfu; [lia|].
    cbn [lca_loop]. rewrite key_eqb_same. destruct (N.eqb_spec l r) as [E|E].
    - subst r. exists h. split; [lia|]. clear Hr. subst h. rewrite anc_self.
      repeat split; auto. intros k Hk1 Hk2. lia.
    - assert (Hh : h <> 0).
      { intros Z. apply E. rewrite <- (anc_self l), <- (anc_self r). rewrite Hl, Hr, Z. exact H0. }
      cbn [fst snd]. destruct (N.eqb_spec h 0); [contradiction|].
      rewrite !ac_get_ancestor_nh by auto. rewrite Hl, Hr.
      destruct (N.leb_spec (h - 1) h); [|lia].
      destruct (IH (h - 1) (anc u l (h - 1)) (anc u r (h - 1))) as (nc & Hnc & Hloop & Heq & Hmax).
      + now apply known_anc.
      + now apply known_anc.
      + apply num_anc. lia.
      + apply num_anc. lia.
      + rewrite !anc_anc by lia. exact H0.
      + lia.
      + exists nc. split; [lia|].
        rewrite anc_anc in Hloop by lia. rewrite !anc_anc in Heq by lia.
        repeat split; auto.
        intros k Hk1 Hk2. destruct (N.eq_dec k h) as [->|Hne].
        * replace (anc u l h) with l by (rewrite <- Hl; symmetry; apply anc_self).
          replace (anc u r h) with r by (rewrite <- Hr; symmetry; apply anc_self). exact E.
        * specialize (Hmax k Hk1 ltac:(lia)). rewrite !anc_anc in Hmax by lia. exact Hmax.
  Qed.

  (* for two known blocks with a common root: the answer is an ancestor of both, at the greatest
     height where their ancestors coincide *)
  Theorem ac_lca_spec : forall a b, known u a = true -> known u b = true -> anc u a 0 = anc u b 0 ->
    exists nc, nc <= N.min (num a) (num b) /\
      last_common_ancestor (ac_ga_nh GCode u) (num a, a) (num b, b) = LSome (nc, anc u a nc) /\
      anc u a nc = anc u b nc /\
      forall k, nc < k -> k <= N.min (num a) (num b) -> anc u a k <> anc u b k.
  Proof.
    intros a b Ka Kb H0. unfold last_common_ancestor. cbn [fst snd].
    destruct (N.ltb_spec (num b) (num a)) as [Hlt|Hge]; cbn [fst snd].
    - rewrite ac_get_ancestor_nh by auto. destruct (N.leb_spec (num b) (num a)); [|lia].
      destruct (lca_loop_spec (S (N.to_nat (num b))) (num b) b (anc u a (num b))) as (nc & Hnc & Hloop & Heq & Hmax);
        auto using known_anc.
      + apply num_anc. lia.
      + rewrite anc_anc by lia. auto.
      + exists nc. rewrite anc_anc in Heq by lia. split; [lia|]. rewrite Hloop, Heq.
        repeat split; auto.
        intros k Hk1 Hk2 Ek. apply (Hmax k Hk1 ltac:(lia)). rewrite anc_anc by lia. auto.
    - rewrite ac_get_ancestor_nh by auto. destruct (N.leb_spec (num a) (num b)); [|lia].
      destruct (lca_loop_spec (S (N.to_nat (num a))) (num a) a (anc u b (num a))) as (nc & Hnc & Hloop & Heq & Hmax);
        auto using known_anc.
      + apply num_anc. lia.
      + rewrite anc_anc by lia. auto.
      + exists nc. rewrite anc_anc in Heq by lia. split; [lia|]. rewrite Hloop.
        repeat split; auto.
        intros k Hk1 Hk2 Ek. apply (Hmax k Hk1 ltac:(lia)). rewrite anc_anc by lia. auto.
  Qed.
End Uni.

(* ---- witnesses -------------------------------------------------------------------- *)
(* main chain 1-2-3-4-5 (heights 0..4, all stored and indexed), a stored side branch 6-7 on block 3
   (heights 3, 4), a header 8 on top of 7 that only the header map holds (skip pointer: height 1) *)
Definition ex_u : universe :=
  mkUni [(8, mkHdr 8 5 7 (Some 2))]
        [(1, mkHdr 1 0 0 None); (2, mkHdr 2 1 1 None); (3, mkHdr 3 2 2 None); (4, mkHdr 4 3 3 None);
         (5, mkHdr 5 4 4 None); (6, mkHdr 6 3 3 None); (7, mkHdr 7 4 6 None)]
        [(0, 1); (1, 2); (2, 3); (3, 4); (4, 5)] 4 4 [1; 2; 3; 4; 5; 6; 7].

(* the same store during initial block download: no side branch is stored, headers 6-7-8 are header-map only *)
Definition ex_ibd : universe :=
  mkUni [(6, mkHdr 6 3 3 (Some 2)); (7, mkHdr 7 4 6 (Some 1)); (8, mkHdr 8 5 7 (Some 2))]
        [(1, mkHdr 1 0 0 None); (2, mkHdr 2 1 1 None); (3, mkHdr 3 2 2 None); (4, mkHdr 4 3 3 None);
         (5, mkHdr 5 4 4 None)]
        [(0, 1); (1, 2); (2, 3); (3, 4); (4, 5)] 4 4 [1; 2; 3; 4; 5].

Example ac_example :
  wf_b ex_u = true /\ stored_descend ex_u = false /\
  wf_b ex_ibd = true /\ stored_descend ex_ibd = true /\
  map (ac_ga GCode ex_u false 8) [5; 4; 3; 2; 1; 0; 6] = [Some 8; Some 7; Some 6; Some 3; Some 2; Some 1; None] /\
  map (ac_ga GCode ex_u true 8) [5; 0] = [Some 8; Some 1] /\
  get_locator (ac_ga GCode ex_u false) 1 5 8 = Some [8; 7; 6; 3; 2; 1] /\
  last_common_ancestor (ac_ga_nh GCode ex_u) (4, 5) (5, 8) = LSome (2, 3).
Proof. vm_compute. repeat split; reflexivity. Qed.

(* the shortcut on any stored block: from the stored side tip 7 the ancestor at height 3 is
   answered as the main-chain block 4 instead of the side block 6 *)
Theorem ac_any_stored_refuted :
  exists u base number,
    wf_b u = true /\ known u base = true /\ number <= unum u base /\
    ac_ga GCode u false base number = Some (anc u base number) /\
    ac_ga GAnyStored u false base number <> Some (anc u base number).
Proof. exists ex_u, 7, 3. vm_compute. repeat split; congruence. Qed.

(* the code's with_unverified variant at or below the unverified tip, with a stored side branch *)
Theorem ac_unverified_below_tip_refuted :
  exists u base number,
    wf_b u = true /\ known u base = true /\ number <= u_utip u /\ number <= unum u base /\
    ac_ga GCode u true base number <> Some (anc u base number).
Proof. exists ex_u, 7, 3. vm_compute. repeat split; congruence. Qed.
