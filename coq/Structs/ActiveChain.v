(* Structs/ActiveChain.v — executable model of ActiveChain::get_ancestor /
   get_ancestor_with_unverified / get_locator / last_common_ancestor
   (sync/src/types/mod.rs) on top of a node that holds a chain store with a
   main-chain index AND stored side branches, plus a header map:
   SyncShared::get_header_index_view (store first / header map first), the
   snapshot's number => hash index, is_main_chain, is_unverified_chain (the
   block has a block-epoch index: every block verify_block committed, side
   branches included) and the shortcut of get_ancestor_internal
       current.number <= tip_number && block_is_on_chain_fn(current.hash)
         => snapshot.get_block_hash(number) and its store-first view.
   The walk itself is Skip.get_ancestor.  No proofs here. *)
From CKB Require Export Structs.AList Structs.Skip.
Local Open Scope N_scope.

Record universe := mkUni {
  u_map : list (N * hdr);     (* header map: hash => view (with skip pointer) *)
  u_store : list (N * hdr);   (* chain store, blocks that have header and block_ext: hash => view (no skip pointer) *)
  u_main : list (N * N);      (* the snapshot's main-chain index: number => hash, numbers 0..tip *)
  u_tip : N;                  (* snapshot.tip_number() *)
  u_utip : N;                 (* shared.get_unverified_tip().number() *)
  u_epoch : list N            (* hashes that have a block-epoch index (is_unverified_chain) *)
}.

Definition or_else {A} (a b : option A) : option A := match a with Some _ => a | None => b end.

(* SyncShared::get_header_index_view(hash, store_first) *)
Definition view_of (u : universe) (x : N) (store_first : bool) : option hdr :=
  if store_first then or_else (alookup N.eqb x (u_store u)) (alookup N.eqb x (u_map u))
  else or_else (alookup N.eqb x (u_map u)) (alookup N.eqb x (u_store u)).

(* Snapshot::is_main_chain: the hash has an entry in the index *)
Definition is_main_chain (u : universe) (x : N) : bool := existsb (fun e => N.eqb (snd e) x) (u_main u).
Definition is_unverified_chain (u : universe) (x : N) : bool := smem N.eqb x (u_epoch u).

(* block_is_on_chain_fn: as the code has it, and the variant "any stored block" *)
Inductive guard := GCode | GAnyStored.
Definition on_chain (g : guard) (u : universe) (with_unverified : bool) (x : N) : bool :=
  match g with
  | GCode => if with_unverified then is_unverified_chain u x else is_main_chain u x
  | GAnyStored => is_main_chain u x || is_unverified_chain u x
  end.

Definition ac_tip (u : universe) (with_unverified : bool) : N := if with_unverified then u_utip u else u_tip u.

(* fast_scanner_fn *)
Definition ac_fast (g : guard) (u : universe) (with_unverified : bool) (number : N) (cur : N * N) : option hdr :=
  if N.leb (fst cur) (ac_tip u with_unverified) && on_chain g u with_unverified (snd cur)
  then match alookup N.eqb number (u_main u) with
       | Some h => view_of u h true
       | None => None
       end
  else None.

(* get_ancestor_internal *)
Definition ac_get_ancestor (g : guard) (u : universe) (with_unverified : bool) (base number : N) : res :=
  match view_of u base false with
  | None => RNone
  | Some b => get_ancestor (view_of u) (ac_fast g u with_unverified) (ac_tip u with_unverified) b number
  end.

Definition ac_ga (g : guard) (u : universe) (wu : bool) (base number : N) : option N :=
  res_hash (ac_get_ancestor g u wu base number).

(* ---- last_common_ancestor ------------------------------------------------------ *)
Inductive lres := LSome (nh : N * N) | LNone | LPanic | LFuel.

Section LCA.
  (* get_ancestor(hash, number).number_and_hash() *)
  Variable ga : N -> N -> option (N * N).

  (* while m_left != m_right { both step to number - 1 } ; u64 underflow of number - 1 panics *)
  Fixpoint lca_loop (fuel : nat) (l r : N * N) : lres :=
    if key_eqb l r then LSome l
    else match fuel with
         | O => LFuel
         | S f =>
           if N.eqb (fst l) 0 then LPanic
           else match ga (snd l) (fst l - 1) with
                | None => LNone
                | Some l' =>
                  if N.eqb (fst r) 0 then LPanic
                  else match ga (snd r) (fst r - 1) with
                       | None => LNone
                       | Some r' => lca_loop f l' r'
                       end
                end
         end.

  Definition last_common_ancestor (pa pb : N * N) : lres :=
    let lr := if N.ltb (fst pb) (fst pa) then (pb, pa) else (pa, pb) in
    match ga (snd (snd lr)) (fst (fst lr)) with
    | None => LNone
    | Some r' => lca_loop (S (N.to_nat (fst (fst lr)))) (fst lr) r'
    end.
End LCA.

Definition res_nh (r : res) : option (N * N) :=
  match r with RSome h => Some (h_number h, h_hash h) | _ => None end.
Definition ac_ga_nh (g : guard) (u : universe) (base number : N) : option (N * N) :=
  res_nh (ac_get_ancestor g u false base number).
Definition lres_hash (r : lres) : option N := match r with LSome nh => Some (snd nh) | _ => None end.

(* ---- what a well-formed universe is (decidable; re-evaluated on every observed universe) ---- *)
Definition unum (u : universe) (x : N) : N := match view_of u x false with Some c => h_number c | None => 0 end.
Definition upar (u : universe) (x : N) : N := match view_of u x false with Some c => h_parent c | None => 0 end.
Fixpoint walkn (par : N -> N) (k : nat) (x : N) : N :=
  match k with O => x | S k' => walkn par k' (par x) end.
(* the ancestor of x at height n (n <= number x) along parent links *)
Definition anc (u : universe) (x n : N) : N := walkn (upar u) (N.to_nat (unum u x - n)) x.
Definition known (u : universe) (x : N) : bool := match view_of u x false with Some _ => true | None => false end.

(* a view, wherever it is kept, tells hash, number and parent of its block (the same in both places),
   heights stay below 2^63, the parent of a non-genesis block is known and one lower, a skip pointer
   is the known ancestor at the skip height *)
Definition view_ok (u : universe) (e : N * hdr) : bool :=
  let c := snd e in
  N.eqb (h_hash c) (fst e) && N.eqb (h_number c) (unum u (fst e)) && N.eqb (h_parent c) (upar u (fst e))
  && N.ltb (h_number c) (2 ^ 63)
  && (if N.ltb 0 (h_number c)
      then match view_of u (h_parent c) false with
           | Some p => N.eqb (h_number p) (h_number c - 1)
           | None => false
           end
      else true)
  && match h_skip c with
     | Some s => N.eqb s (anc u (fst e) (skip_spec (h_number c))) && known u s
     | None => true
     end.

(* the index: a number is bound once, to a known block of that number whose parent is bound one lower *)
Definition main_ok (u : universe) (e : N * N) : bool :=
  option_eqb N.eqb (alookup N.eqb (fst e) (u_main u)) (Some (snd e))
  && known u (snd e) && N.eqb (unum u (snd e)) (fst e)
  && (if N.eqb (fst e) 0 then true
      else option_eqb N.eqb (alookup N.eqb (fst e - 1) (u_main u)) (Some (upar u (snd e)))).

Definition wf_b (u : universe) : bool :=
  forallb (view_ok u) (u_map u ++ u_store u) && forallb (main_ok u) (u_main u).

(* the invariant under which the shortcut of the with_unverified variant is right at every height:
   every block with an epoch index at or below the unverified tip has the indexed block of each
   lower height as its ancestor (no stored side branch at or below the unverified tip) *)
Definition stored_descend (u : universe) : bool :=
  forallb (fun x =>
             if N.leb (unum u x) (u_utip u)
             then forallb (fun e => if N.leb (fst e) (unum u x) then N.eqb (snd e) (anc u x (fst e)) else true) (u_main u)
             else true)
          (u_epoch u).

(* ---- cases written by the stored-forks stream of the harness ------------------------- *)
Record fork_case := mkFork {
  fk_u : universe;
  fk_genesis : N;
  fk_anc : list (N * N * bool * option N);   (* base, number, with_unverified, answered hash *)
  fk_loc : list (N * list N);                (* start, locator *)
  fk_lca : list (N * N * option N)           (* a, b, answered hash *)
}.
Definition check_fork (c : fork_case) : bool :=
  let u := fk_u c in
  wf_b u
  && forallb (fun q => match q with
                       | (base, n, wu, ans) => option_eqb N.eqb (ac_ga GCode u wu base n) ans
                       end) (fk_anc c)
  && forallb (fun q => option_eqb (list_eqb N.eqb)
                         (get_locator (ac_ga GCode u false) (fk_genesis c) (unum u (fst q)) (fst q))
                         (Some (snd q))) (fk_loc c)
  && forallb (fun q => match q with
                       | (a, b, ans) =>
                         option_eqb N.eqb
                           (lres_hash (last_common_ancestor (ac_ga_nh GCode u) (unum u a, a) (unum u b, b)))
                           ans
                       end) (fk_lca c).
