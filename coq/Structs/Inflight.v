(* Structs/Inflight.v — executable model of InflightBlocks (sync/src/types/mod.rs):
   download_schedulers, inflight_states (BTreeMap ordered by number, hash),
   trace_number, restart_number, the TimeAnalyzer; the clock is the explicit
   input [now] of every operation that reads unix_time_as_millis().
   [prune] is the current (repaired, F5) function, [prune_old] the one before
   the repair.  No proofs here (Structs/InflightProofs.v). *)
From CKB Require Export Structs.AList.

Definition INIT_BLOCKS_IN_TRANSIT_PER_PEER : N := 32.
Definition MAX_BLOCKS_IN_TRANSIT_PER_PEER : N := 128.
Definition BLOCK_DOWNLOAD_TIMEOUT : N := 30000.
Definition TIME_TRACE_SIZE : nat := 512.
Definition FAST_INDEX : nat := 170.     (* TIME_TRACE_SIZE / 3 *)
Definition NORMAL_INDEX : nat := 409.   (* TIME_TRACE_SIZE * 4 / 5 *)
Definition LOW_INDEX : nat := 460.      (* TIME_TRACE_SIZE * 9 / 10 *)

Record sched := mkSched { task_count : N; timeout_count : N; hashes : list key }.
Definition sched_default : sched := mkSched INIT_BLOCKS_IN_TRANSIT_PER_PEER 0 [].
Definition set_hashes (d : sched) (h : list key) : sched := mkSched (task_count d) (timeout_count d) h.

Definition increase (num : N) (d : sched) : sched :=
  if N.ltb (task_count d) MAX_BLOCKS_IN_TRANSIT_PER_PEER
  then mkSched (N.min (task_count d + num) MAX_BLOCKS_IN_TRANSIT_PER_PEER) (timeout_count d) (hashes d)
  else d.
(* as written: timeout_count = task_count.saturating_add(num) *)
Definition decrease (num : N) (d : sched) : sched :=
  let tc := (task_count d + num)%N in
  if N.ltb 2 tc then mkSched (task_count d - 1) 0 (hashes d)
  else mkSched (task_count d) tc (hashes d).
Definition punish (exp : N) (d : sched) : sched :=
  mkSched (N.shiftr (task_count d) exp) (timeout_count d) (hashes d).

(* TimeAnalyzer: [ta_trace] holds the [index] samples pushed since the last reset *)
Record analyzer := mkTA { ta_trace : list N; fast_time : N; normal_time : N; low_time : N }.
Definition ta_default : analyzer := mkTA [] 1000 1250 1500.
Inductive quantile := MinToFast | FastToNormal | NormalToUpper | UpperToMax.

Fixpoint ins_sorted (x : N) (l : list N) : list N :=
  match l with
  | [] => [x]
  | y :: l' => if N.leb x y then x :: l else y :: ins_sorted x l'
  end.
Definition sort_n (l : list N) : list N := fold_right ins_sorted [] l.

Definition push_time (a : analyzer) (time : N) : analyzer * quantile :=
  let a' :=
    if Nat.ltb (length (ta_trace a)) TIME_TRACE_SIZE
    then mkTA (ta_trace a ++ [time]) (fast_time a) (normal_time a) (low_time a)
    else let s := sort_n (ta_trace a) in
         mkTA [time]
              (N.shiftr (fast_time a + nth FAST_INDEX s 0%N) 1)
              (N.shiftr (normal_time a + nth NORMAL_INDEX s 0%N) 1)
              (N.shiftr (low_time a + nth LOW_INDEX s 0%N) 1) in
  (a', if N.leb time (fast_time a') then MinToFast
       else if N.leb time (normal_time a') then FastToNormal
       else if N.ltb (low_time a') time then UpperToMax
       else NormalToUpper).

Record ifb := mkIfb {
  scheds : list (N * sched);           (* download_schedulers: peer => scheduler *)
  states : list (key * (N * N));       (* inflight_states: block => (peer, timestamp), sorted by key *)
  trace_number : list (key * N);
  restart_number : N;
  ta : analyzer;
  adjustment : bool;
  protect_num : N
}.
Definition ifb_default : ifb := mkIfb [] [] [] 0 ta_default true 4.

Definition set_core (st : ifb) sc sts tr : ifb :=
  mkIfb sc sts tr (restart_number st) (ta st) (adjustment st) (protect_num st).

(* BTreeMap insert of a vacant key *)
Fixpoint kinsert {V} (k : key) (v : V) (l : list (key * V)) : list (key * V) :=
  match l with
  | [] => [(k, v)]
  | (k', v') :: l' => if key_ltb k k' then (k, v) :: l else (k', v') :: kinsert k v l'
  end.

Definition should_punish (st : ifb) : bool := N.ltb (protect_num st) (N.of_nat (length (scheds st))).

(* InflightBlocks::insert *)
Definition insert (now peer : N) (b : key) (st : ifb) : ifb * bool :=
  match alookup key_eqb b (states st) with
  | Some _ => (st, false)
  | None =>
    let sts := kinsert b (peer, now) (states st) in
    let tr := if N.leb (fst b) (restart_number st) then ainsert key_eqb b now (trace_number st)
              else trace_number st in
    let d := match alookup N.eqb peer (scheds st) with Some d => d | None => sched_default end in
    (set_core st (ainsert N.eqb peer (set_hashes d (sinsert key_eqb b (hashes d))) (scheds st)) sts tr,
     negb (smem key_eqb b (hashes d)))
  end.

(* InflightBlocks::remove_by_peer *)
Definition remove_by_peer (peer : N) (st : ifb) : ifb * nat :=
  match alookup N.eqb peer (scheds st) with
  | None => (st, O)
  | Some d =>
    (set_core st (adelete N.eqb peer (scheds st))
              (adelete_all key_eqb (hashes d) (states st))
              (adelete_all key_eqb (hashes d) (trace_number st)),
     length (hashes d))
  end.

(* the common shape of "this request is over": the state goes, the owner's
   scheduler (if it still exists) forgets the block and is adjusted by [g];
   the trace mark goes too ([trace_needs_sched]: only when the scheduler exists,
   as in remove_by_block) *)
Definition release_one (g : sched -> sched) (trace_needs_sched : bool) (st : ifb) (k : key) : ifb :=
  match alookup key_eqb k (states st) with
  | None => st
  | Some (peer, _) =>
    match alookup N.eqb peer (scheds st) with
    | Some d =>
      set_core st (ainsert N.eqb peer (g (set_hashes d (sremove key_eqb k (hashes d)))) (scheds st))
               (adelete key_eqb k (states st)) (adelete key_eqb k (trace_number st))
    | None =>
      set_core st (scheds st) (adelete key_eqb k (states st))
               (if trace_needs_sched then trace_number st else adelete key_eqb k (trace_number st))
    end
  end.

(* InflightBlocks::remove_by_block *)
Definition remove_by_block (now : N) (b : key) (st : ifb) : ifb * bool :=
  match alookup key_eqb b (states st) with
  | None => (st, false)
  | Some (peer, ts) =>
    let elapsed := (now - ts)%N in
    let sp := should_punish st in
    let has_sched := amem N.eqb peer (scheds st) in
    if has_sched && adjustment st then
      let '(ta', q) := push_time (ta st) elapsed in
      let g := match q with
               | MinToFast => increase 2
               | FastToNormal => increase 1
               | NormalToUpper => if sp then decrease 1 else (fun d => d)
               | UpperToMax => if sp then decrease 2 else (fun d => d)
               end in
      let st' := release_one g true st b in
      (mkIfb (scheds st') (states st') (trace_number st') (restart_number st') ta' (adjustment st') (protect_num st'), true)
    else (release_one (fun d => d) true st b, true)
  end.

(* InflightBlocks::mark_slow_block: the BTreeMap walk stops at the first key above tip + 1 *)
Fixpoint slow_keys (lim : N) (l : list (key * (N * N))) : list key :=
  match l with
  | [] => []
  | (k, _) :: l' => if N.ltb lim (fst k) then [] else k :: slow_keys lim l'
  end.
Definition mark_slow_block (now tip : N) (st : ifb) : ifb :=
  set_core st (scheds st) (states st)
           (fold_left (fun tr k => if amem key_eqb k tr then tr else ainsert key_eqb k now tr)
                      (slow_keys (tip + 1) (states st)) (trace_number st)).

(* the requests the first loop of prune finds timed out (walk stops above tip + 20) *)
Fixpoint timed_out (now lim : N) (l : list (key * (N * N))) : list key :=
  match l with
  | [] => []
  | (k, (_, ts)) :: l' =>
    if N.ltb lim (fst k) then []
    else (if N.ltb (ts + BLOCK_DOWNLOAD_TIMEOUT) now then [k] else []) ++ timed_out now lim l'
  end.

Definition evicted_peers (st : ifb) : list N :=
  map fst (filter (fun e => N.eqb (task_count (snd e)) 0) (scheds st)).

(* download_schedulers.retain(task_count != 0) as it was before the repair *)
Definition evict_old (st : ifb) : ifb :=
  set_core st (filter (fun e => negb (N.eqb (task_count (snd e)) 0)) (scheds st)) (states st) (trace_number st).
(* repaired: the evicted scheduler's requests are released with it *)
Definition evict (st : ifb) : ifb :=
  fold_left (fun st p => fst (remove_by_peer p st)) (evicted_peers st) st.

Definition prune_gen (ev : ifb -> ifb) (now tip : N) (st : ifb) : ifb * list N :=
  let sp := should_punish st && adjustment st in
  let g2 := if sp then punish 2 else (fun d => d) in
  let g1 := if sp then punish 1 else (fun d => d) in
  (* 1: timeouts *)
  let st1 := fold_left (release_one g2 false) (timed_out now (tip + 20) (states st)) st in
  (* 2: peers whose task_count fell to 0 *)
  let disconnect := evicted_peers st1 in
  let st2 := ev st1 in
  (* 3 *)
  let rn := if negb (N.eqb (restart_number st2) 0) && N.ltb (restart_number st2) (tip + 1)
            then 0%N else restart_number st2 in
  (* 4: marks older than low_time restart their request *)
  let limit := low_time (ta st2) in
  let old := filter (fun e => N.ltb (limit + snd e) now) (trace_number st2) in
  let st3 := fold_left (release_one g1 false) (map fst old) st2 in
  let rn' := fold_left (fun r k => if N.ltb r (fst k) then fst k else r) (map fst old) rn in
  (mkIfb (scheds st3) (states st3)
         (filter (fun e => negb (N.ltb (limit + snd e) now)) (trace_number st3))
         rn' (ta st3) (adjustment st3) (protect_num st3),
   disconnect).

Definition prune := prune_gen evict.
Definition prune_old := prune_gen evict_old.

(* ---- operations ------------------------------------------------------------ *)
Inductive iop :=
| IInsert (now peer : N) (b : key)
| IRemoveByPeer (peer : N)
| IRemoveByBlock (now : N) (b : key)
| IMarkSlow (now tip : N)
| IPrune (now tip : N)
| ISetProtect (n : N).      (* test hook: protect_num *)

Inductive iret := RBool (b : bool) | RCount (n : nat) | RPeers (l : list N) | RUnit.

Definition istep_gen (pr : N -> N -> ifb -> ifb * list N) (st : ifb) (o : iop) : ifb * iret :=
  match o with
  | IInsert now peer b => let '(s, r) := insert now peer b st in (s, RBool r)
  | IRemoveByPeer peer => let '(s, r) := remove_by_peer peer st in (s, RCount r)
  | IRemoveByBlock now b => let '(s, r) := remove_by_block now b st in (s, RBool r)
  | IMarkSlow now tip => (mark_slow_block now tip st, RUnit)
  | IPrune now tip => let '(s, r) := pr now tip st in (s, RPeers r)
  | ISetProtect n => (mkIfb (scheds st) (states st) (trace_number st) (restart_number st) (ta st) (adjustment st) n, RUnit)
  end.
Definition istep := istep_gen prune.
Definition istep_old := istep_gen prune_old.

Fixpoint irun (st : ifb) (ops : list iop) : ifb :=
  match ops with [] => st | o :: ops' => irun (fst (istep st o)) ops' end.
Fixpoint irun_old (st : ifb) (ops : list iop) : ifb :=
  match ops with [] => st | o :: ops' => irun_old (fst (istep_old st o)) ops' end.

(* ---- specification: a partial map block => (peer, since) -------------------- *)
Definition owner (st : ifb) (b : key) : option (N * N) := alookup key_eqb b (states st).
Definition listed (st : ifb) (p : N) (b : key) : Prop :=
  exists d, alookup N.eqb p (scheds st) = Some d /\ In b (hashes d).

(* ---- observations ------------------------------------------------------------ *)
Record iobs := mkIObs {
  io_ret : iret;
  io_scheds : list (N * N * list key);      (* peer, task_count, listed blocks *)
  io_states : list (key * N * N);            (* block, peer, timestamp; in BTreeMap order *)
  io_trace : list (key * N);
  io_restart : N
}.
Definition observe_i (st : ifb) (r : iret) : iobs :=
  mkIObs r (map (fun e => (fst e, task_count (snd e), hashes (snd e))) (scheds st))
         (map (fun e => (fst e, fst (snd e), snd (snd e))) (states st))
         (trace_number st) (restart_number st).

Fixpoint irun_obs (st : ifb) (ops : list iop) : list iobs :=
  match ops with
  | [] => []
  | o :: ops' => let '(s, r) := istep st o in observe_i s r :: irun_obs s ops'
  end.

Definition iret_eqb (a b : iret) : bool :=
  match a, b with
  | RBool x, RBool y => Bool.eqb x y
  | RCount x, RCount y => Nat.eqb x y
  | RPeers x, RPeers y => perm_b N.eqb x y
  | RUnit, RUnit => true
  | _, _ => false
  end.
Definition sched_obs_eqb (a b : N * N * list key) : bool :=
  N.eqb (fst (fst a)) (fst (fst b)) && N.eqb (snd (fst a)) (snd (fst b)) && perm_b key_eqb (snd a) (snd b).
Definition state_obs_eqb (a b : key * N * N) : bool :=
  key_eqb (fst (fst a)) (fst (fst b)) && N.eqb (snd (fst a)) (snd (fst b)) && N.eqb (snd a) (snd b).
Definition trace_obs_eqb (a b : key * N) : bool := key_eqb (fst a) (fst b) && N.eqb (snd a) (snd b).
Definition iobs_eqb (m i : iobs) : bool :=
  iret_eqb (io_ret m) (io_ret i)
  && perm_b sched_obs_eqb (io_scheds m) (io_scheds i)
  && list_eqb state_obs_eqb (io_states m) (io_states i)
  && perm_b trace_obs_eqb (io_trace m) (io_trace i)
  && N.eqb (io_restart m) (io_restart i).

Record inflight_case := mkICase { ic_ops : list iop; ic_obs : list iobs }.
Definition check_inflight (c : inflight_case) : bool :=
  list_eqb iobs_eqb (irun_obs ifb_default (ic_ops c)) (ic_obs c).
