(* Structs/OrphanProofs.v — the orphan pool model refines the set of stored
   blocks: invariants of {blocks, parents, leaders}, correctness of the
   breadth-first release loop. *)
From CKB Require Import Structs.AList Structs.AListProofs Structs.Orphan.

Local Notation lk := (alookup N.eqb).
Local Notation eqs := N.eqb_spec.

Lemma NoDup_app_intro {A} (a b : list A) :
  NoDup a -> NoDup b -> (forall x, In x a -> ~ In x b) -> NoDup (a ++ b).
Proof.
  induction a as [|x a IH]; cbn; [auto|].
  intros Ha Hb Hd. inversion Ha; subst. constructor.
  - intros H. apply in_app_iff in H. destruct H as [H|H]; [tauto|]. apply (Hd x); auto.
  - apply IH; auto.
Qed.
Lemma NoDup_app_l {A} (a b : list A) : NoDup (a ++ b) -> NoDup a.
Proof.
  induction a; cbn; intros H; [constructor|]. inversion H; subst. constructor; auto.
  intros X; apply H2. apply in_app_iff; auto.
Qed.
Lemma NoDup_app_notin {A} (a b : list A) x : NoDup (a ++ b) -> In x a -> ~ In x b.
Proof.
  induction a; cbn; [tauto|]. intros H [->|Hx] Hb; inversion H; subst.
  - apply H2. apply in_app_iff; auto.
  - eapply IHa; eauto.
Qed.
Lemma existsb_eqb_In x (l : list N) : existsb (N.eqb x) l = true <-> In x l.
Proof. exact (smem_In N.eqb eqs x l). Qed.
Lemma existsb_eqb_nIn x (l : list N) : existsb (N.eqb x) l = false <-> ~ In x l.
Proof. rewrite <- existsb_eqb_In. destruct (existsb _ l); split; congruence. Qed.

Section Inv.
  Variables par ep : N -> N.
  Hypothesis par_irrefl : forall x, par x <> x.

  Definition the_blk (h : N) : blk := mkBlk h (par h) (ep h).

  Record inv (p : pool) : Prop := {
    iA : forall ph ch, lk ph (blocks p) = Some ch ->
           ch <> [] /\ NoDup (map fst ch) /\
           forall h b, In (h, b) ch -> b = the_blk h /\ par h = ph /\ lk h (parents p) = Some ph;
    iB : forall h ph, lk h (parents p) = Some ph ->
           par h = ph /\ exists ch, lk ph (blocks p) = Some ch /\ In (h, the_blk h) ch;
    iC : forall l, In l (leaders p) <->
           (exists h, lk h (parents p) = Some l) /\ lk l (parents p) = None;
    iD : NoDup (leaders p) /\ NoDup (map fst (parents p)) /\ NoDup (map fst (blocks p)) }.

  Lemma inv_empty : inv empty_pool.
  Proof.
    split; cbn; try discriminate.
    - intros l. split; [tauto|]. intros [[h H] _]. discriminate.
    - repeat split; constructor.
  Qed.

  Lemma In_adelete {V} k (l : list (N * V)) x v :
    In (x, v) (adelete N.eqb k l) <-> In (x, v) l /\ x <> k.
  Proof.
    unfold adelete. rewrite filter_In. cbn. destruct (eqs k x); cbn; intuition congruence.
  Qed.

  Lemma insert_inv p b : inv p -> b = the_blk (b_id b) -> inv (insert p b).
  Proof.
    intros [A B C [D1 [D2 D3]]] Eb.
    set (h := b_id b) in *. set (ph := par h).
    assert (b_parent b = ph) as Eph by (rewrite Eb; reflexivity).
    unfold insert. fold h. rewrite Eph.
    set (ch := match lk ph (blocks p) with Some c => c | None => [] end).
    assert (Hch : ch = [] \/ lk ph (blocks p) = Some ch).
    { unfold ch. destruct (lk ph (blocks p)); auto. }
    assert (NDch : NoDup (map fst ch)).
    { destruct Hch as [->|E]; [constructor|]. apply (A _ _ E). }
    assert (Ach : forall h' b', In (h', b') ch -> b' = the_blk h' /\ par h' = ph /\ lk h' (parents p) = Some ph).
    { destruct Hch as [->|E]; [intros ? ? []|]. apply (A _ _ E). }
    split; cbn [blocks parents leaders].
    - (* A *)
      intros k c. rewrite (alookup_ainsert N.eqb eqs). destruct (eqs ph k) as [<-|Hk].
      + intros [= <-]. split; [discriminate|]. split; [now apply (NoDup_ainsert N.eqb eqs)|].
        intros h' b' [E|E].
        * injection E as <- <-. rewrite (alookup_ainsert N.eqb eqs), N.eqb_refl. auto.
        * apply In_adelete in E. destruct E as [E Hn].
          destruct (Ach _ _ E) as (? & ? & ?). repeat split; auto.
          rewrite (alookup_ainsert N.eqb eqs). destruct (eqs h h'); congruence.
      + intros E. destruct (A _ _ E) as (? & ? & Hel). repeat split; auto; try apply (Hel _ _ H1).
        destruct (Hel _ _ H1) as (_ & Hp & Hl).
        rewrite (alookup_ainsert N.eqb eqs). destruct (eqs h h0) as [<-|]; auto.
        exfalso. apply Hk. exact Hp.
    - (* B *)
      intros h' p'. rewrite (alookup_ainsert N.eqb eqs). destruct (eqs h h') as [<-|Hn].
      + intros [= <-]. split; [reflexivity|]. eexists. rewrite (alookup_ainsert N.eqb eqs), N.eqb_refl.
        split; [reflexivity|]. left. f_equal. exact Eb.
      + intros E. destruct (B _ _ E) as (Hp & c & Hc & Hin). split; auto.
        rewrite (alookup_ainsert N.eqb eqs). destruct (eqs ph p') as [<-|]; eauto.
        eexists; split; [reflexivity|]. right. apply In_adelete. split; auto.
        unfold ch. rewrite Hc. exact Hin.
    - (* C *)
      intros l.
      assert (HN : lk l (ainsert N.eqb h ph (parents p)) = None <-> l <> h /\ lk l (parents p) = None).
      { rewrite (alookup_ainsert N.eqb eqs). destruct (eqs h l); split; intros; intuition congruence. }
      assert (HE : (exists x, lk x (ainsert N.eqb h ph (parents p)) = Some l) <->
                   (l = ph \/ exists x, lk x (parents p) = Some l)).
      { split.
        - intros [x Hx]. rewrite (alookup_ainsert N.eqb eqs) in Hx. destruct (eqs h x); [left; congruence|right; eauto].
        - intros [->|[x Hx]].
          + exists h. now rewrite (alookup_ainsert N.eqb eqs), N.eqb_refl.
          + exists x. rewrite (alookup_ainsert N.eqb eqs). destruct (eqs h x) as [<-|]; auto.
            destruct (B _ _ Hx) as [Hp _]. fold ph in Hp. congruence. }
      rewrite HN, HE.
      destruct (amem N.eqb ph (parents p)) eqn:Em.
      + apply amem_true in Em. destruct Em as [v Ev].
        rewrite (In_sremove N.eqb eqs), C. split.
        * intros [[Hx Hl] Hn]. auto.
        * intros [[->|Hx] [Hn Hl]]; [congruence|auto].
      + apply amem_false in Em.
        rewrite (In_sinsert N.eqb eqs), (In_sremove N.eqb eqs), C. split.
        * intros [->|[[Hx Hl] Hn]]; auto. split; auto. split; auto. apply par_irrefl.
        * intros [[->|Hx] [Hn Hl]]; auto.
    - repeat split.
      + destruct (amem N.eqb ph (parents p)); [|apply (NoDup_sinsert N.eqb eqs)]; now apply (NoDup_sremove N.eqb).
      + now apply (NoDup_ainsert N.eqb eqs).
      + now apply (NoDup_ainsert N.eqb eqs).
  Qed.

  (* ---- the release loop ---------------------------------------------------- *)
  Definition kb (B : list (N * list (N * blk))) (d : N) : list blk :=
    match lk d B with Some ch => map snd ch | None => [] end.

  Section Bfs.
    Variable p : pool.
    Hypothesis Hinv : inv p.
    Variable ph : N.
    Hypothesis Hph : lk ph (parents p) = None.
    Let B0 := blocks p.
    Let P0 := parents p.

    Lemma kb_ids d : map b_id (kb B0 d) = match lk d B0 with Some ch => map fst ch | None => [] end.
    Proof.
      unfold kb. destruct (lk d B0) as [ch|] eqn:E; [|reflexivity].
      destruct (iA _ Hinv _ _ E) as (_ & _ & Hel).
      clear E. induction ch as [|[h b] ch IH]; cbn; [reflexivity|].
      f_equal.
      - destruct (Hel h b) as [-> _]; [now left|reflexivity].
      - apply IH. intros h' b' Hin. apply Hel. now right.
    Qed.

    Lemma kb_spec d b : In b (kb B0 d) <-> lk (b_id b) P0 = Some d /\ b = the_blk (b_id b).
    Proof.
      unfold kb. split.
      - destruct (lk d B0) as [ch|] eqn:E; [|intros []].
        intros Hin. apply in_map_iff in Hin. destruct Hin as [[h b'] [<- Hin]]. cbn.
        destruct (iA _ Hinv _ _ E) as (_ & _ & Hel). destruct (Hel _ _ Hin) as (-> & ? & ?). cbn. auto.
      - intros [Hl Hb]. destruct (iB _ Hinv _ _ Hl) as (_ & ch & Hc & Hin). fold B0 in Hc. rewrite Hc.
        apply in_map_iff. exists (b_id b, the_blk (b_id b)). split; [now rewrite <- Hb|exact Hin].
    Qed.

    Record binv (D q : list N) (bl : list (N * list (N * blk))) (pa : list (N * N)) (rem : list blk) : Prop := {
      b1 : D ++ q = ph :: map b_id rem;
      b2 : rem = flat_map (kb B0) D;
      b3 : NoDup (D ++ q);
      b4 : forall k, lk k bl = if existsb (N.eqb k) D then None else lk k B0;
      b5 : forall k, lk k pa = if existsb (N.eqb k) (map b_id rem) then None else lk k P0;
      b6 : parents_first ph rem;
      b7 : NoDup (map fst bl) /\ NoDup (map fst pa) }.

    Lemma binv_init : binv [] [ph] B0 P0 [].
    Proof.
      split; cbn; auto.
      - repeat constructor. tauto.
      - intros r1 b r2 H. destruct r1; discriminate.
      - split; apply (iD _ Hinv).
    Qed.

    Lemma rem_stored D rem b : rem = flat_map (kb B0) D -> In b rem ->
      exists d, In d D /\ lk (b_id b) P0 = Some d /\ b = the_blk (b_id b).
    Proof.
      intros -> Hin. apply in_flat_map in Hin. destruct Hin as [d [Hd Hb]].
      apply kb_spec in Hb. exists d. tauto.
    Qed.

    Lemma binv_step_none D r q bl pa rem :
      binv D (r :: q) bl pa rem -> lk r bl = None -> binv (D ++ [r]) q bl pa rem.
    Proof.
      intros [h1 h2 h3 h4 h5 h6 h7] Hn.
      assert (Hr : ~ In r D).
      { intros X. eapply (NoDup_app_notin D (r :: q)); eauto. now left. }
      assert (Hk : kb B0 r = []).
      { unfold kb. rewrite h4 in Hn. apply existsb_eqb_nIn in Hr. rewrite Hr in Hn. now rewrite Hn. }
      split; auto.
      - now rewrite <- app_assoc.
      - rewrite flat_map_app. cbn. now rewrite Hk, !app_nil_r.
      - now rewrite <- app_assoc.
      - intros k. rewrite existsb_app. cbn. rewrite orb_false_r.
        destruct (existsb (N.eqb k) D) eqn:E; cbn; [now rewrite h4, E|].
        destruct (eqs k r) as [->|]; [exact Hn|]. now rewrite h4, E.
    Qed.

    Lemma binv_step_some D r q bl pa rem orphaned :
      binv D (r :: q) bl pa rem -> lk r bl = Some orphaned ->
      binv (D ++ [r]) (q ++ map fst orphaned) (adelete N.eqb r bl)
           (adelete_all N.eqb (map fst orphaned) pa) (rem ++ map snd orphaned).
    Proof.
      intros [h1 h2 h3 h4 h5 h6 h7] Hs.
      assert (Hr : ~ In r D).
      { intros X. eapply (NoDup_app_notin D (r :: q)); eauto. now left. }
      assert (Hs0 : lk r B0 = Some orphaned).
      { rewrite h4 in Hs. apply existsb_eqb_nIn in Hr. now rewrite Hr in Hs. }
      assert (Hk : kb B0 r = map snd orphaned) by (unfold kb; now rewrite Hs0).
      assert (Hids : map b_id (map snd orphaned) = map fst orphaned).
      { rewrite <- Hk, kb_ids. now rewrite Hs0. }
      destruct (iA _ Hinv _ _ Hs0) as (_ & NDo & Hel).
      assert (Hkid : forall x, In x (map fst orphaned) -> lk x P0 = Some r).
      { intros x Hx. apply in_map_iff in Hx. destruct Hx as [[h b] [<- Hin]]. apply (Hel _ _ Hin). }
      split.
      - rewrite <- !app_assoc. cbn. rewrite map_app, Hids.
        change (ph :: map b_id rem ++ map fst orphaned) with ((ph :: map b_id rem) ++ map fst orphaned).
        rewrite <- h1. now rewrite <- app_assoc.
      - rewrite flat_map_app. cbn. now rewrite Hk, app_nil_r, <- h2.
      - rewrite <- app_assoc. cbn. rewrite app_comm_cons, app_assoc.
        apply NoDup_app_intro; auto.
        intros x Hx Hkx. rewrite h1 in Hx. specialize (Hkid _ Hkx). destruct Hx as [<-|Hx].
        + fold P0 in Hph. congruence.
        + apply in_map_iff in Hx. destruct Hx as [b [<- Hb]].
          destruct (rem_stored _ _ _ h2 Hb) as (d & Hd & Hl & _). congruence.
      - intros k. rewrite (alookup_adelete N.eqb eqs), existsb_app. cbn. rewrite orb_false_r.
        destruct (eqs r k) as [<-|Hn].
        + rewrite N.eqb_refl, orb_true_r. reflexivity.
        + rewrite h4. destruct (eqs k r); [congruence|]. now rewrite orb_false_r.
      - intros k. rewrite (alookup_adelete_all N.eqb eqs), map_app, existsb_app, Hids, h5.
        destruct (existsb (N.eqb k) (map b_id rem)), (existsb (N.eqb k) (map fst orphaned)); reflexivity.
      - intros r1 b r2 Heq. apply app_eq_app in Heq. destruct Heq as [l [[E1 E2]|[E1 E2]]].
        + (* b lies in the new part *)
          destruct l as [|b' l].
          * rewrite app_nil_r in E1. cbn in E2. subst r1.
            assert (In b (map snd orphaned)) as Hb by (rewrite <- E2; now left).
            rewrite <- Hk in Hb. apply kb_spec in Hb. destruct Hb as [Hl Hb].
            assert (b_parent b = r) as Hpr.
            { destruct (iB _ Hinv _ _ Hl) as [Hp _]. rewrite Hb. exact Hp. }
            rewrite Hpr. assert (In r (D ++ r :: q)) as Hin by (apply in_app_iff; right; now left).
            rewrite h1 in Hin. destruct Hin as [->|Hin]; auto.
          * cbn in E2. injection E2 as <- E2. apply (h6 r1 b l). exact E1.
        + (* b lies in the old part: r1 = rem ++ l *)
          subst r1. assert (In b (map snd orphaned)) as Hb by (rewrite E2; apply in_app_iff; right; now left).
          rewrite <- Hk in Hb. apply kb_spec in Hb. destruct Hb as [Hl Hb].
          assert (b_parent b = r) as Hpr.
          { destruct (iB _ Hinv _ _ Hl) as [Hp _]. rewrite Hb. exact Hp. }
          rewrite Hpr. assert (In r (D ++ r :: q)) as Hin by (apply in_app_iff; right; now left).
          rewrite h1 in Hin. destruct Hin as [->|Hin]; auto.
          right. rewrite map_app, in_app_iff. auto.
      - destruct h7. split; [now apply (NoDup_adelete N.eqb)|now apply (NoDup_adelete_all N.eqb)].
    Qed.

    Lemma binv_bound D q bl pa rem : binv D q bl pa rem -> length D + length q <= S (length P0).
    Proof.
      intros [h1 h2 h3 h4 h5 h6 h7].
      rewrite <- app_length, h1. cbn. apply le_n_S. rewrite <- (map_length fst P0).
      apply NoDup_incl_length.
      - rewrite h1 in h3. now inversion h3.
      - intros x Hx. apply in_map_iff in Hx. destruct Hx as [b [<- Hb]].
        destruct (rem_stored _ _ _ h2 Hb) as (d & _ & Hl & _).
        destruct (in_dec N.eq_dec (b_id b) (map fst P0)) as [|Hn]; auto.
        apply (alookup_None N.eqb eqs) in Hn. congruence.
    Qed.

    Lemma bfs_final fuel : forall D q bl pa rem,
      binv D q bl pa rem -> length P0 + 2 <= length D + fuel ->
      exists D', match bfs fuel q bl pa rem with (bl', pa', rem') => binv D' [] bl' pa' rem' end.
    Proof.
      induction fuel as [|f IH]; intros D q bl pa rem Hb Hf.
      - pose proof (binv_bound _ _ _ _ _ Hb). lia.
      - cbn. destruct q as [|r q].
        + exists D. exact Hb.
        + destruct (lk r bl) as [orphaned|] eqn:E.
          * apply (IH (D ++ [r])); [now apply binv_step_some|]. rewrite app_length. cbn. lia.
          * apply (IH (D ++ [r])); [now apply binv_step_none|]. rewrite app_length. cbn. lia.
    Qed.
  End Bfs.

  (* ---- stored blocks, characterised through the parents map ---------------- *)
  Lemma stored_kb p b : NoDup (map fst (blocks p)) ->
    (In b (stored p) <-> exists k, In b (kb (blocks p) k)).
  Proof.
    intros ND. unfold stored, kb. rewrite in_flat_map. split.
    - intros [[k ch] [Hin Hb]]. exists k. rewrite (In_alookup N.eqb eqs _ _ _ ND Hin). exact Hb.
    - intros [k Hb]. destruct (lk k (blocks p)) as [ch|] eqn:E; [|destruct Hb].
      exists (k, ch). split; [now apply (alookup_In N.eqb eqs)|exact Hb].
  Qed.

  Lemma stored_char p b : inv p ->
    (In b (stored p) <-> lk (b_id b) (parents p) = Some (b_parent b) /\ b = the_blk (b_id b)).
  Proof.
    intros Hinv. rewrite stored_kb by apply (iD _ Hinv). split.
    - intros [k Hb]. apply (kb_spec p Hinv) in Hb. destruct Hb as [Hl Hb]. split; auto.
      destruct (iB _ Hinv _ _ Hl) as [Hp _]. rewrite Hb at 2. cbn. now rewrite Hp.
    - intros [Hl Hb]. exists (b_parent b). apply (kb_spec p Hinv). auto.
  Qed.

  Lemma pf_descends S ph rem : parents_first ph rem -> (forall b, In b rem -> In b S) ->
    forall b, In b rem -> descends S ph b.
  Proof.
    induction rem as [|x rem IH] using rev_ind; [intros _ _ b []|].
    intros Hpf Hs.
    assert (IH' : forall b, In b rem -> descends S ph b).
    { apply IH.
      - intros r1 b r2 E. apply (Hpf r1 b (r2 ++ [x])). rewrite E, <- app_assoc. reflexivity.
      - intros b Hb. apply Hs. apply in_app_iff. auto. }
    intros b Hb. apply in_app_iff in Hb. destruct Hb as [Hb|[<-|[]]]; auto.
    destruct (Hpf rem x [] eq_refl) as [Hp|Hp].
    - apply DChild; auto. apply Hs. apply in_app_iff. right. now left.
    - apply in_map_iff in Hp. destruct Hp as [c [Hc Hin]].
      apply (DStep S ph x c); auto. apply Hs. apply in_app_iff. right. now left.
  Qed.

  Lemma descends_child S ph b : descends S ph b -> exists c, In c S /\ b_parent c = ph.
  Proof. induction 1; eauto. Qed.

  Section Final.
    Variables (p : pool) (ph : N) (bl : list (N * list (N * blk))) (pa : list (N * N)) (rem : list blk).
    Hypothesis Hinv : inv p.
    Hypothesis Hph : lk ph (parents p) = None.
    Hypothesis F : binv p ph (ph :: map b_id rem) [] bl pa rem.

    Local Notation D' := (ph :: map b_id rem).

    Lemma fin_rem_iff b : In b rem <-> exists d, In d D' /\ In b (kb (blocks p) d).
    Proof. rewrite (b2 _ _ _ _ _ _ _ F) at 1. apply in_flat_map. Qed.

    Lemma fin_ids_in_D x : In x (map b_id rem) -> In x D'.
    Proof. intros; right; auto. Qed.

    Lemma fin_descends b : In b rem <-> descends (stored p) ph b.
    Proof.
      split.
      - revert b. apply pf_descends; [apply (b6 _ _ _ _ _ _ _ F)|].
        intros b Hb. apply fin_rem_iff in Hb. destruct Hb as [d [_ Hb]].
        apply stored_kb; [apply (iD _ Hinv)|eauto].
      - induction 1 as [b Hs Hp|b c Hs Hc IH Hp].
        + apply fin_rem_iff. exists ph. split; [now left|].
          apply (stored_char _ _ Hinv) in Hs. apply (kb_spec p Hinv). now rewrite <- Hp.
        + apply fin_rem_iff. exists (b_id c). split; [right; now apply in_map|].
          apply (stored_char _ _ Hinv) in Hs. apply (kb_spec p Hinv). now rewrite <- Hp.
    Qed.

    Lemma fin_nodup : NoDup rem.
    Proof.
      pose proof (b3 _ _ _ _ _ _ _ F) as H. rewrite app_nil_r in H. inversion H; subst.
      eapply NoDup_map_inv; eauto.
    Qed.

    Lemma fin_kb k : kb bl k = if existsb (N.eqb k) D' then [] else kb (blocks p) k.
    Proof. unfold kb. rewrite (b4 _ _ _ _ _ _ _ F). destruct (existsb (N.eqb k) D'); reflexivity. Qed.

    Lemma fin_stored b :
      In b (stored (mkPool bl pa (sremove N.eqb ph (leaders p)))) <-> In b (stored p) /\ ~ In b rem.
    Proof.
      rewrite stored_kb by apply (b7 _ _ _ _ _ _ _ F). cbn [blocks].
      rewrite (stored_kb p) by apply (iD _ Hinv). split.
      - intros [k Hb]. rewrite fin_kb in Hb. destruct (existsb (N.eqb k) D') eqn:E; [destruct Hb|].
        split; [eauto|]. intros Hr. apply fin_rem_iff in Hr. destruct Hr as [d [Hd Hb']].
        apply (kb_spec p Hinv) in Hb, Hb'. apply existsb_eqb_nIn in E. destruct Hb, Hb'. congruence.
      - intros [[k Hb] Hn]. exists k. rewrite fin_kb. destruct (existsb (N.eqb k) D') eqn:E; auto.
        exfalso. apply Hn. apply fin_rem_iff. exists k. split; auto. now apply existsb_eqb_In.
    Qed.

    Lemma fin_pa_lookup h : lk h pa = if existsb (N.eqb h) (map b_id rem) then None else lk h (parents p).
    Proof. apply (b5 _ _ _ _ _ _ _ F). Qed.

    (* a removed block's parent was popped; a kept block's parent was not *)
    Lemma fin_removed_parent h k : lk h (parents p) = Some k -> (In h (map b_id rem) <-> In k D').
    Proof.
      intros Hl. split.
      - intros Hh. apply in_map_iff in Hh. destruct Hh as [b [<- Hb]].
        apply fin_rem_iff in Hb. destruct Hb as [d [Hd Hb]]. apply (kb_spec p Hinv) in Hb.
        destruct Hb. congruence.
      - intros Hk. apply in_map_iff. exists (the_blk h). split; [reflexivity|].
        apply fin_rem_iff. exists k. split; auto. apply (kb_spec p Hinv). cbn. auto.
    Qed.

    Lemma fin_inv : inv (mkPool bl pa (sremove N.eqb ph (leaders p))).
    Proof.
      split; cbn [blocks parents leaders].
      - intros k ch Hk. rewrite (b4 _ _ _ _ _ _ _ F) in Hk.
        destruct (existsb (N.eqb k) D') eqn:E; [discriminate|]. apply existsb_eqb_nIn in E.
        destruct (iA _ Hinv _ _ Hk) as (H1 & H2 & Hel). repeat split; auto; try apply (Hel _ _ H).
        destruct (Hel _ _ H) as (_ & _ & Hl). rewrite fin_pa_lookup.
        destruct (existsb (N.eqb h) (map b_id rem)) eqn:E2; auto.
        apply existsb_eqb_In in E2. apply (fin_removed_parent _ _ Hl) in E2. tauto.
      - intros h k Hl. rewrite fin_pa_lookup in Hl.
        destruct (existsb (N.eqb h) (map b_id rem)) eqn:E2; [discriminate|]. apply existsb_eqb_nIn in E2.
        destruct (iB _ Hinv _ _ Hl) as (Hp & ch & Hc & Hin). split; auto. exists ch. split; auto.
        rewrite (b4 _ _ _ _ _ _ _ F). destruct (existsb (N.eqb k) D') eqn:E; auto.
        apply existsb_eqb_In in E. apply (fin_removed_parent _ _ Hl) in E. tauto.
      - intros l. rewrite (In_sremove N.eqb eqs), (iC _ Hinv). split.
        + intros [[[h Hh] Hl] Hn]. split.
          * exists h. rewrite fin_pa_lookup. destruct (existsb (N.eqb h) (map b_id rem)) eqn:E2; auto.
            apply existsb_eqb_In in E2. apply (fin_removed_parent _ _ Hh) in E2.
            destruct E2 as [->|E2]; [congruence|].
            apply in_map_iff in E2. destruct E2 as [b [<- Hb]].
            apply fin_rem_iff in Hb. destruct Hb as [d [_ Hb]]. apply (kb_spec p Hinv) in Hb. destruct Hb. congruence.
          * rewrite fin_pa_lookup. destruct (existsb (N.eqb l) (map b_id rem)); auto.
        + intros [[h Hh] Hl]. rewrite fin_pa_lookup in Hh.
          destruct (existsb (N.eqb h) (map b_id rem)) eqn:E2; [discriminate|]. apply existsb_eqb_nIn in E2.
          assert (~ In l D') as HlD.
          { intros X. apply E2. now apply (fin_removed_parent _ _ Hh). }
          rewrite fin_pa_lookup in Hl.
          destruct (existsb (N.eqb l) (map b_id rem)) eqn:E3.
          * apply existsb_eqb_In in E3. exfalso. apply HlD. now right.
          * repeat split; eauto. intros ->. apply HlD. now left.
      - repeat split; try apply (b7 _ _ _ _ _ _ _ F). apply (NoDup_sremove N.eqb), (iD _ Hinv).
    Qed.
  End Final.

  Lemma remove_leader p ph : inv p -> In ph (leaders p) ->
    exists bl pa rem,
      remove_blocks_by_parent p ph = (mkPool bl pa (sremove N.eqb ph (leaders p)), rem)
      /\ binv p ph (ph :: map b_id rem) [] bl pa rem.
  Proof.
    intros Hinv Hl. unfold remove_blocks_by_parent.
    rewrite (proj2 (smem_In N.eqb eqs ph (leaders p)) Hl).
    assert (Hph : lk ph (parents p) = None) by (apply (iC _ Hinv) in Hl; tauto).
    destruct (bfs_final p Hinv ph Hph (S (S (length (parents p)))) [] [ph] (blocks p) (parents p) [])
      as [D' HD]; [apply binv_init; auto|cbn; lia|].
    destruct (bfs _ _ _ _ _) as [[bl pa] rem]. exists bl, pa, rem. split; [reflexivity|].
    pose proof (b1 _ _ _ _ _ _ _ HD) as E. rewrite app_nil_r in E. now rewrite <- E.
  Qed.

  Theorem remove_spec p ph p' out : inv p -> remove_blocks_by_parent p ph = (p', out) ->
    inv p' /\
    (forall b, In b (stored p') <-> In b (stored p) /\ ~ In b out) /\
    ((exists b, In b (stored p) /\ b_id b = ph) -> out = [] /\ p' = p) /\
    (~ (exists b, In b (stored p) /\ b_id b = ph) ->
       (forall b, In b out <-> descends (stored p) ph b) /\ NoDup out /\ parents_first ph out).
  Proof.
    intros Hinv Hr.
    destruct (smem N.eqb ph (leaders p)) eqn:Es.
    - apply (smem_In N.eqb eqs) in Es.
      destruct (remove_leader p ph Hinv Es) as (bl & pa & rem & E & F). rewrite E in Hr. injection Hr as <- <-.
      assert (Hph : lk ph (parents p) = None) by (apply (iC _ Hinv) in Es; tauto).
      split; [now apply (fin_inv p ph bl pa rem)|]. split; [now apply (fin_stored p ph bl pa rem)|]. split.
      + intros [b [Hb Hid]]. apply (stored_char _ _ Hinv) in Hb. rewrite Hid in Hb. destruct Hb. congruence.
      + intros _. split; [intros b; now apply (fin_descends p ph bl pa rem)|].
        split; [now apply (fin_nodup p ph bl pa rem)|apply (b6 _ _ _ _ _ _ _ F)].
    - unfold remove_blocks_by_parent in Hr. rewrite Es in Hr. injection Hr as <- <-.
      split; auto. split; [intros b; tauto|]. split; [auto|].
      intros Hn. split; [|split; [constructor|intros r1 b r2 E; destruct r1; discriminate]].
      intros b. split; [intros []|]. intros Hd. exfalso.
      destruct (descends_child _ _ _ Hd) as [c [Hc Hp]].
      apply (stored_char _ _ Hinv) in Hc. destruct Hc as [Hl _]. rewrite Hp in Hl.
      assert (In ph (leaders p)) as X.
      { apply (iC _ Hinv). split; eauto.
        destruct (lk ph (parents p)) as [x|] eqn:E; auto. exfalso. apply Hn.
        exists (the_blk ph). split; [|reflexivity]. apply (stored_char _ _ Hinv). cbn.
        destruct (iB _ Hinv _ _ E) as [-> _]. auto. }
      apply (smem_In N.eqb eqs) in X. congruence.
  Qed.

  Lemma descends_mono S S' ph b : (forall x, In x S -> In x S') -> descends S ph b -> descends S' ph b.
  Proof. intros Hs. induction 1; [apply DChild|eapply DStep]; eauto. Qed.

  (* clean_expired_blocks: a fold of releases over the leaders *)
  Lemma clean_spec p t p' out : inv p -> clean_expired_blocks p t = (p', out) ->
    inv p' /\
    (forall b, In b (stored p') <-> In b (stored p) /\ ~ In b out) /\
    (forall b, In b out -> exists l, In l (leaders p) /\ descends (stored p) l b).
  Proof.
    intros Hinv. unfold clean_expired_blocks.
    set (f := fun (st : pool * list blk) l => if need_clean (fst st) l t then
                 match remove_blocks_by_parent (fst st) l with (p', r) => (p', snd st ++ r) end else st).
    assert (G : forall ls st, incl ls (leaders p) ->
               (inv (fst st) /\
                (forall b, In b (stored (fst st)) <-> In b (stored p) /\ ~ In b (snd st)) /\
                (forall b, In b (snd st) -> exists l, In l (leaders p) /\ descends (stored p) l b)) ->
               let st' := fold_left f ls st in
               inv (fst st') /\
               (forall b, In b (stored (fst st')) <-> In b (stored p) /\ ~ In b (snd st')) /\
               (forall b, In b (snd st') -> exists l, In l (leaders p) /\ descends (stored p) l b)).
    { induction ls as [|l ls IH]; intros st Hls J; [exact J|].
      cbn. apply IH; [intros x Hx; apply Hls; now right|].
      destruct J as (J1 & J2 & J3). unfold f. cbv beta. destruct (need_clean (fst st) l t); [|auto].
      destruct (remove_blocks_by_parent (fst st) l) as [p1 r] eqn:Er.
      destruct (remove_spec _ _ _ _ J1 Er) as (R1 & R2 & R3 & R4). cbn [fst snd].
      split; [exact R1|]. split.
      - intros b. rewrite R2, J2, in_app_iff. tauto.
      - intros b Hb. apply in_app_iff in Hb. destruct Hb as [Hb|Hb]; [auto|].
        exists l. split; [apply Hls; now left|].
        assert (X : ~ (exists b0, In b0 (stored (fst st)) /\ b_id b0 = l)).
        { intros Hx. destruct (R3 Hx) as [-> _]. destruct Hb. }
        destruct (R4 X) as (R5 & _). apply R5 in Hb.
        eapply descends_mono; [|exact Hb]. intros x Hx. apply J2 in Hx. tauto. }
    intros E. specialize (G (leaders p) (p, []) (fun x H => H)).
    cbv zeta in G. fold f in E. rewrite E in G. cbn [fst snd] in G. apply G.
    split; auto. split; [intros b; cbn; tauto|intros b []].
  Qed.

  Lemma op_ok_blk b : op_ok par ep (OInsert b) -> b = the_blk (b_id b).
  Proof. destruct b; cbn. intros [-> ->]. reflexivity. Qed.

  Lemma ostep_inv p o : inv p -> op_ok par ep o -> inv (fst (ostep p o)).
  Proof.
    intros Hinv Hok. destruct o as [b|ph|t]; cbn [ostep].
    - apply insert_inv; auto. now apply op_ok_blk.
    - destruct (remove_blocks_by_parent p ph) as [p' out] eqn:E. apply (remove_spec _ _ _ _ Hinv E).
    - destruct (clean_expired_blocks p t) as [p' out] eqn:E. apply (clean_spec _ _ _ _ Hinv E).
  Qed.

  Lemma orun_inv ops : forall p, inv p -> Forall (op_ok par ep) ops -> inv (orun p ops).
  Proof.
    induction ops as [|o ops IH]; intros p Hinv Hok; [exact Hinv|].
    inversion Hok; subst. cbn. apply IH; auto. now apply ostep_inv.
  Qed.

  Lemma insert_stored p b : inv p -> b = the_blk (b_id b) ->
    forall x, In x (stored (insert p b)) <-> x = b \/ In x (stored p).
  Proof.
    intros Hinv Hb x. rewrite (stored_char _ _ (insert_inv _ _ Hinv Hb)), (stored_char _ _ Hinv).
    cbn [insert parents]. rewrite (alookup_ainsert N.eqb eqs). destruct (eqs (b_id b) (b_id x)) as [E|E].
    - split.
      + intros [_ Hx]. left. rewrite Hx, Hb, <- E. reflexivity.
      + intros [->|[Hl Hx]]; [split; [reflexivity|exact Hb]|].
        split; [|exact Hx]. f_equal. rewrite Hx, Hb, E. reflexivity.
    - split; [tauto|]. intros [->|H]; [congruence|exact H].
  Qed.

  Lemma leaders_exact p : inv p ->
    NoDup (leaders p) /\
    forall l, In l (leaders p) <->
      (exists b, In b (stored p) /\ b_parent b = l) /\ ~ (exists b, In b (stored p) /\ b_id b = l).
  Proof.
    intros Hinv. split; [apply (iD _ Hinv)|]. intros l. rewrite (iC _ Hinv). split.
    - intros [[h Hh] Hl]. split.
      + exists (the_blk h). split; [|cbn; apply (iB _ Hinv _ _ Hh)].
        apply (stored_char _ _ Hinv). cbn. split; auto. destruct (iB _ Hinv _ _ Hh) as [-> _]. exact Hh.
      + intros [b [Hb Hid]]. apply (stored_char _ _ Hinv) in Hb. rewrite Hid in Hb. destruct Hb. congruence.
    - intros [[b [Hb Hp]] Hn]. apply (stored_char _ _ Hinv) in Hb. split.
      + exists (b_id b). rewrite <- Hp. tauto.
      + destruct (lk l (parents p)) as [x|] eqn:E; auto. exfalso. apply Hn.
        exists (the_blk l). split; [|reflexivity]. apply (stored_char _ _ Hinv). cbn.
        destruct (iB _ Hinv _ _ E) as [-> _]. auto.
  Qed.
End Inv.

(* ---- the statements over all operation sequences --------------------------- *)
Theorem orphan_refines : forall par ep ops,
  (forall x, par x <> x) -> Forall (op_ok par ep) ops ->
  let p := orun empty_pool ops in
  (* insert adds exactly the block *)
  (forall b, op_ok par ep (OInsert b) -> forall x, In x (stored (insert p b)) <-> x = b \/ In x (stored p)) /\
  (* release *)
  (forall ph p' out, remove_blocks_by_parent p ph = (p', out) ->
     (forall b, In b (stored p') <-> In b (stored p) /\ ~ In b out) /\
     ((exists b, In b (stored p) /\ b_id b = ph) -> out = [] /\ p' = p) /\
     (~ (exists b, In b (stored p) /\ b_id b = ph) ->
        (forall b, In b out <-> descends (stored p) ph b) /\ NoDup out /\ parents_first ph out)) /\
  (* expiry releases whole trees below leaders and keeps the rest *)
  (forall t p' out, clean_expired_blocks p t = (p', out) ->
     (forall b, In b (stored p') <-> In b (stored p) /\ ~ In b out) /\
     (forall b, In b out -> exists l, In l (leaders p) /\ descends (stored p) l b)).
Proof.
  intros par ep ops Hpar Hok p.
  assert (Hinv : inv par ep p) by (apply orun_inv; auto; apply inv_empty).
  split; [|split].
  - intros b Hb. apply (insert_stored par ep Hpar); auto. now apply op_ok_blk.
  - intros ph p' out E. destruct (remove_spec par ep _ _ _ _ Hinv E) as [_ H]. exact H.
  - intros t p' out E. destruct (clean_spec par ep _ _ _ _ Hinv E) as [_ H]. exact H.
Qed.

Theorem orphan_leaders_exact : forall par ep ops,
  (forall x, par x <> x) -> Forall (op_ok par ep) ops ->
  let p := orun empty_pool ops in
  NoDup (leaders p) /\
  forall l, In l (leaders p) <->
    (exists b, In b (stored p) /\ b_parent b = l) /\ ~ (exists b, In b (stored p) /\ b_id b = l).
Proof.
  intros par ep ops Hpar Hok p. apply (leaders_exact par ep). apply orun_inv; auto. apply inv_empty.
Qed.

(* non-vacuity: a concrete history satisfying the hypotheses; the release of
   parent 1 returns the chain 2 <- 3 (parent first) and keeps 5 and 8 *)
Definition ex_par (x : N) : N := if N.eqb x 0 then 1000%N else (x - 1)%N.
Definition ex_ep (_ : N) : N := 0%N.
Definition ex_ops : list oop :=
  [OInsert (mkBlk 3 2 0); OInsert (mkBlk 5 4 0); OInsert (mkBlk 2 1 0); OInsert (mkBlk 8 7 0); OInsert (mkBlk 3 2 0)].
Lemma ex_par_irrefl : forall x, ex_par x <> x.
Proof. intros x. unfold ex_par. destruct (N.eqb_spec x 0); lia. Qed.
Example orphan_example :
  Forall (op_ok ex_par ex_ep) ex_ops /\
  leaders (orun empty_pool ex_ops) = [7; 1; 4]%N /\
  snd (remove_blocks_by_parent (orun empty_pool ex_ops) 1) = [mkBlk 2 1 0; mkBlk 3 2 0] /\
  stored (fst (remove_blocks_by_parent (orun empty_pool ex_ops) 1)) = [mkBlk 8 7 0; mkBlk 5 4 0].
Proof. split; [repeat constructor|vm_compute; auto]. Qed.
