(* Structs/OrphanProofs.v — the orphan pool model refines the set of stored
   blocks: invariants of {blocks, parents, leaders}, correctness of the
   breadth-first release loop. *)
From CKB Require Import Structs.AList Structs.AListProofs Structs.Orphan.

Local Notation lk := (alookup N.eqb).
Local Notation eqs := N.eqb_spec.

Lemma NoDup_app_intro {A} (a b : list A) :
  NoDup a -> NoDup b -> (forall x, In x a -> ~ In x b) -> NoDup (a ++ b).
Proof.
  induction a as [|x a IH]; cbn; [auto|].
  intros Ha Hb Hd. inversion Ha; subst. constructor.
  - intros H. apply in_app_iff in H. destruct H as [H|H]; [tauto|]. apply (Hd x); auto.
  - apply IH; auto.
Qed.
Lemma NoDup_app_l {A} (a b : list A) : NoDup (a ++ b) -> NoDup a.
Proof.
  induction a; cbn; intros H; [constructor|]. inversion H; subst. constructor; auto.
  intros X; apply H2. apply in_app_iff; auto.
Qed.
Lemma NoDup_app_notin {A} (a b : list A) x : NoDup (a ++ b) -> In x a -> ~ In x b.
Proof.
  induction a; cbn; [tauto|]. intros H [->|Hx] Hb; inversion H; subst.
  - apply H2. apply in_app_iff; auto.
  - eapply IHa; eauto.
Qed.
Lemma existsb_eqb_In x (l : list N) : existsb (N.eqb x) l = true <-> In x l.
Proof. exact (smem_In N.eqb eqs x l). Qed.
Lemma existsb_eqb_nIn x (l : list N) : existsb (N.eqb x) l = false <-> ~ In x l.
Proof. rewrite <- existsb_eqb_In. destruct (existsb _ l); split; congruence. Qed.

Section Inv.
  Variables par ep : N -> N.
  Hypothesis par_irrefl : forall x, par x <> x.

  Definition the_blk (h : N) : blk := mkBlk h (par h) (ep h).

  Record inv (p : pool) : Prop := {
    iA : forall ph ch, lk ph (blocks p) = Some ch ->
           ch <> [] /\ NoDup (map fst ch) /\
           forall h b, In (h, b) ch -> b = the_blk h /\ par h = ph /\ lk h (parents p) = Some ph;
    iB : forall h ph, lk h (parents p) = Some ph ->
           par h = ph /\ exists ch, lk ph (blocks p) = Some ch /\ In (h, the_blk h) ch;
    iC : forall l, In l (leaders p) <->
           (exists h, lk h (parents p) = Some l) /\ lk l (parents p) = None;
    iD : NoDup (leaders p) /\ NoDup (map fst (parents p)) /\ NoDup (map fst (blocks p)) }.

  Lemma inv_empty : inv empty_pool.
  Proof.
    split; cbn; try discriminate.
    - intros l. split; [tauto|]. intros [[h H] _]. discriminate.
    - repeat split; constructor.
  Qed.

  Lemma In_adelete {V} k (l : list (N * V)) x v :
    In (x, v) (adelete N.eqb k l) <-> In (x, v) l /\ x <> k.
  Proof.
    unfold adelete. rewrite filter_In. cbn. destruct (eqs k x); cbn; intuition congruence.
  Qed.

  Lemma insert_inv p b : inv p -> b = the_blk (b_id b) -> inv (insert p b).
  Proof.
    intros [A B C [D1 [D2 D3]]] Eb.
    set (h := b_id b) in *. set (ph := par h).
    assert (b_parent b = ph) as Eph by (rewrite Eb; reflexivity).
    unfold insert. fold h. rewrite Eph.
    set (ch := match lk ph (blocks p) with Some c => c | None => [] end).
    assert (Hch : ch = [] \/ lk ph (blocks p) = Some ch).
    { unfold ch. destruct (lk ph (blocks p)); auto. }
    assert (NDch : NoDup (map fst ch)).
    { destruct Hch as [->|E]; [constructor|]. apply (A _ _ E). }
    assert (Ach : forall h' b', In (h', b') ch -> b' = the_blk h' /\ par h' = ph /\ lk h' (parents p) = Some ph).
    { destruct Hch as [->|E]; [intros ? ? []|]. apply (A _ _ E). }
    split; cbn [blocks parents leaders].
    - (* A *)
      intros k c. rewrite (alookup_ainsert N.eqb eqs). destruct (eqs ph k) as [<-|Hk].
      + intros [= <-]. split; [discriminate|]. split; [now apply (NoDup_ainsert N.eqb eqs)|].
        intros h' b' [E|E].
        * injection E as <- <-. rewrite (alookup_ainsert N.eqb eqs), N.eqb_refl. auto.
        * apply In_adelete in E. destruct E as [E Hn].
          destruct (Ach _ _ E) as (? & ? & ?). repeat split; auto.
          rewrite (alookup_ainsert N.eqb eqs). destruct (eqs h h'); congruence.
      + intros E. destruct (A _ _ E) as (? & ? & Hel). repeat split; auto; try apply (Hel _ _ H1).
        destruct (Hel _ _ H1) as (_ & Hp & Hl).
        rewrite (alookup_ainsert N.eqb eqs). destruct (eqs h h0) as [<-|]; auto.
        exfalso. apply Hk. exact Hp.
    - (* B *)
      intros h' p'. rewrite (alookup_ainsert N.eqb eqs). destruct (eqs h h') as [<-|Hn].
      + intros [= <-]. split; [reflexivity|]. eexists. rewrite (alookup_ainsert N.eqb eqs), N.eqb_refl.
        split; [reflexivity|]. left. f_equal. exact Eb.
      + intros E. destruct (B _ _ E) as (Hp & c & Hc & Hin). split; auto.
        rewrite (alookup_ainsert N.eqb eqs). destruct (eqs ph p') as [<-|]; eauto.
        eexists; split; [reflexivity|]. right. apply In_adelete. split; auto.
        unfold ch. rewrite Hc. exact Hin.
    - (* C *)
      intros l.
      assert (HN : lk l (ainsert N.eqb h ph (parents p)) = None <-> l <> h /\ lk l (parents p) = None).
      { rewrite (alookup_ainsert N.eqb eqs). destruct (eqs h l); split; intros; intuition congruence. }
      assert (HE : (exists x, lk x (ainsert N.eqb h ph (parents p)) = Some l) <->
                   (l = ph \/ exists x, lk x (parents p) = Some l)).
      { split.
        - intros [x Hx]. rewrite (alookup_ainsert N.eqb eqs) in Hx. destruct (eqs h x); [left; congruence|right; eauto].
        - intros [->|[x Hx]].
          + exists h. now rewrite (alookup_ainsert N.eqb eqs), N.eqb_refl.
          + exists x. rewrite (alookup_ainsert N.eqb eqs). destruct (eqs h x) as [<-|]; auto.
            destruct (B _ _ Hx) as [Hp _]. fold ph in Hp. congruence. }
      rewrite HN, HE.
      destruct (amem N.eqb ph (parents p)) eqn:Em.
      + apply amem_true in Em. destruct Em as [v Ev].
        rewrite (In_sremove N.eqb eqs), C. split.
        * intros [[Hx Hl] Hn]. auto.
        * intros [[->|Hx] [Hn Hl]]; [congruence|auto].
      + apply amem_false in Em.
        rewrite (In_sinsert N.eqb eqs), (In_sremove N.eqb eqs), C. split.
        * intros [->|[[Hx Hl] Hn]]; auto. split; auto. split; auto. apply par_irrefl.
        * intros [[->|Hx] [Hn Hl]]; auto.
    - repeat split.
      + destruct (amem N.eqb ph (parents p)); [|apply (NoDup_sinsert N.eqb eqs)]; now apply (NoDup_sremove N.eqb).
      + now apply (NoDup_ainsert N.eqb eqs).
      + now apply (NoDup_ainsert N.eqb eqs).
  Qed.

  (* ---- the release loop ---------------------------------------------------- *)
  Definition kb (B : list (N * list (N * blk))) (d : N) : list blk :=
    match lk d B with Some ch => map snd ch | None => [] end.

  Section Bfs.
    Variable p : pool.
    Hypothesis Hinv : inv p.
    Variable ph : N.
    Hypothesis Hph : lk ph (parents p) = None.
    Let B0 := blocks p.
    Let P0 := parents p.

    Lemma kb_ids d : map b_id (kb B0 d) = match lk d B0 with Some ch => map fst ch | None => [] end.
    Proof.
      unfold kb. destruct (lk d B0) as [ch|] eqn:E; [|reflexivity].
      destruct (iA _ Hinv _ _ E) as (_ & _ & Hel).
      clear E. induction ch as [|[h b] ch IH]; cbn; [reflexivity|].
      f_equal.
      - destruct (Hel h b) as [-> _]; [now left|reflexivity].
      - apply IH. intros h' b' Hin. apply Hel. now right.
    Qed.

    Lemma kb_spec d b : In b (kb B0 d) <-> lk (b_id b) P0 = Some d /\ b = the_blk (b_id b).
    Proof.
      unfold kb. split.
      - destruct (lk d B0) as [ch|] eqn:E; [|intros []].
        intros Hin. apply in_map_iff in Hin. destruct Hin as [[h b'] [<- Hin]]. cbn.
        destruct (iA _ Hinv _ _ E) as (_ & _ & Hel). destruct (Hel _ _ Hin) as (-> & ? & ?). cbn. auto.
      - intros [Hl Hb]. destruct (iB _ Hinv _ _ Hl) as (_ & ch & Hc & Hin). fold B0 in Hc. rewrite Hc.
        apply in_map_iff. exists (b_id b, the_blk (b_id b)). split; [now rewrite <- Hb|exact Hin].
    Qed.

    Record binv (D q : list N) (bl : list (N * list (N * blk))) (pa : list (N * N)) (rem : list blk) : Prop := {
      b1 : D ++ q = ph :: map b_id rem;
      b2 : rem = flat_map (kb B0) D;
      b3 : NoDup (D ++ q);
      b4 : forall k, lk k bl = if existsb (N.eqb k) D then None else lk k B0;
      b5 : forall k, lk k pa = if existsb (N.eqb k) (map b_id rem) then None else lk k P0;
      b6 : parents_first ph rem;
      b7 : NoDup (map fst bl) /\ NoDup (map fst pa) }.

    Lemma binv_init : binv [] [ph] B0 P0 [].
    Proof.
      split; cbn; auto.
      - repeat constructor. tauto.
      - intros r1 b r2 H. destruct r1; discriminate.
      - split; apply (iD _ Hinv).
    Qed.

    Lemma rem_stored D rem b : rem = flat_map (kb B0) D -> In b rem ->
      exists d, In d D /\ lk (b_id b) P0 = Some d /\ b = the_blk (b_id b).
    Proof.
      intros -> Hin. apply in_flat_map in Hin. destruct Hin as [d [Hd Hb]].
      apply kb_spec in Hb. exists d. tauto.
    Qed.

    Lemma binv_step_none D r q bl pa rem :
      binv D (r :: q) bl pa rem -> lk r bl = None -> binv (D ++ [r]) q bl pa rem.
    Proof.
      intros [h1 h2 h3 h4 h5 h6 h7] Hn.
      assert (Hr : ~ In r D).
      { intros X. eapply (NoDup_app_notin D (r :: q)); eauto. now left. }
      assert (Hk : kb B0 r = []).
      { unfold kb. rewrite h4 in Hn. apply existsb_eqb_nIn in Hr. rewrite Hr in Hn. now rewrite Hn. }
      split; auto.
      - now rewrite <- app_assoc.
      - rewrite flat_map_app. cbn. now rewrite Hk, !app_nil_r.
      - now rewrite <- app_assoc.
      - intros k. rewrite existsb_app. cbn. rewrite orb_false_r.
        destruct (existsb (N.eqb k) D) eqn:E; cbn; [now rewrite h4, E|].
        destruct (eqs k r) as [->|]; [exact Hn|]. now rewrite h4, E.
    Qed.

    Lemma binv_step_some D r q bl pa rem orphaned :
      binv D (r :: q) bl pa rem -> lk r bl = Some orphaned ->
      binv (D ++ [r]) (q ++ map fst orphaned) (adelete N.eqb r bl)
           (adelete_all N.eqb (map fst orphaned) pa) (rem ++ map snd orphaned).
    Proof.
      intros [h1 h2 h3 h4 h5 h6 h7] Hs.
      assert (Hr : ~ In r D).
      { intros X. eapply (NoDup_app_notin D (r :: q)); eauto. now left. }
      assert (Hs0 : lk r B0 = Some orphaned).
      { rewrite h4 in Hs. apply existsb_eqb_nIn in Hr. now rewrite Hr in Hs. }
      assert (Hk : kb B0 r = map snd orphaned) by (unfold kb; now rewrite Hs0).
      assert (Hids : map b_id (map snd orphaned) = map fst orphaned).
      { rewrite <- Hk, kb_ids. now rewrite Hs0. }
      destruct (iA _ Hinv _ _ Hs0) as (_ & NDo & Hel).
      assert (Hkid : forall x, In x (map fst orphaned) -> lk x P0 = Some r).
      { intros x Hx. apply in_map_iff in Hx. destruct Hx as [[h b] [<- Hin]]. apply (Hel _ _ Hin). }
      split.
      - rewrite <- !app_assoc. cbn. rewrite map_app, Hids.
        change (ph :: map b_id rem ++ map fst orphaned) with ((ph :: map b_id rem) ++ map fst orphaned).
        rewrite <- h1. now rewrite <- app_assoc.
      - rewrite flat_map_app. cbn. now rewrite Hk, app_nil_r, <- h2.
      - rewrite <- app_assoc. cbn. rewrite app_comm_cons, app_assoc.
        apply NoDup_app_intro; auto.
        intros x Hx Hkx. rewrite h1 in Hx. specialize (Hkid _ Hkx). destruct Hx as [<-|Hx].
        + fold P0 in Hph. congruence.
        + apply in_map_iff in Hx. destruct Hx as [b [<- Hb]].
          destruct (rem_stored _ _ _ h2 Hb) as (d & Hd & Hl & _). congruence.
      - intros k. rewrite (alookup_adelete N.eqb eqs), existsb_app. cbn. rewrite orb_false_r.
        destruct (eqs r k) as [<-|Hn].
        + rewrite N.eqb_refl, orb_true_r. reflexivity.
        + rewrite h4. destruct (eqs k r); [congruence|]. now rewrite orb_false_r.
      - intros k. rewrite (alookup_adelete_all N.eqb eqs), map_app, existsb_app, Hids, h5.
        destruct (existsb (N.eqb k) (map b_id rem)), (existsb (N.eqb k) (map fst orphaned)); reflexivity.
      - intros r1 b r2 Heq. apply app_eq_app in Heq. destruct Heq as [l [[E1 E2]|[E1 E2]]].
        + (* b lies in the new part *)
          destruct l as [|b' l].
          * rewrite app_nil_r in E1. cbn in E2. subst r1.
            assert (In b (map snd orphaned)) as Hb by (rewrite <- E2; now left).
            rewrite <- Hk in Hb. apply kb_spec in Hb. destruct Hb as [Hl Hb].
            assert (b_parent b = r) as Hpr.
            { destruct (iB _ Hinv _ _ Hl) as [Hp _]. rewrite Hb. exact Hp. }
            rewrite Hpr. assert (In r (D ++ r :: q)) as Hin by (apply in_app_iff; right; now left).
            rewrite h1 in Hin. destruct Hin as [->|Hin]; auto.
          * cbn in E2. injection E2 as <- E2. apply (h6 r1 b l). exact E1.
        + (* b lies in the old part: r1 = rem ++ l *)
          subst r1. assert (In b (map snd orphaned)) as Hb by (rewrite E2; apply in_app_iff; right; now left).
          rewrite <- Hk in Hb. apply kb_spec in Hb. destruct Hb as [Hl Hb].
          assert (b_parent b = r) as Hpr.
          { destruct (iB _ Hinv _ _ Hl) as [Hp _]. rewrite Hb. exact Hp. }
          rewrite Hpr. assert (In r (D ++ r :: q)) as Hin by (apply in_app_iff; right; now left).
          rewrite h1 in Hin. destruct Hin as [->|Hin]; auto.
          right. rewrite map_app, in_app_iff. auto.
      - destruct h7. split; [now apply (NoDup_adelete N.eqb eqs)|now apply (NoDup_adelete_all N.eqb eqs)].
    Qed.

    Lemma binv_bound D q bl pa rem : binv D q bl pa rem -> length D + length q <= S (length P0).
    Proof.
      intros [h1 h2 h3 h4 h5 h6 h7].
      rewrite <- app_length, h1. cbn. apply le_n_S. rewrite <- (map_length b_id rem), <- (map_length fst P0).
      apply NoDup_incl_length.
      - rewrite h1 in h3. now inversion h3.
      - intros x Hx. apply in_map_iff in Hx. destruct Hx as [b [<- Hb]].
        destruct (rem_stored _ _ _ h2 Hb) as (d & _ & Hl & _).
        destruct (in_dec N.eq_dec (b_id b) (map fst P0)) as [|Hn]; auto.
        apply (alookup_None N.eqb eqs) in Hn. congruence.
    Qed.

    Lemma bfs_final fuel : forall D q bl pa rem,
      binv D q bl pa rem -> length P0 + 2 <= length D + fuel ->
      exists D', match bfs fuel q bl pa rem with (bl', pa', rem') => binv D' [] bl' pa' rem' end.
    Proof.
      induction fuel as [|f IH]; intros D q bl pa rem Hb Hf.
      - pose proof (binv_bound _ _ _ _ _ Hb). lia.
      - cbn. destruct q as [|r q].
        + exists D. exact Hb.
        + destruct (lk r bl) as [orphaned|] eqn:E.
          * apply (IH (D ++ [r])); [now apply binv_step_some|]. rewrite app_length. cbn. lia.
          * apply (IH (D ++ [r])); [now apply binv_step_none|]. rewrite app_length. cbn. lia.
    Qed.
  End Bfs.
End Inv.
