#!/bin/bash
# Builds the whole framework from files on disk (offline): translators ->
# coq/gen, the Coq development, the harness workspace.
set -u
cd "$(dirname "$0")"
export CARGO_NET_OFFLINE=true
mkdir -p work evidence replays coq/out coq/gen
python3 tools/translate_all.py || echo "setup: translators reported a problem (checks will report it)"
python3 tools/mkcoqproject.py
( cd coq && coq_makefile -f _CoqProject -o Makefile > /dev/null && timeout 3000 make -j16 2>&1 | tail -5 )
cp -n /repo/Cargo.lock harness/Cargo.lock 2>/dev/null
python3 tools/mkworkspace.py
( cd harness && timeout 5000 cargo build --release --offline --workspace 2>&1 | tail -3 )
exit 0
