#!/bin/bash
# locked_check.sh <Cxx> [args…] — ./check while holding the /repo coordination lock (nobody patches /repo meanwhile)
until mkdir /tmp/repo.lock 2>/dev/null; do sleep 10; done
trap 'rmdir /tmp/repo.lock' EXIT
if [ -n "$(git -C /repo status --short)" ]; then echo "locked_check: /repo is not clean:"; git -C /repo status --short; fi
cd /verif && ./check "$@"
