#!/usr/bin/env python3
"""tools/rs2v.py <property> — translates a whitelist of tiny pure integer
functions of /repo from their Rust text into monadic Gallina
(coq/gen/Rs<property>.v): u64 `+ - * / %` become the checked operations of
Arith/U.v (None = panic, overflow-checks are on), comparisons become N
comparisons, `&&`/`||` short-circuit, `cmp::min/max`, `let`, `if/else if/else`,
tuples, method calls through a per-function table.  Hand-written lemmas
(coq/Arith/RsProofs.v) prove every translated function equal to the hand model,
so a flipped comparison / changed operator in the Rust text breaks a proof.

Accepted subset only; when a whitelisted function no longer parses the
translator writes a fallback definition (the hand model itself, marked
`rs2v_fallback`) and exits 0: the correspondence harness is then the only tie
for that function (DESIGN.md section 3).  The output file is rewritten only
when its content changed.
"""
import os, re, sys

REPO = os.environ.get("VERIF_REPO", "/repo")
ROOT = os.path.dirname(os.path.dirname(os.path.abspath(__file__)))


class Fail(Exception):
    pass


TOK = re.compile(r"\s*(0x[0-9a-fA-F_]+|[0-9][0-9_]*(?:u8|u16|u32|u64|usize)?|[A-Za-z_]\w*(?:::[A-Za-z_]\w*)*|"
                 r"==|!=|<=|>=|&&|\|\||<<|>>|[-+*/%<>!(){},;=.&|^:])")


def tokenize(s):
    s = "\n".join(re.sub(r"//.*$", "", l) for l in s.split("\n")).strip()
    out, i = [], 0
    while i < len(s):
        m = TOK.match(s, i)
        if not m:
            raise Fail(f"cannot tokenize at {s[i:i+30]!r}")
        out.append(m.group(1))
        i = m.end()
    return out


def fn_source(path, name):
    txt = open(path).read()
    m = re.search(r"\bfn\s+" + re.escape(name) + r"\s*\(", txt)
    if not m:
        raise Fail(f"fn {name} not found in {path}")
    i = txt.index("{", m.end())
    # the parameter list / return type must not contain braces
    depth, j = 0, i
    while True:
        if txt[j] == "{":
            depth += 1
        elif txt[j] == "}":
            depth -= 1
            if depth == 0:
                break
        j += 1
    line = txt.count("\n", 0, m.start()) + 1
    return txt[i:j + 1], line


class Parser:
    PREC = [("||",), ("&&",), ("==", "!=", "<", ">", "<=", ">="), ("|",), ("^",), ("&",), ("<<", ">>"), ("+", "-"), ("*", "/", "%")]

    def __init__(self, toks):
        self.t, self.i = toks, 0

    def peek(self, k=0):
        return self.t[self.i + k] if self.i + k < len(self.t) else None

    def take(self, x=None):
        tok = self.peek()
        if tok is None or (x is not None and tok != x):
            raise Fail(f"expected {x!r}, found {tok!r}")
        self.i += 1
        return tok

    def block(self):
        self.take("{")
        lets = []
        while self.peek() == "let":
            self.take()
            if self.peek() == "mut":
                raise Fail("let mut")
            name = self.take()
            if self.peek() == ":":
                self.take(); self.take()
            self.take("=")
            e = self.expr()
            self.take(";")
            lets.append((name, e))
        e = self.expr()
        self.take("}")
        return ("block", lets, e)

    def expr(self, lvl=0):
        if self.peek() == "if":
            return self.ifexpr()
        if lvl == len(self.PREC):
            return self.unary()
        lhs = self.expr(lvl + 1)
        while self.peek() in self.PREC[lvl]:
            # `{` after a comparison operand ends an `if` condition; nothing to do
            op = self.take()
            rhs = self.expr(lvl + 1)
            lhs = ("bin", op, lhs, rhs)
        return lhs

    def ifexpr(self):
        self.take("if")
        c = self.expr()
        th = self.block()
        self.take("else")
        el = self.ifexpr() if self.peek() == "if" else self.block()
        return ("if", c, th, el)

    def unary(self):
        if self.peek() == "!":
            self.take()
            return ("not", self.unary())
        return self.postfix()

    def args(self):
        self.take("(")
        a = []
        while self.peek() != ")":
            a.append(self.expr())
            if self.peek() == ",":
                self.take()
        self.take(")")
        return a

    def postfix(self):
        e = self.primary()
        while self.peek() == ".":
            self.take()
            name = self.take()
            if self.peek() == "(":
                e = ("method", e, name, self.args())
            else:
                raise Fail(f"field access .{name}")
        return e

    def primary(self):
        tok = self.take()
        if tok == "(":
            es = [self.expr()]
            while self.peek() == ",":
                self.take()
                es.append(self.expr())
            self.take(")")
            return es[0] if len(es) == 1 else ("tuple", es)
        if re.match(r"0x", tok):
            return ("num", int(re.sub(r"(u8|u16|u32|u64|usize)$", "", tok.replace("_", "")), 16))
        if tok[0].isdigit():
            return ("num", int(re.sub(r"(u8|u16|u32|u64|usize)$", "", tok.replace("_", ""))))
        if tok in ("true", "false"):
            return ("bool", tok)
        if re.match(r"[A-Za-z_]", tok):
            if self.peek() == "(":
                return ("call", tok, self.args())
            return ("var", tok)
        raise Fail(f"unexpected token {tok!r}")


class Emit:
    def __init__(self, cfg):
        self.cfg, self.n = cfg, 0

    def tmp(self):
        self.n += 1
        return f"t{self.n}"

    def block(self, b, k):
        _, lets, e = b
        if not lets:
            return self.comp(e, k)
        (name, init), rest = lets[0], ("block", lets[1:], e)
        return self.comp(init, lambda x: f"let {name} := {x} in\n  {self.block(rest, k)}")

    def comp(self, e, k):
        kind = e[0]
        if kind == "num":
            return k(str(e[1]))
        if kind == "bool":
            return k(e[1])
        if kind == "var":
            v = self.cfg["vars"].get(e[1], e[1])
            return k(v)
        if kind == "tuple":
            def go(es, acc):
                if not es:
                    return k("(" + ", ".join(acc) + ")")
                return self.comp(es[0], lambda x: go(es[1:], acc + [x]))
            return go(e[1], [])
        if kind == "not":
            return self.comp(e[1], lambda x: k(f"(negb {x})"))
        if kind == "block":
            return self.block(e, k)
        if kind == "if":
            return self.comp(e[1], lambda c: f"(if {c} then {self.comp(e[2], k)}\n   else {self.comp(e[3], k)})")
        if kind == "method":
            recv, name, args = e[1], e[2], e[3]
            if args:
                raise Fail(f"method {name} with arguments")
            key = (recv[1] if recv[0] == "var" else None, name)
            if key in self.cfg["methods"]:
                return k(self.cfg["methods"][key])
            if (None, name) in self.cfg["methods"] and recv[0] == "var":
                return k("(" + self.cfg["methods"][(None, name)] + " " + self.cfg["vars"].get(recv[1], recv[1]) + ")")
            raise Fail(f"method {name} of {recv}")
        if kind == "call":
            f, args = e[1], e[2]
            if f in ("cmp::min", "cmp::max", "std::cmp::min", "std::cmp::max") and len(args) == 2:
                g = "N.min" if f.endswith("min") else "N.max"
                return self.comp(args[0], lambda x: self.comp(args[1], lambda y: k(f"({g} {x} {y})")))
            raise Fail(f"call {f}")
        if kind == "bin":
            op, a, b = e[1], e[2], e[3]
            if op == "&&":
                return self.comp(a, lambda x: f"(if {x} then {self.comp(b, k)} else {k('false')})")
            if op == "||":
                return self.comp(a, lambda x: f"(if {x} then {k('true')} else {self.comp(b, k)})")
            arith = {"+": "add64", "-": "sub64", "*": "mul64", "/": "div64", "%": "rem64", "<<": "shl64", ">>": "shr64"}
            if op in arith:
                def fin(x, y):
                    t = self.tmp()
                    return f"{t} <- {arith[op]} {x} {y} ;;\n  {k(t)}"
                return self.comp(a, lambda x: self.comp(b, lambda y: fin(x, y)))
            cmpo = {"==": lambda x, y: f"({x} =? {y})", "!=": lambda x, y: f"(negb ({x} =? {y}))",
                    "<": lambda x, y: f"({x} <? {y})", ">": lambda x, y: f"({y} <? {x})",
                    "<=": lambda x, y: f"({x} <=? {y})", ">=": lambda x, y: f"({y} <=? {x})"}
            if op in cmpo:
                return self.comp(a, lambda x: self.comp(b, lambda y: k(cmpo[op](x, y))))
            raise Fail(f"operator {op}")
        raise Fail(f"node {kind}")


WHITELIST = {
    "C07": [
        {"coq": "rs_bounding_epoch_length", "file": "spec/src/consensus.rs", "fn": "bounding_epoch_length",
         "params": "(max_epoch_length min_epoch_length tau length last_epoch_length : N)", "ret": "option (N * bool)",
         "vars": {"TAU": "tau"},
         "methods": {("self", "max_epoch_length"): "max_epoch_length", ("self", "min_epoch_length"): "min_epoch_length"},
         "fallback": "bounding_epoch_length (mkParams tau min_epoch_length max_epoch_length 0 rat_zero 0 0 0) length last_epoch_length"},
        {"coq": "rs_is_successor_of", "file": "util/types/src/core/extras.rs", "fn": "is_successor_of",
         "params": "(self predecessor : N)", "ret": "option bool", "vars": {},
         "methods": {(None, "number"): "enf_number", (None, "index"): "enf_index", (None, "length"): "enf_length"},
         "fallback": "Some (enf_is_successor_of self predecessor)"},
        {"coq": "rs_is_well_formed", "file": "util/types/src/core/extras.rs", "fn": "is_well_formed",
         "params": "(self : N)", "ret": "option bool", "vars": {},
         "methods": {(None, "number"): "enf_number", (None, "index"): "enf_index", (None, "length"): "enf_length"},
         "fallback": "Some (enf_is_well_formed self)"},
    ],
}


def main():
    pid = sys.argv[1] if len(sys.argv) > 1 else "C07"
    lines = [f"(* coq/gen/Rs{pid}.v — GENERATED by tools/rs2v.py from the Rust source of /repo; do not edit. *)",
             "From CKB Require Import Arith.U Arith.Rational Arith.Epoch Arith.EpochExt.", "Local Open Scope N_scope.", ""]
    fallbacks = []
    for cfg in WHITELIST[pid]:
        path = os.path.join(REPO, cfg["file"])
        try:
            src, line = fn_source(path, cfg["fn"])
            p = Parser(tokenize(src))
            body = p.block()
            if p.peek() is not None:
                raise Fail("trailing tokens")
            term = Emit(cfg).block(body, lambda a: f"Some {a}")
            lines.append(f"(* {cfg['file']}:{line}  fn {cfg['fn']} *)")
            lines.append(f"Definition {cfg['coq']} {cfg['params']} : {cfg['ret']} :=\n  {term}.")
        except Fail as e:
            fallbacks.append(f"{cfg['fn']}: {e}")
            lines.append(f"(* rs2v_fallback: {cfg['file']} fn {cfg['fn']} is outside the accepted subset ({e}); hand model used *)")
            lines.append(f"Definition {cfg['coq']} {cfg['params']} : {cfg['ret']} :=\n  {cfg['fallback']}.")
        lines.append("")
    txt = "\n".join(lines)
    out = os.path.join(ROOT, "coq", "gen", f"Rs{pid}.v")
    os.makedirs(os.path.dirname(out), exist_ok=True)
    if not os.path.exists(out) or open(out).read() != txt:
        open(out, "w").write(txt)
        print(f"rs2v: wrote {out}")
    else:
        print(f"rs2v: {out} unchanged")
    for f in fallbacks:
        print(f"rs2v_fallback: {f}")


if __name__ == "__main__":
    main()
