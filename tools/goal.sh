#!/bin/bash
# usage: goal.sh File.v LINE  — show goals after LINE lines of File.v (debug helper)
f=$1; n=$2
d=$(dirname $f); b=$(basename $f .v)
head -n $n $f > $d/zz_tmp_$b.v
echo "Show. Abort All." >> $d/zz_tmp_$b.v
(cd /verif/coq && timeout 120 coqc -Q . CKB ${f%/*}/zz_tmp_$b.v 2>&1 | tail -${3:-40})
rm -f $d/zz_tmp_$b.* $d/.zz_tmp_$b.aux
