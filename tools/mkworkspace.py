#!/usr/bin/env python3
"""Writes harness/Cargo.toml with the member crates that exist right now
(every harness/hx-*/ that has a Cargo.toml); rewrites only on change."""
import glob, os
ROOT = os.path.dirname(os.path.dirname(os.path.abspath(__file__)))
H = os.path.join(ROOT, "harness")
members = sorted(os.path.basename(os.path.dirname(p)) for p in glob.glob(os.path.join(H, "hx-*", "Cargo.toml"))
                 if os.path.exists(os.path.join(os.path.dirname(p), "src", "main.rs"))
                 or os.path.exists(os.path.join(os.path.dirname(p), "src", "lib.rs")))
txt = """[workspace]
resolver = "2"
members = [%s]

[profile.release]
overflow-checks = true
debug-assertions = false
opt-level = 2
debug = false
incremental = true

[profile.dev]
debug = false
""" % ", ".join('"%s"' % m for m in members)
p = os.path.join(H, "Cargo.toml")
if not os.path.exists(p) or open(p).read() != txt:
    open(p, "w").write(txt)
