#!/usr/bin/env python3
"""tools/pin.py Cxx — (re)pins the statements of coq/Props/Cxx.v. Run it only
when a statement was changed on purpose (strengthened, or a new theorem)."""
import os, sys
ROOT = os.path.dirname(os.path.dirname(os.path.abspath(__file__)))
sys.path.insert(0, os.path.join(ROOT, "tools"))
import vcheck
for pid in sys.argv[1:]:
    h = vcheck.pin_hash(pid)
    open(os.path.join(ROOT, "tools", "pins", pid + ".sha256"), "w").write(h + "\n")
    print(pid, h)
