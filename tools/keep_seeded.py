#!/usr/bin/env python3
"""keep_seeded.py <id> <name> <caught:yes|no> <note...> — copies a confirmed seeded change from
/tmp/mut/<id>.out into /verif/seeded/<id>[-<name>]/ and records what was run."""
import json, os, shutil, sys
i, name, caught = sys.argv[1], sys.argv[2], sys.argv[3]
note = " ".join(sys.argv[4:])
src = f"/tmp/mut/{name}.out"
dst = f"/verif/seeded/{name}"
os.makedirs(dst, exist_ok=True)
for f in ("patch.diff", "demo.diff"):
    shutil.copy(os.path.join(src, f), os.path.join(dst, f))
m = json.load(open(os.path.join(src, "meta.json")))
m["property"] = i
m["confirmed_by_coordinator"] = "tools/confirm_seeded.sh: with the change the crate's existing tests pass and the demonstration fails; without it the demonstration passes"
m["check_result"] = {"caught": caught == "yes", "note": note}
json.dump(m, open(os.path.join(dst, "meta.json"), "w"), indent=1)
print("kept", dst)
