#!/usr/bin/env python3
"""tools/since2v.py — regenerates coq/gen/SinceParams.v from /repo's Rust source:

  verification/src/transaction_verifier.rs   LOCK_TYPE_FLAG, METRIC_TYPE_FLAG_MASK, VALUE_MASK,
                                             REMAIN_FLAGS_BITS, the three metric tags matched in
                                             Since::extract_metric and the timestamp multiplier
  util/types/src/core/extras.rs              EpochNumberWithFraction::{NUMBER,INDEX,LENGTH}_{OFFSET,BITS}
  util/types/src/core/cell.rs                MAX_DEP_EXPANSION_LIMIT

The side conditions the theorems need (RFC-17 layout of the masks, 24/16/16 epoch layout) are
re-proved over the generated constants in coq/Arith/SinceProofs.v, so a changed constant breaks a
proof obligation.  Fails closed (exit 1) when a constant can no longer be found.
python3 stdlib only; the output file is rewritten only when its content changed."""
import os, re, sys

REPO = os.environ.get("VERIF_REPO", "/repo")
ROOT = os.path.dirname(os.path.dirname(os.path.abspath(__file__)))
OUT = os.path.join(ROOT, "coq", "gen", "SinceParams.v")


def strip_rust_comments(s):
    s = re.sub(r"/\*.*?\*/", "", s, flags=re.S)
    return re.sub(r"//[^\n]*", "", s)


def intlit(tok):
    tok = tok.replace("_", "").strip()
    tok = re.sub(r"(u64|usize|u32|u8)$", "", tok)
    return int(tok, 0)


def const_expr(expr, env):
    """tiny evaluator: literals, `a << b`, `a - b`, `a + b`, names (Self::X), parentheses"""
    e = expr.strip()
    e = re.sub(r"Self::", "", e)
    e = re.sub(r"\b(0x[0-9a-fA-F_]+|[0-9][0-9_]*)(u64|usize|u32|u8)?\b", lambda m: str(intlit(m.group(0))), e)
    if not re.fullmatch(r"[\w\s()<>+\-*]+", e):
        raise ValueError("unsupported constant expression: " + expr)
    for name in sorted(env, key=len, reverse=True):
        e = re.sub(r"\b%s\b" % re.escape(name), str(env[name]), e)
    if re.search(r"[A-Za-z_]", e):
        raise ValueError("unresolved name in constant expression: " + expr + " -> " + e)
    return int(eval(e, {"__builtins__": {}}, {}))


def main():
    problems = []
    out = {}
    prov = {}

    def grab_consts(path, names, scope_env=None):
        src_full = open(os.path.join(REPO, path)).read()
        src = strip_rust_comments(src_full)
        env = dict(scope_env or {})
        for m in re.finditer(r"\bconst\s+([A-Z_0-9]+)\s*:\s*(u64|usize)\s*=\s*([^;]+);", src):
            try:
                env[m.group(1)] = const_expr(m.group(3), env)
            except Exception:
                pass
        for n in names:
            if n not in env:
                problems.append(f"{path}: constant {n} not found / not evaluable")
                continue
            out[n] = env[n]
            line = next((i + 1 for i, l in enumerate(src_full.splitlines()) if re.search(r"\bconst\s+%s\b" % n, l)), 0)
            prov[n] = f"{path}:{line}"
        return src

    tv = "verification/src/transaction_verifier.rs"
    src = grab_consts(tv, ["LOCK_TYPE_FLAG", "METRIC_TYPE_FLAG_MASK", "VALUE_MASK", "REMAIN_FLAGS_BITS"])
    # Since::extract_metric: the match arms and the multiplier
    m = re.search(r"fn\s+extract_metric\s*\(\s*self\s*\)[^{]*\{(.*?)\n    \}", src, re.S)
    if not m:
        problems.append(f"{tv}: Since::extract_metric not found")
    else:
        body = m.group(1)
        arms = re.findall(r"(0x[0-9a-fA-F_]+)\s*=>\s*Some\(\s*SinceMetric::(\w+)\(", body)
        tags = {name: intlit(lit) for lit, name in arms}
        for rust, coqn in (("BlockNumber", "TAG_BLOCK_NUMBER"), ("EpochNumberWithFraction", "TAG_EPOCH"), ("Timestamp", "TAG_TIMESTAMP")):
            if rust not in tags:
                problems.append(f"{tv}: extract_metric has no arm for SinceMetric::{rust}")
            else:
                out[coqn] = tags[rust]
                prov[coqn] = f"{tv}: extract_metric arm {rust}"
        mm = re.search(r"SinceMetric::Timestamp\(\s*value\s*(?:\*|\.\w+\()\s*([0-9_]+)", body)
        if not mm:
            problems.append(f"{tv}: timestamp multiplier not found in extract_metric")
        else:
            out["TIMESTAMP_MULTIPLIER"] = intlit(mm.group(1))
            prov["TIMESTAMP_MULTIPLIER"] = f"{tv}: extract_metric"
        mv = re.search(r"let\s+value\s*=\s*self\.0\s*&\s*(\w+)\s*;", body)
        mt = re.search(r"match\s+self\.0\s*&\s*(\w+)\s*\{", body)
        if not (mv and mv.group(1) == "VALUE_MASK"):
            problems.append(f"{tv}: extract_metric no longer masks the value with VALUE_MASK")
        if not (mt and mt.group(1) == "METRIC_TYPE_FLAG_MASK"):
            problems.append(f"{tv}: extract_metric no longer matches on self.0 & METRIC_TYPE_FLAG_MASK")

    grab_consts("util/types/src/core/extras.rs",
                ["NUMBER_OFFSET", "NUMBER_BITS", "INDEX_OFFSET", "INDEX_BITS", "LENGTH_OFFSET", "LENGTH_BITS"])
    for k in ("NUMBER_OFFSET", "NUMBER_BITS", "INDEX_OFFSET", "INDEX_BITS", "LENGTH_OFFSET", "LENGTH_BITS"):
        if k in out:
            out["EPOCH_" + k] = out.pop(k)
            prov["EPOCH_" + k] = prov.pop(k)
    grab_consts("util/types/src/core/cell.rs", ["MAX_DEP_EXPANSION_LIMIT"])

    if problems:
        for p in problems:
            print("since2v: " + p)
        # fail closed: remove nothing, but signal the driver
        sys.exit(1)

    lines = ["(* GENERATED by tools/since2v.py from /repo — do not edit. *)",
             "From Coq Require Import NArith.", "Local Open Scope N_scope.", ""]
    for k in sorted(out):
        lines.append(f"(* {prov[k]} *)")
        lines.append(f"Definition {k} : N := {out[k]}.")
    txt = "\n".join(lines) + "\n"
    os.makedirs(os.path.dirname(OUT), exist_ok=True)
    if not os.path.exists(OUT) or open(OUT).read() != txt:
        open(OUT, "w").write(txt)
        print("since2v: wrote", OUT)
    else:
        print("since2v: unchanged")


if __name__ == "__main__":
    main()
