#!/usr/bin/env python3
"""Runs every translator once (setup): regenerates coq/gen/*.v from /repo."""
import os, sys, subprocess
ROOT = os.path.dirname(os.path.dirname(os.path.abspath(__file__)))
sys.path.insert(0, os.path.join(ROOT, "tools"))
import registry
seen, rc = set(), 0
for pid, spec in registry.PROPS.items():
    for tr in spec.get("translators", []):
        key = tuple(tr)
        if key in seen:
            continue
        seen.add(key)
        r = subprocess.run([sys.executable, os.path.join(ROOT, "tools", tr[0])] + tr[1:], cwd=ROOT)
        rc |= r.returncode
sys.exit(rc)
