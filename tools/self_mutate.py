#!/usr/bin/env python3
"""self_mutate.py [name…] — applies each listed one-line mutation to /repo under the coordination lock,
saves its diff to seeded/self/<name>.diff, runs the named checks, reverts, and records the verdicts in
seeded/self/results.json.  These are the coordinator's own mutations (no demonstration test), kept as
evidence of what the checks see; the independent ones are seeded/<id>/."""
import json, os, subprocess, sys, time
M = [
 ("c20_finalize_end_excluded", ["C20"], "util/proposal-table/src/lib.rs", "Bound::Included(&proposal_end),", "Bound::Excluded(&proposal_end),"),
 ("c20_reload_misses_common", ["C20"], "chain/src/verify.rs", "for bn in proposal_start..=common {", "for bn in proposal_start..common {"),
 ("c01_tie_switches", ["C01"], "chain/src/verify.rs", "cannon_total_difficulty > current_total_difficulty;", "cannon_total_difficulty >= current_total_difficulty;"),
 ("c02_detach_keeps_uncle_index", ["C02"], "store/src/transaction.rs", "            self.delete(COLUMN_UNCLES, uncle.hash().as_slice())?;", "            let _ = &uncle;"),
 ("c03_uncle_double_inclusion_in_block", ["C03"], "verification/contextual/src/uncles_verifier.rs", "if included.contains_key(&uncle.hash()) {", "if false && included.contains_key(&uncle.hash()) {"),
 ("c03_median_lower", ["C03"], "traits/src/header_provider.rs", "timestamps[timestamps.len() >> 1]", "timestamps[(timestamps.len() - 1) >> 1]"),
 ("c08_no_startup_recovery", ["C08"], "chain/src/init_load_unverified.rs", "        self.find_and_verify_unverified_blocks();\n", "        if false { self.find_and_verify_unverified_blocks(); }\n"),
 ("c10_wipe_next_number", ["C10"], "shared/src/shared.rs", "batch.delete_block_body(*number, hash, *txs)", "batch.delete_block_body(*number + 1, hash, *txs)"),
 ("c10_freeze_without_final_sync", ["C10"], "freezer/src/freezer.rs", "        guard.files.sync_all().map_err(internal_error)?;\n        Ok(ret)\n    }", "        Ok(ret)\n    }"),
 ("c10_wipe_leaves_last_tx", ["C10"], "shared/src/shared.rs", "batch.delete_block_body(*number, hash, *txs)", "batch.delete_block_body(*number, hash, txs.saturating_sub(1))"),
 ("c03_allowed_future_16s", ["C03"], "verification/src/lib.rs", "pub const ALLOWED_FUTURE_BLOCKTIME: u64 = 15 * 1000;", "pub const ALLOWED_FUTURE_BLOCKTIME: u64 = 16 * 1000;"),
 ("c10_max_freeze_limit", ["C10"], "shared/src/shared.rs", "const MAX_FREEZE_LIMIT: BlockNumber = 30_000;", "const MAX_FREEZE_LIMIT: BlockNumber = 3;"),
 ("c10_threshold_one_epoch_later", ["C10"], "shared/src/shared.rs", ".get_epoch_index(current_epoch + 1 - THRESHOLD_EPOCH)", ".get_epoch_index(current_epoch + 2 - THRESHOLD_EPOCH)"),
]
REV = [  # reverting a fix commit (path restricted)
 ("c09_revert_f12", ["C09"], "524040d", "freezer/src/freezer_files.rs"),
 ("c09_revert_f1", ["C09"], "eb5b786", "freezer/src/freezer_files.rs"),
 ("c10_revert_f11", ["C10"], "71875e4", "store/src/store.rs"),
 ("c16_revert_uncles_verifier", ["C16"], "2db54f8", "sync/src/relayer/block_uncles_verifier.rs"),
 ("c19_revert_lc_genesis", ["C19"], "56ce3d7", "util/light-client-protocol-server/src/lib.rs"),
 ("c19_revert_lc_start", ["C19"], "505c2ec", "util/light-client-protocol-server/src/components/get_last_state_proof.rs"),
 ("c19_revert_lc_dup", ["C19"], "4be289c", "util/light-client-protocol-server/src/components/get_transactions_proof.rs"),
]
def sh(cmd, **kw): return subprocess.run(cmd, shell=True, capture_output=True, text=True, **kw)
def lock():
    while True:
        try: os.mkdir("/tmp/repo.lock"); return
        except FileExistsError: time.sleep(15)
def unlock(): os.rmdir("/tmp/repo.lock")
def run_checks(checks):
    res = {}
    for c in checks:
        r = sh(f"cd /verif && ./check {c}")
        lines = [l for l in r.stdout.splitlines() if l.startswith(("OK ", "VIOLATION"))]
        res[c] = {"exit": r.returncode, "line": lines[-1] if lines else r.stdout[-300:]}
        sh(f"git -C /verif checkout -- evidence/{c}.json")   # the evidence of a mutated tree is not kept
    return res
def main():
    want = set(sys.argv[1:])
    out_p = "/verif/seeded/self/results.json"
    results = json.load(open(out_p)) if os.path.exists(out_p) else {}
    for name, checks, path, old, new in M:
        if want and name not in want: continue
        lock()
        try:
            if sh("git -C /repo status --short").stdout.strip(): print("repo not clean, skipping", name); continue
            p = os.path.join("/repo", path); s = open(p).read()
            if s.count(old) != 1: print(name, "pattern count", s.count(old)); continue
            open(p, "w").write(s.replace(old, new))
            open(f"/verif/seeded/self/{name}.diff", "w").write(sh("git -C /repo diff").stdout)
            results[name] = {"file": path, "checks": run_checks(checks)}
        finally:
            sh("git -C /repo checkout -- ."); unlock()
        print(name, json.dumps(results.get(name))); json.dump(results, open(out_p, "w"), indent=1)
    for name, checks, commit, path in REV:
        if want and name not in want: continue
        lock()
        try:
            if sh("git -C /repo status --short").stdout.strip(): print("repo not clean, skipping", name); continue
            d = sh(f"git -C /repo show {commit} -- {path}").stdout
            open("/tmp/self_rev.diff", "w").write(d)
            r = sh("git -C /repo apply -R /tmp/self_rev.diff")
            if r.returncode != 0: print(name, "reverse patch does not apply", r.stderr[:200]); continue
            open(f"/verif/seeded/self/{name}.diff", "w").write(sh("git -C /repo diff").stdout)
            results[name] = {"reverts": commit, "checks": run_checks(checks)}
        finally:
            sh("git -C /repo checkout -- ."); unlock()
        print(name, json.dumps(results.get(name))); json.dump(results, open(out_p, "w"), indent=1)
main()
