"""Per-property configuration of the checks: one file tools/registry.d/Cxx.py
per property, each defining SPEC (what to translate, which Coq targets, which
harness binary, what is trusted)."""
import glob, importlib.util, os, sys
_D = os.path.join(os.path.dirname(os.path.abspath(__file__)), "registry.d")
sys.path.insert(0, os.path.dirname(os.path.abspath(__file__)))
from registry_common import COMMON_TB  # noqa
PROPS = {}
HOOK_COMMITS = []
for _f in sorted(glob.glob(os.path.join(_D, "C*.py"))):
    _n = os.path.basename(_f)[:-3]
    _s = importlib.util.spec_from_file_location("registry_d_" + _n, _f)
    _m = importlib.util.module_from_spec(_s)
    _s.loader.exec_module(_m)
    PROPS[_n] = _m.SPEC
_h = os.path.join(_D, "hook_commits.txt")
if os.path.exists(_h):
    HOOK_COMMITS = [l.strip() for l in open(_h) if l.strip()]
