COMMON_TB = [
    "Coq 8.16.1 kernel (coqc, full .vo build via coq_makefile; vm_compute used for finite facts and case evaluation; no native_compute)",
    "no axioms declared; Print Assumptions of every property theorem is audited on every run",
    "tools/vcheck.py (driver, audit) and the Rust harness (prints what it observes)",
]
