#!/usr/bin/env python3
"""Regenerates /verif/MANIFEST.json from tools/registry.py (claimed checks) and
properties.jsonl (everything else is listed under not_applicable with a reason)."""
import json, os, sys, subprocess
ROOT = os.path.dirname(os.path.dirname(os.path.abspath(__file__)))
sys.path.insert(0, os.path.join(ROOT, "tools"))
import registry

props = [json.loads(l) for l in open(os.path.join(ROOT, "properties.jsonl"))]
hook_commits = registry.HOOK_COMMITS if hasattr(registry, "HOOK_COMMITS") else []
checks, na = [], []
for p in props:
    pid = p["id"]
    spec = registry.PROPS.get(pid)
    if not spec or spec.get("disabled"):
        na.append({"property_id": pid,
                   "reason": (spec or {}).get("na_reason", "no check registered yet: model and proofs for this property are not built (see DESIGN.md section 6 for the plan)")})
        continue
    checks.append({
        "property_id": pid,
        "quick_cmd": f"./check {pid} --tier quick",
        "thorough_cmd": f"./check {pid} --tier thorough",
        "evidence_file": f"/verif/evidence/{pid}.json",
        "replay_cmd_template": f"./check {pid} --replay {{path}}",
        "engine": "coq-proof+correspondence",
        "level_claimed": {"category": "proof", "text": spec["level_text"], "design_ref": f"DESIGN.md section 6, {pid}"},
        "level_note": spec["level_note"],
        "technique": spec.get("technique", "machine-checked proof in Coq 8.16.1 of a Gallina model + correspondence check of the model against the Rust implementation"),
    })
m = {
    "version": 1,
    "setup_cmd": "./setup.sh",
    "hooks": {
        "guard": "cargo feature verif-hooks (default off) on the hooked crates",
        "enable": "the harness crates under /verif/harness depend on /repo crates by path with features = [\"verif-hooks\"]",
        "baseline_off_cmd": "cd /repo && cargo test --workspace --no-fail-fast --offline",
        "source_commits": hook_commits,
        "add_only": True,
    },
    "engines": [{
        "name": "coq-proof+correspondence", "path": "/verif/check",
        "serves_properties": [c["property_id"] for c in checks],
        "kind_free_text": "Coq 8.16.1 theorems about Gallina models (coq/), models tied to /repo by translators (tools/*2v.py) and by a correspondence harness (harness/) whose cases are re-computed by the model under vm_compute",
    }],
    "checks": checks,
    "not_applicable": na,
    "notes": "Every check: regenerate translated Coq sources from /repo, rebuild and audit the theorems (no Admitted/Axiom, Print Assumptions allow-list, pinned statements), rebuild the harness against /repo's working tree, run the implementation and the Coq model on the same generated inputs, evaluate the property predicate on the implementation's answers. See DESIGN.md.",
}
json.dump(m, open(os.path.join(ROOT, "MANIFEST.json"), "w"), indent=1)
print(f"MANIFEST.json: {len(checks)} checks, {len(na)} not_applicable")
