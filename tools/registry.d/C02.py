from registry_common import COMMON_TB

SPEC = {
    "coq_targets": ["Props/C02.vo"],
    "harness": "hx-chain",
    "harness_args": ["C02"],
    "translators": [],
    "level_text": "Proof (Coq): in the model of attach_block / detach_block (transaction-location, number<->hash and uncle indexes) and attach_block_cell / detach_block_cell (live cells), detaching a block valid on a well-formed store is the exact inverse of attaching it on every column (c02_detach_inverse), hence after a reorganisation of any depth — rollback newest-first, then attaching any new branch, possibly empty (truncation), possibly re-committing detached transactions — the columns equal a replay of the new main chain from genesis (c02_reorg_is_replay). Tie: real on-disk nodes run generated histories with fee-paying transactions (in-block chains, conflicting spends, cross-branch re-commits, uncles), reorganisations (also to shorter-but-heavier chains), truncations and restarts; after every main-chain change COLUMN_CELL, COLUMN_TRANSACTION_INFO, COLUMN_INDEX and COLUMN_UNCLES are dumped by iteration from the store and from the published snapshot and compared with a replay computed by the harness (property predicate: contains the main chain's entries and nothing else; tip, per-block verified flag and accumulated difficulty) and with the Coq model (vm_compute); the stored CellEntry / CellDataEntry / data hash / TransactionInfo values are compared byte for byte with the replay, and at the end of every history the canonical columns and every main-chain block's verification record (verified, total difficulty, uncle count, fees, cycles, sizes), tip and current-epoch record are compared with those of a fresh node that imported only the final main chain; in a second stream a reader thread takes Shared::snapshot() continuously while the chain service processes asynchronously delivered blocks and every snapshot is compared with a replay of its own main chain.",
    "level_note": "Trusted: Coq kernel; hand-written model Chain/Store.v (correspondence-checked on whole-column dumps). Cell output/data/data-hash, block number and epoch of a cell entry are functions of (tx id, index) and of the creating block, so the model keeps only creating block and tx index. Not modelled here: current-epoch and per-block epoch records, fees/cycles in BlockExt (C06/C14), the chain-root MMR (C19); snapshot consistency under concurrent writers relies on RocksDB snapshot isolation; it is sampled by the concurrent-snapshot stream (thousands of snapshots per run), not proved.",
    "trusted_base": COMMON_TB + [
        "hand-written model coq/Chain/Store.v of store/src/transaction.rs (attach_block, detach_block), store/src/cell.rs (attach_block_cell, detach_block_cell), chain/src/verify.rs (rollback order, reconcile_main_chain)",
        "modelled, not verified: RocksDB transactions and snapshots, block verification (the chains fed are accepted by the real verifiers)",
    ],
    "assumptions": [
        "transaction ids identify transactions and block ids identify blocks (no hash collision)",
        "blocks attached are valid on the store they are attached to (inputs distinct, each live or created in the block; tx ids fresh; uncles not included before) — enforced by the real verifiers in the harness",
    ],
}
