from registry_common import COMMON_TB

SPEC = {
    "coq_targets": ["Props/C15.vo"],
    "harness": "hx-codec",
    "translators": [["mol2v.py"]],
    "level_text": "Proof (Coq): a deep embedding of molecule (Byte | Array | Struct | FixVec | DynVec | Table | Option | Union) with encode, strict decode, compatible decode and size; for every well-formed type and well-typed value below the u32 size limit decode(encode v) = v in both modes (c15_mol_roundtrip), every byte string the strict decoder accepts is exactly the encoding of the value it decodes to (c15_mol_canonical), length = size (c15_mol_size), compatible mode extends strict mode and drops exactly the trailing extra table fields (c15_mol_strict_compat, c15_mol_compat_table_prefix). The CKB schema is regenerated from the three .mol files on every run and re-proved well-formed and consistent with the constants of the generated Rust readers (c15_schema_wf, c15_schema_matches_generated_readers), so the theorems hold for every block/header/transaction/script/cell/protocol message type (c15_schema_roundtrip). Hash binding over an abstract hash with explicit collisions: tx hash covers the raw transaction and ignores witnesses, witness hash covers everything, the CBMT root (merkle-cbt queue algorithm) and the transactions root bind order, content and witnesses for a given transaction count, with the leaf/inner-node confusion stated (c15_cbmt_leaf_node_confusion). JSON Uint32/64/128 hex strings: parse(print n) = n and print is canonical. Tied to the code on every run: generated builders/readers and the model decode the same values and byte-level mutants (verdicts and re-encoded bytes must agree), merkle-cbt is run with a symbolic merge against the model, serde on the jsonrpc uints against the string model.",
    "level_note": "Trusted: Coq kernel; hand-written model Codec/Molecule.v of the molecule 0.9.2 generated readers/builders (correspondence-checked on every run, not verified against the Rust text); tools/mol2v.py (schema translator and generator of the accessor-walking Rust code). blake2b is abstract (collisions are an explicit disjunct). NOT proved, differential testing only: the hand-written per-struct From impls between packed and jsonrpc types (packed->JSON->packed and JSON string->value->string on values with pairwise distinct non-default fields), cached hashes in views vs recomputation, proposals/uncles/extension hashes (recomputed in the harness from the property text; c15_concat_fixed_inj gives injectivity of the hashed concatenation only). CBMT binding needs equal leaf counts (the header does not commit to the count separately).",
    "trusted_base": COMMON_TB + [
        "hand-written model coq/Codec/Molecule.v of molecule 0.9.2 (generated verify()/accessors/builders), coq/Codec/Merkle.v of merkle-cbt 0.3.2 build_merkle_root, coq/Codec/Json.v of jsonrpc-types uints.rs + core from_str_radix; each tied by the correspondence check (hx-codec) on every run",
        "tools/mol2v.py: .mol -> coq/gen/Schema.v and harness/hx-codec/src/gen_schema.rs (value generators, field-by-field rebuild through every accessor)",
        "modelled, not verified: blake2b (abstract function; hash_collision / merge_collision are explicit disjuncts), serde_json",
        "differential testing, no theorem: packed <-> jsonrpc From impls, *View cached hashes, calc_proposals_hash / calc_uncles_hash / calc_extra_hash",
    ],
    "assumptions": [
        "encoded size of every value < 2^32 (molecule headers are u32; the builder truncates silently above that)",
        "bytes are < 256 (bytes_ok) in the canonicity theorem",
        "transactions_root binding is stated for two lists of the same length",
    ],
    "technique": "machine-checked proof in Coq 8.16.1 of a Gallina deep embedding of molecule + schema translator + correspondence check against the generated Rust readers/builders; differential testing for the JSON struct layer",
}
