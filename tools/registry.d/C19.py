from registry_common import COMMON_TB

SPEC = {
    "coq_targets": ["Props/C19.vo"],
    "harness": "hx-chain",
    "harness_args": ["C19"],
    "translators": [],
    "level_text": "Proof (Coq), chain-root part: in a structural model of the Merkle mountain range (post-order node list, peak stack, right-to-left bagging, resumption by position as MMR::new(size, store) does) the node at a position depends only on the leaves before it (c19_nodes_prefix), mmr_size is the node count (c19_mmr_size), reading the peaks back by position from a store that may hold stale higher nodes finds exactly the peaks (c19_peaks_read_back), and after a reorganisation of any depth — resume at the fork point, push the digests of the attached blocks — the store contains the MMR over the new main chain's header digests and the root served for every prefix is the root of exactly that prefix (c19_reorg_is_build, c19_roots_after_reorg), for any digest type and merge function; for the block filters, one pass of the filter builder after any change of the main chain never hits its expect, leaves every main-chain block with a filter hash and every filter hash is the hash chain over the block's ancestry (c19_filter_pass_ok). Tie and remaining clauses: real nodes run the C02 histories; after every main-chain change every stored MMR node below mmr_size(tip+1), chain_root_mmr(n).get_root() for every n, and the root committed in every main-chain block's extension are compared byte-for-byte with an MMR recomputed structurally from the main chain (real MergeHeaderDigest::merge, blake2b); membership proofs are generated and verified against the right root, a neighbouring root and with a foreign digest; block filters are built lazily through a hook and checked for the filter-hash chain and for matching every output / spent-input script (no false negative). The model recomputes the numeric digest fields of all nodes and roots (vm_compute).",
    "level_note": "Trusted: Coq kernel; hand-written model Chain/MMR.v (correspondence-checked on every stored node and root). The position arithmetic of the external crate ckb-merkle-mountain-range is tied to the structural model by the correspondence check only; leaf counts below 2^41. Membership-proof soundness ('verifies against no other chain') and the filters' coverage of output / spent-input scripts are decided by the harness's property predicate on generated histories, not by a theorem; blake2b and the golomb-coded-set codec are outside the model.",
    "trusted_base": COMMON_TB + [
        "hand-written model coq/Chain/Filter.v of block-filter/src/filter.rs (build_filter_data restart logic, filter-hash chain)",
        "hand-written model coq/Chain/MMR.v of chain/src/verify.rs reconcile_main_chain (MMR resume + push), util/snapshot chain_root_mmr, the ckb-merkle-mountain-range push/get_root algorithm (structural transcription)",
        "hook 7194ea3 (ckb-block-filter verif-hooks: synchronous build_filter_data)",
        "modelled, not verified: blake2b (digests abstract / numeric fields only), golomb-coded-set, RocksDB",
    ],
    "assumptions": [
        "leaf count below 2^41",
        "the store holds the MMR nodes of the common prefix before the reorganisation (invariant re-established by c19_reorg_is_build)",
    ],
}
