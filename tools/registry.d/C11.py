from registry_common import COMMON_TB

SPEC = {
    "coq_targets": ["Props/C11.vo"],
    "harness": "hx-pool",
    "translators": [],
    "technique": "Coq model of PoolMap (entries, edges, links, counters, all operations) + invariant proofs + whole-state correspondence after every pool operation",
    "level_text": "PLACEHOLDER",
    "level_note": "PLACEHOLDER",
    "trusted_base": COMMON_TB + [
        "hand-written model coq/Pool/PoolMap.v of tx-pool/src/component/{pool_map,links,edges,entry,sort_key}.rs and of limit_size / remove_expired / remove_by_detached_proposal / check_rbf in pool.rs, tied by the correspondence check (hx-pool) on every run: the complete state of the real PoolMap is compared with the model after every primitive step",
        "hook tx-pool/src/verif_hooks.rs (feature verif-hooks): read-only dump and thin pub wrappers of the crate-private operations",
        "modelled, not verified: the multi_index_map container (a map plus sorted views), HashMap/HashSet iteration order (results are order-independent; compared as sorted sets), f64 arithmetic of get_transaction_weight (exact for the cycle counts used)",
    ],
    "assumptions": [
        "add_entry is reached only with the preconditions its callers establish under the pool lock (no input and no cell dep of the new tx is spent in the pool; references name existing outputs): Inv.add_pre",
        "transactions are content-addressed: the set of transactions of a history admits a rank along which every spend / dependency increases (acyclic), as tx hashes guarantee",
        "aggregate sums stay below 2^64 (the code saturates; the theorems are stated for non-saturating histories)",
    ],
}
