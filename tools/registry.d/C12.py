from registry_common import COMMON_TB

SPEC = {
    "coq_targets": ["Props/C12.vo"],
    "harness": "hx-poolchain",
    "harness_args": ["C12"],
    "thorough_shards": 12,
    "shard_par": 3,
    "translators": [],
    "technique": "Coq model of update_tx_pool_for_reorg at the level of pool membership and stages (remove_committed_txs + resolve_conflict + header-dep conflicts, remove_by_detached_proposal, stage moves, remove_expired, limit_size, readd_detached_tx) with proofs for all pools / notifications / chain views, refutation witnesses for the clauses the code does not guarantee, and a real node (chain + tx-pool service + block assembler) driven through histories with the property predicate evaluated on the real pool dump and snapshot after every processed notification",
    "level_text": "Proof (Coq), partial: for the transcription of update_tx_pool_for_reorg (Pool/Reorg.v) and every pool, attached/detached blocks, detached proposal ids, chain view, expiry cut-off, size limit and every behaviour of the ancestor limit and of the eviction order: no transaction of an attached block is pooled afterwards (c12_no_committed); no pooled transaction depends on a detached header (c12_no_detached_header); a transaction committed only on the abandoned branch that resolves against the new chain + pool, pays the minimum fee and passes the ancestor limit when its turn comes is pooled afterwards (c12_readmitted); on a block-assembler node every pooled id inside the proposed set of the new window is in stage Proposed and every Pending entry is in neither set (c12_stage_matches_window_partial). The clause 'every input/dep is live or pooled' is FALSE of the code in four recorded ways (F6 remove_expired, F7 submit_entry race, F11 lost parent after a reorg, F12 remove_by_detached_proposal) and the full stage clause in one (F13 Gap entries are never demoted): Coq witnesses c12_*_refuted, each reproduced on the real node and recorded as known finding. The real node is driven through >= 40 histories (quick) of submissions, mined templates, outside blocks, reorgs of depth 1..6, expiry edges and two-step submissions; after each of ~1200 processed notifications the predicate is evaluated on the real pool and snapshot, and where the model is determined (consistent aggregates, no eviction, no cell-dep edges, no racing submission) the pool contents and stages are recomputed by the model and compared.",
    "level_note": "Trusted: Coq kernel; hand-written model Pool/Reorg.v (membership/stage level; the pool's aggregates enter through two abstract decisions fits/victim, so eviction order and ancestor-limit verdicts are not predicted, only quantified over); the harness' history driver and predicate (hx-poolchain/src/{drive,pred}.rs); hook tx-pool/src/verif_hooks.rs (read-only dump through the controller; the two-step submission re-implements the glue of _process_tx between pre_check and submit_entry, which are the real functions). Waiting for the pool: the harness polls the pool's snapshot tip under the read lock; the snapshot is replaced under the write lock that covers the whole update incl. readd_detached_tx. Not shown: tokio scheduling of the service tasks (racing submissions are generated but their interleaving is whatever the runtime does). Known findings on the unchanged tree: F6, F7, F11, F12, F13 (known_findings.json).",
    "trusted_base": COMMON_TB + [
        "hand-written model coq/Pool/Reorg.v of tx-pool/src/process.rs (update_tx_pool_for_reorg, _update_tx_pool_for_reorg, readd_detached_tx) and the TxPool operations of pool.rs at membership/stage level, tied on every run by recomputing the observed pool of the real node in the determined regime",
        "hook tx-pool/src/verif_hooks.rs (feature verif-hooks): dump of the service's pool under its read lock, two-step submission",
        "the history driver hx-poolchain (copy of hx-chain's block construction): blocks it builds are accepted by a second real node before they are delivered",
    ],
    "assumptions": [
        "the notification carries what chain/src/verify.rs sends: attached/detached blocks of the fork, detached ids = old proposed set minus new proposed set, the new snapshot",
        "transactions are content-addressed (a tx cannot reference its own descendants)",
        "scripts verify (always-success lock): verify_rtx never rejects a re-added transaction",
    ],
}
