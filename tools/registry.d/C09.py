from registry_common import COMMON_TB

SPEC = {
    "coq_targets": ["Props/C09.vo", "gen/ParamsMiscTieC09.vo"],
    "harness": "hx-freezer",
    "translators": [["const2v_misc.py"]],
    "level_text": "Proof (Coq): for every history of appends, truncations, re-opens and crash cuts (any index length keeping the sentinel x any length of the newest data file) the model of freezer_files.rs re-opens without error and holds a byte-exact prefix of the appended items, dropping only index entries whose data did not fully survive (c09_refines_list, c09_repair_prefix, c09_repair_keeps_written, c09_clean_answers); after any history the list is items this history appended in front of an oldest part of the initial list, unchanged and in order: nothing is invented, reordered or altered (c09_spec_run_shape, c09_run_keeps_items); the 12-byte index codec round-trips; histories with retrieve(i) calls of any items inserted anywhere (each moves the cursor the head file's write handle shares with the cached read handle) reach the very same states (c09_reads_refine, c09_reads_same_state). The model is tied to the code on every run by running the real FreezerFiles and the model on the same generated histories (with and without lone reads in between; block-level Freezer passes with a read between two passes) and on exhaustive cut sweeps of small disks; the property predicate is also evaluated directly on the implementation (compression on and off). Transient I/O errors: every third payload length is appended while the head data file is renamed away (an append that rolls over cannot re-open the old head read-only and returns Err; number() must be unchanged, the retry with the file back must succeed, every item must read back); a panic of the freezer is reported with the history. Half of the block-level stream's blocks carry an extension (Freezer::open decodes the last frozen block to restore its tip).",
    "level_note": "Trusted: Coq kernel; hand-written model Freezer/Files.v (correspondence-checked each run, not verified against the Rust text); file-system semantics of set_len/seek/read; snappy treated as an opaque lossless codec; fsync durability and the fs2 lock are outside the model. The theorems are about the repaired loop (fix: commit eb5b786 in /repo); build_old_refuted keeps the pre-fix loop's witness; the append is the repaired Head::write (fix: commit 524040d: seek to head.bytes before writing), c09_cursor_old_refuted keeps the witness for the write at the shared cursor.",
    "trusted_base": COMMON_TB + [
        "translator tools/const2v_misc.py (regular expressions over the constant declarations; the generated gen/ParamsMiscTie.v proves the models' constants equal to them)",
        "hand-written model coq/Freezer/Files.v of freezer/src/freezer_files.rs, tied by the correspondence check (hx-freezer) on every run",
        "modelled, not verified: the file system (set_len/seek/read_exact semantics), snappy (compression stream is checked against the abstract list only), fsync durability",
    ],
    "assumptions": [
        "crash relation = the property's: index file cut to any byte length that keeps the sentinel entry, newest data file cut to any length, earlier data files intact",
        "a data file that does not exist reads as empty (open_append creates it)",
        "Cursor.v: the cached read handle of the file the head points to is a clone of the write handle (preopen / open_file); LRU eviction of that handle (which would give reads their own cursor) is not modelled — irrelevant for the repaired code, whose writes do not depend on the cursor",
    ],
}
