from registry_common import COMMON_TB

SPEC = {
    "coq_targets": ["Props/C17.vo"],
    "harness": "hx-structs",
    "translators": [],
    "level_text": "Proof (Coq), in progress: skip height.",
    "level_note": "in progress",
    "trusted_base": COMMON_TB + [
        "hand-written models coq/Structs/{Orphan,Inflight,HeaderMap,Skip}.v, tied by the correspondence check (hx-structs) on every run",
    ],
    "assumptions": [],
}
