from registry_common import COMMON_TB

SPEC = {
    "coq_targets": ["Props/C10.vo"],
    "harness": "hx-chain",
    "harness_args": ["C10"],
    "translators": [],
    "level_text": "Proof (Coq): in the model of the freeze pass (append main-chain blocks in height order from the key-value store, sync, wipe the bodies of the synced heights; the store's getters switch to the freezer below Freezer::number(); a crash + re-open leaves any prefix of the freezer that contains the synced items, as C09 proves of the real files) every main-chain block reads the same before, at every intermediate point of, and after any number of passes and crashes (c10_reads_invariant, c10_step_inv); the wipe-out deletes only bodies that are durably frozen (c10_wipe_only_frozen); a pass never moves the frozen height backwards, beyond the threshold block, or by more than the per-run limit (c10_only_old_moved). Tie / fault enumeration: real on-disk nodes with a freezer grow chains through several short epochs; every answer the property lists — block (view and packed), header, body, tx hashes, cellbase, uncles, proposals, extension, every transaction with its location, ancestor lookup, cell status — is recorded for every main-chain block and compared before / after a freeze pass / after a restart; the frozen height is checked against the two-epoch threshold; the pass is then run in a child process aborted at every database write and at every (sampled in the quick tier) freezer file write, re-opened, compared, run again, compared.",
    "level_note": "Trusted: Coq kernel; hand-written model Freezer/Freeze.v (block bodies by height, the abstract freezer list of C09); hooks f5451a6 (freezer crash points) / 44858f3 (synchronous freeze pass) / 8fd9265 (DB crash points). The theorems are about the height switch of get_block; that the per-part getters also answer for frozen blocks is established on the implementation only (they did not before fix: commit 71875e4 — see known_findings.json). Compaction, fsync durability and the removal of side-chain blocks at frozen heights (checked by the harness: nothing above the frozen height disappears) are outside the model. Crash = process abort.",
    "trusted_base": COMMON_TB + [
        "hand-written model coq/Freezer/Freeze.v of shared/src/shared.rs (freeze, wipe_out_frozen_data), freezer/src/freezer.rs (freeze), store/src/store.rs (freezer switch in get_block / get_transaction_with_info)",
        "hooks: ckb-shared verif_freeze_once, ckb-freezer and ckb-db crash points",
        "modelled, not verified: RocksDB, file-system durability, snappy",
    ],
    "assumptions": [
        "a crash keeps at least the synced freezer items (C09: c09_repair_keeps_written)",
        "blocks are appended to the freezer in height order starting at Freezer::number()",
    ],
}
