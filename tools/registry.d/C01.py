from registry_common import COMMON_TB

SPEC = {
    "coq_targets": ["Props/C01.vo"],
    "harness": "hx-chain",
    "harness_args": ["C01"],
    "translators": [],
    "level_text": "Proof (Coq): for every finite block set (any tree shape, any per-block difficulty, invalid blocks anywhere) and every two delivery schedules of it (any permutation, duplicates, children before parents held in the orphan pool), the model of the fork choice (accumulated difficulty, strict '>' comparison, a branch becomes canonical only if all of it verifies) and of the orphan broker ends with the same total difficulty and the same tip unless two fully valid chains tie (c01_order_independent); the tip is always the head of a fully valid chain of maximal accumulated difficulty among the processed ones and every delivered block whose ancestry was delivered is processed (c01_heaviest); the tip moves only to strictly more work (c01_strict_switch); any parent-first processing order gives the same records (c01_processing_order_independent). Tie: real nodes (chain services with their insert / preload / verify threads, dummy PoW, full verification) receive random trees under random asynchronous schedules; at quiescence after every delivery the tip, total difficulty and orphan-pool size are compared with the property recomputed from the tree and with the model (vm_compute); at the end of every schedule every processed block's BlockExt record (accumulated difficulty; a verified flag, when set, agrees with the validity of its chain) and the number->hash index (exactly the tip's path) are checked. A probe in a thread of its own lets two orphans wait across the chain service's 60 s orphan clean-up tick and then delivers their parents. Verify callbacks the chain service drops without calling are resolved from the store (BlockExt present / status invalid). The tree/schedule stream stops after six unsigned violations (a stalled schedule costs a minute of waiting).",
    "level_note": "Trusted: Coq kernel; hand-written model Chain/ForkChoice.v at the granularity one verify-thread step = one [process] (thread interleavings appear as the processing order, constrained only to be parent-first, which the FIFO channels and the orphan broker guarantee); block validity is an input bit of the model (decided by the real verifiers in the harness). Not shown: preemption inside a step, RocksDB/DashMap linearizability, the orphan retention horizon (expiry is wall-clock driven and not exercised), the status-map/BlockExt bookkeeping of rejected blocks beyond what the tip and orphan observations reveal.",
    "trusted_base": COMMON_TB + [
        "hand-written model coq/Chain/ForkChoice.v of chain/src/verify.rs (verify_block fork choice) and chain/src/orphan_broker.rs (delivery, release of orphans)",
        "modelled, not verified: contextual/non-contextual block verification (input bit), RocksDB, crossbeam channels, thread scheduling",
    ],
    "assumptions": [
        "block ids (hashes) identify blocks: equal id implies equal block (no hash collision)",
        "processing order is parent-first (FIFO channels; a child is queued only after its parent is stored or pending)",
    ],
}

