from registry_common import COMMON_TB

SPEC = {
    "coq_targets": ["Props/C18.vo"],
    "harness": "hx-indexer",
    "translators": [],
    "level_text": "(being built)",
    "level_note": "",
    "trusted_base": COMMON_TB + [
        "hand-written model coq/Indexer/Indexer.v + Query.v of util/indexer/src/indexer.rs and service.rs, tied by the correspondence check (hx-indexer) on every run",
        "modelled, not verified: RocksDB (get / ordered iteration / atomic write batch), molecule encodings of stored values",
    ],
    "assumptions": [],
}
