from registry_common import COMMON_TB

SPEC = {
    "coq_targets": ["Props/C13.vo"],
    "harness": "hx-poolchain",
    "harness_args": ["C13"],
    "thorough_shards": 12,
    "shard_par": 3,
    "translators": [],
    "technique": "the node mines its own block templates (every template obtained at many moments is sealed and given to blocking_process_block on the same node) + Coq model of TemplateSize and the five update paths with an invariant proof for all update sequences + Coq model of TxSelector's package selection with proofs of ancestor-closure, parents-first order and limits",
    "level_text": "Proof (Coq) for the models + direct oracle on the implementation: (1) for the model of TemplateSize::calc_total_by_{proposals,uncles,txs} and update_blank/full/uncles/proposals/transactions with their guards, after ANY sequence of updates the bookkeeping equals the serialized size of the template part by part and the template is within max_block_bytes (c13_size_accounting); (2) for the model of TxSelector::txs_to_commit, for every order in which candidates are considered, the selected list is parents-first and closed under in-pool ancestors given that calc_ancestors is transitively closed and ancestors_count grows along it (c13_ancestors_first, c13_ancestor_closed), and within the size and cycle limits given C11's clause I4 (c13_selection_within_limits); with stale aggregates (C11 finding F3) it is not (c13_selection_limit_stale_refuted) — reproduced on the real node: it then rejects its own template (known finding, same signature as C11's F3). (3) Oracle: in >= 40 histories (quick) every one of ~1300 templates (steady state, while a reorg notification is in flight, after reorgs of depth 1..6, at epoch boundaries of 4/6/9-block epochs, with candidate uncles, with max_block_bytes 2000..6000 / max_block_cycles 1200..10000 / 3 proposals so that the limits bind, pool near its size and ancestor limits) is checked for size <= max_block_bytes, cycles <= max_block_cycles, proposal/uncle limits, TemplateSize == real serialized size, parents-first order, and ~450 of them are mined on the same node: accepted and made the tip. The raw TxSelector output (package_txs) is checked against a dump taken under the same lock.",
    "level_note": "Predicate-only (no model): cellbase reward, DAO field, epoch/target, uncles' validity, chain-root extension — these are decided by the node's own full verification of the mined template (blocking_process_block), not recomputed in Coq (C06/C07/C19 cover the formulas). The selector model abstracts the score order (the theorems hold for every order) and modified_entries (modelled as stored aggregate minus what is already packaged). Trusted: Coq kernel, Pool/Template.v, the harness, the hook (read-only: TemplateSize beside the template, package_txs + dump under one read lock). Wall clock: ckb_systemtime faketime drives current_time. Not shown: the HTTP notify path.",
    "trusted_base": COMMON_TB + [
        "hand-written model coq/Pool/Template.v of tx-pool/src/block_assembler/mod.rs (TemplateSize, the five update paths) and tx-pool/src/component/tx_selector.rs, tied on every run by the observations of the real node (TemplateSize vs serialized size; the raw selection satisfies the proved properties) and above all by the node verifying its own templates",
        "hook tx-pool/src/verif_hooks.rs (feature verif-hooks): TemplateSize dump, package_txs with a dump under the same read lock",
    ],
    "assumptions": [
        "C11's invariant clauses I2-I4 for the pool the selector reads (links = spends/deps, acyclic, aggregates = sums): false in the recorded classes F3/F10, which are reported with C11's signatures",
        "a blank template (cellbase, extension, uncles) is below max_block_bytes",
    ],
}
