from registry_common import COMMON_TB

SPEC = {
    "coq_targets": ["Props/C03.vo", "gen/ParamsMiscTieC03.vo"],
    "harness": "hx-chain",
    "harness_args": ["C03"],
    "translators": [["const2v_c20.py"], ["const2v_misc.py"]],
    "level_text": "Proof (Coq): the acceptance pipeline (HeaderVerifier: PoW bit, number, epoch well-formed / successor, timestamp above the past median and at most 15 s ahead; structure; the UnclesVerifier loop with its `included` map; TwoPhaseCommitVerifier's window walk; epoch / reward / DAO / extension / transaction verdicts as bits decided by the models of C07 / C06 / C19 / C04) accepts a block exactly when the declarative rules hold (c03_pipeline_iff_rules, c03_uncles_loop_iff, c03_commit_window via the C20 window theorem, c03_median_spec); a block that fails leaves tip, total difficulty and every other record untouched (c03_refused_no_effect) and neither it nor anything built on it is ever the tip (c03_invalid_never_canonical, from the C01 invariant). Tie: on real nodes the next block of prepared contexts is offered through HeaderVerifier + chain service in valid variants on rule boundaries and in mutants that break exactly one rule; accept/reject must be as constructed, a refusal must leave tip and canonical columns byte-identical, a heavier extension of a refused branch must not become canonical; the model recomputes every verdict from measured header fields, ancestor timestamps, uncle data and proposal sets (vm_compute). Block cycle limit: every other context runs with consensus max_block_cycles = exactly the cycles of its base candidate (cycles of one always-success spend measured on the first accepted block of the run): the base is valid at the limit; one more committed transaction is rejected, and so is a sibling carrying the same transactions once they are in the verification cache (Txs rule bit of the model). In the cache model (Tx/Cache.v verify_block: the sum over ALL transactions' cycles, entries cached before the comparison) a block over the limit is refused cold and again with its transactions cached (c03_block_over_cycle_limit_refused_twice); summing only freshly verified transactions accepts it the second time (c03_cycle_sum_of_fresh_only_refuted: seeded change C03r4).",
    "level_note": "Trusted: Coq kernel; hand-written model Chain/Rules.v (correspondence-checked). In the model the structure / epoch-target / reward / DAO / extension / transaction verdicts are input bits (their rules are the subject of C04, C06, C07, C19); the harness sets such a bit from the kind of the mutant and the real verifier must then reject — a verifier that wrongly accepts is caught by the implementation-side predicate, not by the model. PoW is a bit (dummy engine in the harness; eaglesong is exercised by C07). Wall clock through ckb_systemtime faketime.",
    "trusted_base": COMMON_TB + [
        "translator tools/const2v_misc.py (regular expressions over the constant declarations; the generated gen/ParamsMiscTie.v proves the models' constants equal to them)",
        "hand-written model coq/Chain/Rules.v of verification/src/header_verifier.rs, traits/src/header_provider.rs (block_median_time), verification/contextual/src/uncles_verifier.rs, TwoPhaseCommitVerifier",
        "modelled, not verified: PoW hash functions, the rule groups delegated to C04/C06/C07/C19 (bits)",
    ],
    "assumptions": [
        "1 <= w_close <= w_far (re-proved for the extracted constants in C20)",
        "block ids identify blocks",
    ],
}
