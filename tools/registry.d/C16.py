from registry_common import COMMON_TB

SPEC = {
    "coq_targets": ["Props/C16.vo"],
    "harness": "hx-relay",
    "translators": [["mol2v.py"]],
    "level_text": "Proof (Coq): (a) the molecule decoder of C15 is a total function on byte strings and whatever it accepts, in strict or compatible mode, re-encodes to at most the input length, every item slice lies inside the input (c16_decode_total_and_bounded, c16_accepted_offsets_in_range); (b) the frame layer of network/src/compress.rs with snappy as an opaque codec returns at most 8 MiB for a compressed frame and the tail of the frame otherwise, and compress/decompress round-trips (c16_decompress_bounded, c16_compress_decompress); (c) a transcription of CompactBlockVerifier and Relayer::reconstruct_block over lists with the pool as an arbitrary partial map: a verified compact block never makes the index arithmetic underflow and puts every prefilled transaction at its index (c16_verified_compact_no_underflow, c16_verified_positions), a result Block has the header's transactions root, prefilled transactions in their slots and listed short ids elsewhere (c16_reconstruct_sound), Missing lists exactly the unavailable positions and unknown uncles (c16_missing_precise), and with a root that binds up to collision the returned transactions are the committed ones (c16_never_other_block). c16_reconstruct_header_refuted: the faithful model returns Block with a REWRITTEN header when the carried proposals/uncles/extension do not match the header (finding, known). Tied to the code on every run: the generated Rust readers and the Coq decoder on a malformed-dominant byte stream, decompress against the model with the snap crate as oracle, and the real Relayer::reconstruct_block (temp-db node, real tx-pool) against the model.",
    "level_note": "Trusted: Coq kernel; hand-written models Codec/Molecule.v and Codec/Compact.v (correspondence-checked on every run); tools/mol2v.py. Panic- and memory-safety of the generated Rust accessors, of the view conversions and of BlockVerifier / NonContextualTransactionVerifier / CompactBlockVerifier is TESTED on the generated inputs under catch_unwind, not proved: the theorems are about the Gallina decoder, and transfer to the Rust readers only through the accept-set equality the correspondence samples. The gates of Synchronizer::received / Relayer::received (which messages are decoded compatibly, extra-field limits, check_data) are re-stated in the harness because they live inside the async protocol handlers. Real short-id collisions (80-bit) cannot be produced; Collided/Error are reached through non-matching roots. snappy and blake2b are opaque.",
    "trusted_base": COMMON_TB + [
        "hand-written models coq/Codec/Molecule.v (molecule 0.9.2 generated readers) and coq/Codec/Compact.v (network/src/compress.rs, sync/src/relayer/compact_block_verifier.rs, Relayer::reconstruct_block), tied by the correspondence check (hx-relay) on every run",
        "tools/mol2v.py: generates the accessor walk (every accessor of every schema type) used after each successful from_compatible_slice",
        "harness re-statement of the acceptance gates in Synchronizer::received / Relayer::received (from_compatible_slice, extra-field limits, check_data)",
        "modelled, not verified: snappy (opaque codec with 'output has the declared length'), blake2b / the transactions root (a function that binds its argument up to an explicit collision), tx-pool fetch_txs (arbitrary partial map answering with the requested short id)",
        "tested, not proved: absence of panics in generated accessors, view conversions, hash computations and context-free verifiers",
    ],
    "assumptions": [
        "reconstruct_block is called after CompactBlockVerifier accepted the compact block and with one received uncle per requested uncle index (what the relayer's processes check before calling it)",
        "the pool answers a short id with a transaction that has this short id",
        "transactions-root binding is used for lists of the same length",
    ],
    "technique": "machine-checked proof in Coq 8.16.1 of Gallina models + correspondence check against the Rust implementation (generated readers, compress, the real Relayer::reconstruct_block) + panic fuzzing of every generated accessor under catch_unwind",
    "harness_timeout": {"quick": 1500, "thorough": 7200},
}
