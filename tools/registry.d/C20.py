from registry_common import COMMON_TB

SPEC = {
    "coq_targets": ["Props/C20.vo"],
    "harness": "hx-chain",
    "harness_args": ["C20"],
    "translators": [["const2v_c20.py"]],
    "level_text": "Proof (Coq): for every sequence of extensions, reorganisations of any depth (to longer or shorter chains), truncations and restarts from genesis, the model of ProposalTable + update_proposal_table/reload_proposal_table + finalize + init_proposal_table keeps the table equal to the main chain's proposal sets in [max 1 (tip+1-w_far), tip] and yields set = union of proposal ids (uncles' included) at distance w_close..w_far from the next block, gap = those closer than w_close (c20_view_eq_spec); dropped ids = old set minus new set (c20_removed_exact); start-up reconstruction = incremental view (c20_init_eq_incremental); membership in the set <=> TwoPhaseCommitVerifier's window walk finds the id (c20_matches_verifier). Window constants are re-extracted from spec/src/consensus.rs on every run and their side condition re-proved (c20_params_ok). Tie: the real chain service (ckb-chain, on-disk DB, restarts, truncate) and the real ProposalTable are run on generated histories; the snapshot's view is compared with the window recomputed from the stored main chain (property predicate) and with the model (vm_compute). Switch-back steps: a branch the node left earlier (from the stash of detached blocks; also after restarts and truncations) is extended on a builder node until the node reorganises back to it, so the attached part of that reorganisation starts with blocks verified before (fork.verified_len() > 0); the view must again equal the on-chain window. The variant that does not re-insert attached blocks verified earlier is refuted on a return to a branch left before (c20_skip_verified_refuted: seeded change C20r4; with nothing skipped it is the code, c20_skip_nothing_is_the_code). Rejected-fork steps: a competing branch with other proposals catches up with the tip as side blocks and its overtaking block breaks a rule (DAO field): the abandoned reorganisation must leave the view equal to the window over the unchanged main chain, checked right after the rejection and after the next main-chain block. Verifier probe: five transactions whose REAL short ids are proposed in the histories; after every step the contextual block verifier with every rule but the two-phase commit switched off is asked about a next block committing each of them, and its verdict must equal membership in the view's committable set and in the window recomputed from the chain (the agreement clause of the property, checked on the implementation; seeded change C20r6).",
    "level_note": "Trusted: Coq kernel; hand-written model Chain/Proposal.v (correspondence-checked); translator tools/const2v_c20.py; RocksDB reads. Hypotheses of the theorems: 1 <= w_close <= w_far (re-proved for the extracted constants) and the genesis block proposes nothing (checked by the harness for the consensus it uses). ProposalShortId collisions are treated as equal ids, as the code does. The ids handed to the tx-pool as 'detached' are not observed on the implementation (finalize's returned set is, through the direct ProposalTable stream).",
    "trusted_base": COMMON_TB + [
        "hand-written model coq/Chain/Proposal.v of util/proposal-table/src/lib.rs, chain/src/verify.rs (update/reload_proposal_table), shared/src/shared_builder.rs (init_proposal_table), TwoPhaseCommitVerifier's walk",
        "translator tools/const2v_c20.py (TX_PROPOSAL_WINDOW, closest/farthest accessors)",
        "modelled, not verified: RocksDB, block verification other than the window walk",
    ],
    "assumptions": [
        "1 <= w_close <= w_far",
        "the genesis block carries no proposals",
    ],
}
