from registry_common import COMMON_TB

SPEC = {
    "coq_targets": ["Props/C08.vo"],
    "harness": "hx-chain",
    "harness_args": ["C08"],
    "translators": [],
    "level_text": "Proof (Coq): in the fork-choice/delivery model of C01 extended with crashes (the orphan pool and every queued block are lost, the records committed by verify_block persist), after any number of crashes at any points, once every block has been processed before the last crash or is delivered again after it (by InitLoadUnverified or by peers), the node has the total difficulty of any run that never crashed and the same tip unless two fully valid chains tie (c08_converges); the state found after a restart is always a state of a crash-free run over a parent-first selection of the delivered blocks (c08_restart_state_consistent), to which C02's replay theorem applies. Tie / fault enumeration on the implementation: a child process imports generated histories (transactions, competing branches; sequentially or asynchronously) over an on-disk DB and is aborted at every write to the database (hook in ckb-db: before and after every transaction commit and write batch); the parent re-opens the DB, waits for the start-up recovery, checks the C02 replay consistency of the stored columns and that stored-but-unverified blocks were picked up, redelivers everything and compares tip, total difficulty and columns with the run that never crashed; the model recomputes the observed difficulties (vm_compute). The start-up scan of InitLoadUnverified is modelled separately (Chain/Recover.v): a stored-but-unverified block is submitted again iff every height above the tip up to its own holds some stored-but-unverified block (c08_scan_reaches, c08_scan_reaches_up_to_tip, c08_scan_only_unverified); 'every stored-but-unverified block is picked up' is false as stated (c08_scan_gap_refuted, known finding C08-recovery-stops-at-first-empty-height-above-tip, reproduced on the real node by a directed history). For every crash the store is inspected before the chain services start (which blocks lack a record, by height in hash order) and the model predicts which of them have a record after the recovery. After every restart the snapshot's proposal view (raw short ids) is compared with the proposal window over the stored main chain, and the stored current-epoch record and the snapshot's epoch with the epoch of the tip block; both again after the redelivery. A directed state per history: the last 2..4 main-chain blocks are stored exactly as ChainService::insert_block stores them (no verification record: the insert thread was ahead of the verify thread), then the node is re-opened; every such block must be picked up by the start-up recovery (the recovery model's picked set is compared as for crash points).",
    "level_note": "Trusted: Coq kernel; hand-written models Chain/ForkChoice.v + Chain/Crash.v (correspondence-checked); hook 8fd9265 (ckb-db verif-hooks crash points). A crash is a process abort: atomicity and durability of a RocksDB commit across power loss (WAL, fsync) are assumed, not tested; crash points are the database writes, not arbitrary instructions (between two writes no persistent state changes).",
    "trusted_base": COMMON_TB + [
        "hand-written model coq/Chain/Crash.v over coq/Chain/ForkChoice.v",
        "hook 8fd9265: ckb-db feature verif-hooks (numbered crash points, process abort)",
        "modelled, not verified: RocksDB atomic commit / WAL durability, block verification (input bit), InitLoadUnverified's scan window (exercised by the harness)",
    ],
    "assumptions": [
        "a RocksDB transaction commit / write batch is atomic and durable once it returned",
        "every block is processed before the last crash or delivered again after it",
    ],
}
