from registry_common import COMMON_TB

SPEC = {
    "coq_targets": ["Props/C05.vo", "Script/ChunkCases.vo"],
    "harness": "hx-script",
    "translators": [],
    "level_text": "Proof (Coq): the cycle accounting of TransactionScriptsVerifier (verify, resumable_verify, resume_from_state, complete, resumable_verify_with_signal, TransactionState, checked cycle addition, the TYPE_ID special case) is transcribed over an abstract deterministic script-group machine; under the machine hypotheses H1-H3 (determinism, chunk additivity, schedule-independent failure) every chain of chunks of any sizes either is still suspended in a state satisfying the invariant or ends with exactly the answer of verify(max) for every max >= cost (c05_chunked_eq_whole, c05_resume_preserves); a budget below the cost reports ExceededMaximumCycles, a budget of at least the cost equals the unlimited run (c05_budget_below_cost_fails, c05_budget_at_least_cost_eq_unlimited); chunked runs terminate within tx_total+#groups chunks when every limit is at least the largest atomic step (c05_progress); complete and the signal-driven run equal the unlimited run for budgets >= cost; the hypotheses are satisfiable (toy_satisfies_H). Two statements are refuted on the faithful model and on the real code: complete(state, max) and resumable_verify_with_signal(limit) can succeed with a budget below the cost (c05_complete_budget_refuted, c05_signal_budget_refuted; known findings). The model is tied to the code on every run: the real verifier runs transactions built from script/testdata programs (VM 0/1/2, exec, spawn/pipe/wait, TYPE_ID, several groups) under budgets cost-1/cost/cost+1, group-boundary budgets, random and boundary-aimed chunk partitions, complete() from intermediate states and scripted Suspend/Resume signals; the property predicate is evaluated directly on the answers and every observed TransactionState/total/error is recomputed by the model. The program table includes ckb_dlopen2 (load_cell_data_as_code) programs: load_is_even_with_snapshot with is_even.lib as it is and re-packed so that its executable segment lies one page into the cell (non-zero content offset; a decoy sits at the old place), odd and even argument, VM 0/1/2. Transactions with a group whose code hash is the TYPE_ID constant under a data hash type (an ordinary script that resolves to no cell) must fail the same way in verify, chunked and signal-driven execution (C05r6).",
    "level_note": "PARTIAL: that the real scheduler + CKB-VM satisfy H2 (snapshot/restore fidelity, pipes, suspended VMs) is tested by the correspondence, not proved; CKB-VM is not modelled. A pause signal is modelled as a cut of the run at some cycle count. The check found that H2 is false of the real scheduler for pipe-using scripts (known finding chunk-limit-crossed-by-io-syscall-skips-process-io).",
    "trusted_base": COMMON_TB + [
        "hand-written model coq/Script/Chunk.v of script/src/verify.rs (accounting layer only), tied by the correspondence check (hx-script) on every run",
        "modelled, not verified: Scheduler::run/suspend/resume and CKB-VM as the abstract machine chunk_run with hypotheses Behaved/Progressive (Script/ChunkSpec.v); the replay machine of Script/ChunkCases.v takes the suspension points from the observed scheduler totals",
        "tokio scheduling of the signal-driven runs (timing is not reproducible; the deterministic variant parks the VM inside its debug-pause syscall)",
    ],
    "assumptions": [
        "cost of a transaction = cycles of verify(u64::MAX) on success; on failure the cycles of the groups before the failing one plus the cycles the failing group consumed when it failed",
        "sum of the group costs <= u64::MAX (no-overflow side condition of the theorems)",
        "the debug-pause syscall (2178) of the test programs is provided by the harness (it is cfg(test) in ckb-script)",
    ],
    "harness_timeout": {"quick": 900, "thorough": 7200},
}
