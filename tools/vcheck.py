#!/usr/bin/env python3
"""Driver of every check:  ./check <Cxx> [--tier quick|thorough] [--replay file]

Stages (DESIGN.md section 1):
  S0  regenerate coq/gen/*.v from /repo (translators)
  S1  build the Coq targets of the property, audit the development
  S2  build the harness against /repo's working tree
  S3  run the harness (implementation side + property predicate), evaluate the
      cases it wrote inside Coq (model side), compare
  S4  on a failure, look for / report a concrete failing input
  S5  known findings
exit 0 iff everything passed;  exit 1 with  VIOLATION property=<id> replay=<path>
"""
import json, os, re, subprocess, sys, time, glob, hashlib, shutil
from concurrent.futures import ThreadPoolExecutor

ROOT = os.path.dirname(os.path.dirname(os.path.abspath(__file__)))
COQ = os.path.join(ROOT, "coq")
HARNESS = os.path.join(ROOT, "harness")
WORK = os.path.join(ROOT, "work")
sys.path.insert(0, os.path.join(ROOT, "tools"))
import registry  # noqa: E402

ENV = dict(os.environ, CARGO_NET_OFFLINE="true", GOPROXY="off", PIP_NO_INDEX="1")

FORBIDDEN = re.compile(
    r"\b(Admitted|admit|Axiom|Axioms|Parameter|Parameters|Conjecture|Conjectures|"
    r"Unset\s+Guard|bypass_check|Admit\s+Obligations|Unset\s+Universe\s+Checking|"
    r"Unset\s+Positivity|type-in-type|impredicative-set|native_compute)\b")
# axioms of Coq's standard library a theorem may depend on (each is listed in
# the evidence when it occurs); anything else fails the audit
AXIOM_ALLOW = {
    "functional_extensionality_dep", "proof_irrelevance", "JMeq_eq", "classic",
    "propositional_extensionality", "Eqdep.Eq_rect_eq.eq_rect_eq", "eq_rect_eq",
}


def sh(cmd, cwd=None, timeout=None, env=None):
    t = time.time()
    try:
        p = subprocess.run(cmd, cwd=cwd, shell=isinstance(cmd, str), env=env or ENV,
                           stdout=subprocess.PIPE, stderr=subprocess.STDOUT, timeout=timeout)
        return p.returncode, p.stdout.decode(errors="replace"), time.time() - t
    except subprocess.TimeoutExpired as e:
        return 124, (e.stdout or b"").decode(errors="replace") + "\n[timeout]", time.time() - t


def strip_comments(src):
    out, depth, i = [], 0, 0
    while i < len(src):
        if src.startswith("(*", i):
            depth += 1; i += 2
        elif src.startswith("*)", i) and depth > 0:
            depth -= 1; i += 2
        else:
            if depth == 0:
                out.append(src[i])
            i += 1
    return "".join(out)


def coq_sources():
    return [f for f in glob.glob(os.path.join(COQ, "**", "*.v"), recursive=True)
            if "/Cases/" not in f and "zz_tmp" not in f]


def dep_closure(targets):
    """.v files the targets depend on (from coq_makefile's .Makefile.d); all sources when unknown"""
    depf = os.path.join(COQ, ".Makefile.d")
    if not os.path.exists(depf):
        return coq_sources()
    deps = {}
    for line in open(depf).read().replace("\\\n", " ").split("\n"):
        if ":" not in line:
            continue
        lhs, rhs = line.split(":", 1)
        vos = [x for x in lhs.split() if x.endswith(".vo")]
        for vo in vos:
            deps[vo] = [x for x in rhs.split() if x.endswith(".vo")]
    seen, todo = set(), list(targets)
    while todo:
        t = todo.pop()
        if t in seen:
            continue
        seen.add(t)
        todo.extend(deps.get(t, []))
    files = [os.path.join(COQ, t[:-1]) for t in seen if os.path.exists(os.path.join(COQ, t[:-1]))]
    return files or coq_sources()


def audit_sources(targets=None):
    """no Admitted/Axiom/... in the development the property's theorems depend on;
    Variable/Hypothesis only inside Sections"""
    problems = []
    for f in (dep_closure(targets) if targets else coq_sources()):
        src = strip_comments(open(f).read())
        # drop string literals
        src_ns = re.sub(r'"[^"]*"', '""', src)
        for m in FORBIDDEN.finditer(src_ns):
            problems.append(f"{os.path.relpath(f, COQ)}: forbidden token {m.group(0)!r}")
        depth = 0
        for sent in re.split(r"\.\s", src_ns):
            s = sent.strip()
            if re.match(r"^Section\b", s):
                depth += 1
            elif re.match(r"^End\b", s) and depth > 0:
                depth -= 1
            elif re.match(r"^(Local\s+|Global\s+)?(Variable|Variables|Hypothesis|Hypotheses|Context)\b", s) and depth == 0:
                problems.append(f"{os.path.relpath(f, COQ)}: {s.split()[0]} outside a Section")
    return problems


def props_theorems(pid):
    p = os.path.join(COQ, "Props", pid + ".v")
    src = strip_comments(open(p).read())
    names = re.findall(r"^\s*Theorem\s+(\w+)", src, re.M)
    # the Props file may contain nothing but Theorem / Proof. exact … Qed. / Redirect Print Assumptions
    # (one `exact` sentence; a dot inside it only as part of a qualified name)
    body = re.sub(r"Theorem\s+\w+\s*:.*?\.\s*Proof\.\s*(intros[^.]*\.\s*)?exact\s(?:[^.]|\.(?=[A-Za-z_]))*?\.\s*Qed\.", "", src, flags=re.S)
    body = re.sub(r'Redirect\s+"[^"]*"\s+Print\s+Assumptions\s+\w+\s*\.', "", body)
    body = re.sub(r"From\s+\w+\s+Require\s+(Import\s+)?[^.]*(\.[A-Za-z_][^.]*)*\.\s", "", body)
    body = re.sub(r"(Require\s+Import|Import|Local\s+Open\s+Scope|Open\s+Scope)[^.]*\.\s", "", body)
    leftover = body.strip()
    return names, leftover


def pin_hash(pid):
    p = os.path.join(COQ, "Props", pid + ".v")
    src = strip_comments(open(p).read())
    stmts = re.findall(r"Theorem\s+\w+\s*:.*?\.\s*Proof\.", src, re.S)
    return hashlib.sha256(re.sub(r"\s+", " ", "\n".join(stmts)).encode()).hexdigest()


def ensure_makefile():
    mk = os.path.join(COQ, "Makefile")
    cp = os.path.join(COQ, "_CoqProject")
    sh([sys.executable, os.path.join(ROOT, "tools", "mkcoqproject.py")], cwd=ROOT)
    if not os.path.exists(mk) or os.path.getmtime(mk) < os.path.getmtime(cp):
        sh("coq_makefile -f _CoqProject -o Makefile", cwd=COQ)
    os.makedirs(os.path.join(COQ, "out"), exist_ok=True)


def stage_translate(spec, log):
    """S0: regenerate gen/*.v; only rewrite a file when its content changed so
    that make rebuilds exactly what depends on a changed source"""
    res = []
    for tr in spec.get("translators", []):
        rc, out, dt = sh([sys.executable, os.path.join(ROOT, "tools", tr[0])] + tr[1:], cwd=ROOT, timeout=300)
        log.append(f"[S0] {' '.join(tr)} rc={rc} {dt:.1f}s\n{out[-2000:]}")
        res.append((tr, rc, out))
    return res


def stage_coq(pid, spec, log):
    ensure_makefile()
    targets = spec["coq_targets"]
    # make sure the assumption dumps exist; if not, force the Props file to rebuild
    names, _ = props_theorems(pid)
    missing = [n for n in names if not os.path.exists(os.path.join(COQ, "out", f"{pid}.{n}.out"))]
    if missing:
        vo = os.path.join(COQ, "Props", pid + ".vo")
        if os.path.exists(vo):
            os.remove(vo)
    rc, out, dt = sh(["make", "-j16"] + targets, cwd=COQ, timeout=spec.get("coq_timeout", 1500))
    log.append(f"[S1] make {' '.join(targets)} rc={rc} {dt:.1f}s\n{out[-6000:]}")
    return rc, out, dt


def stage_audit(pid, log, targets=None):
    problems = audit_sources(targets)
    names, leftover = props_theorems(pid)
    if leftover:
        problems.append(f"Props/{pid}.v contains more than Theorem/exact/Print Assumptions: {leftover[:200]!r}")
    pinf = os.path.join(ROOT, "tools", "pins", pid + ".sha256")
    pinned = open(pinf).read().strip() if os.path.exists(pinf) else None
    if pinned != pin_hash(pid):
        problems.append(f"Props/{pid}.v statements differ from the pinned hash (tools/pins/<id>.sha256, update with tools/pin.py); "
                        f"now {pin_hash(pid)}")
    axioms = {}
    discharged = []
    for n in names:
        f = os.path.join(COQ, "out", f"{pid}.{n}.out")
        if not os.path.exists(f):
            problems.append(f"no Print Assumptions output for {n}")
            continue
        txt = open(f).read()
        if "Closed under the global context" in txt:
            axioms[n] = []
            discharged.append(n)
            continue
        ax = re.findall(r"^([A-Za-z_][\w.']*)\s*:", txt, re.M)
        axioms[n] = ax
        bad = [a for a in ax if a.split(".")[-1] not in AXIOM_ALLOW and a not in AXIOM_ALLOW]
        if bad:
            problems.append(f"{n} depends on non-allow-listed assumptions {bad}")
        else:
            discharged.append(n)
    log.append(f"[S1] audit: {len(names)} theorems, {len(discharged)} discharged, problems={problems}")
    return names, discharged, axioms, problems


def stage_cargo(spec, log):
    lock_src = "/repo/Cargo.lock"
    lock_dst = os.path.join(HARNESS, "Cargo.lock")
    if not os.path.exists(lock_dst):
        shutil.copy(lock_src, lock_dst)
    sh([sys.executable, os.path.join(ROOT, "tools", "mkworkspace.py")], cwd=ROOT)
    cmd = ["cargo", "build", "--release", "--offline", "-p", spec["harness"]]
    rc, out, dt = sh(cmd, cwd=HARNESS, timeout=spec.get("cargo_timeout", 3000))
    if rc != 0 and ("Cargo.lock" in out or "failed to select" in out or "yanked" in out or "needs to be updated" in out):
        # a lock file left from an older /repo (or from before a harness gained a dependency): take /repo's again
        shutil.copy(lock_src, lock_dst)
        rc, out, dt = sh(cmd, cwd=HARNESS, timeout=spec.get("cargo_timeout", 3000))
    log.append(f"[S2] {' '.join(cmd)} rc={rc} {dt:.1f}s\n{out[-4000:]}")
    return rc, out, dt


def stage_harness(pid, spec, tier, seed, log, extra_env=None):
    outdir = os.path.join(WORK, pid)
    os.makedirs(outdir, exist_ok=True)
    for f in glob.glob(os.path.join(outdir, "cases_*")) + glob.glob(os.path.join(outdir, "summary.json")):
        os.remove(f)
    # temporary databases (SharedBuilder::with_temp_db, tempfile) are not removed when the
    # process exits: keep them inside the work directory and delete them after the run
    tmpd = os.path.join(outdir, "tmp")
    shutil.rmtree(tmpd, ignore_errors=True)
    for stale in glob.glob(os.path.join(outdir, "scratch-*")):
        shutil.rmtree(stale, ignore_errors=True)
    os.makedirs(tmpd, exist_ok=True)
    env = dict(ENV, VERIF_SEED=str(seed), VERIF_TIER=tier, HX_OUT=WORK, RUST_BACKTRACE="0", TMPDIR=tmpd)
    env.update(extra_env or {})
    binp = os.path.join(HARNESS, "target", "release", spec["harness"])
    nshards = spec.get("thorough_shards", 0) if (tier == "thorough" and not extra_env) else 0
    if nshards > 1:
        rc, out, dt = run_sharded(pid, spec, binp, env, nshards, seed, outdir)
    else:
        rc, out, dt = sh([binp] + spec.get("harness_args", []), cwd=ROOT,
                         timeout=spec.get("harness_timeout", {"quick": 1500, "thorough": 7200})[tier], env=env)
    log.append(f"[S3] {binp} rc={rc} {dt:.1f}s\n{out[-4000:]}")
    shutil.rmtree(tmpd, ignore_errors=True)
    for stale in glob.glob(os.path.join(outdir, "scratch-*")):
        shutil.rmtree(stale, ignore_errors=True)
    summary = None
    sp = os.path.join(outdir, "summary.json")
    if os.path.exists(sp):
        summary = json.load(open(sp))
    return rc, out, summary


def run_sharded(pid, spec, binp, env, nshards, seed, outdir):
    """Thorough tier of a harness that drives real nodes: every node leaves threads and caches behind
    for the life of the process, so the work is split over `nshards` processes (HX_SHARD / HX_NSHARDS,
    a different seed each; the harness sizes its loops with hx_common::shard_share) and merged."""
    t0 = time.time()
    sdir = os.path.join(outdir, "shards")
    shutil.rmtree(sdir, ignore_errors=True)
    par = spec.get("shard_par", 3)
    def one(i):
        d = os.path.join(sdir, f"{i:02d}")
        os.makedirs(os.path.join(d, "tmp"), exist_ok=True)
        e = dict(env, HX_SHARD=str(i), HX_NSHARDS=str(nshards), HX_OUT=d, TMPDIR=os.path.join(d, "tmp"),
                 VERIF_SEED=str((seed * 1000003 + i + 1) % (1 << 63)))
        rc, out, dt = sh([binp] + spec.get("harness_args", []), cwd=ROOT,
                         timeout=spec.get("harness_timeout", {"quick": 1500, "thorough": 7200})["thorough"], env=e)
        shutil.rmtree(os.path.join(d, "tmp"), ignore_errors=True)
        return i, rc, out
    with ThreadPoolExecutor(max_workers=par) as ex:
        res = list(ex.map(one, range(nshards)))
    merged = {"property": pid, "seed": seed, "shards": nshards, "evaluations": 0, "distinct_nontrivial": 0,
              "rule": None, "distribution": {}, "samples": [], "impl_violations": []}
    rc_all, outs = 0, []
    for i, rc, out in res:
        outs.append(f"[shard {i}] rc={rc} {out[-600:]}")
        d = os.path.join(sdir, f"{i:02d}", pid)
        sp = os.path.join(d, "summary.json")
        if rc != 0 or not os.path.exists(sp):
            rc_all = rc or 3
            continue
        sm = json.load(open(sp))
        merged["evaluations"] += sm.get("evaluations", 0)
        merged["distinct_nontrivial"] += sm.get("distinct_nontrivial", 0)
        merged["rule"] = sm.get("rule")
        for k, v in (sm.get("distribution") or {}).items():
            if isinstance(v, (int, float)):
                merged["distribution"][k] = merged["distribution"].get(k, 0) + v
        merged["samples"] += (sm.get("samples") or [])[: max(0, 6 - len(merged["samples"]))]
        for v in sm.get("impl_violations") or []:
            v = dict(v); v["shard"] = i; v["shard_env"] = f"HX_SHARD={i} HX_NSHARDS={nshards} VERIF_SEED={(seed * 1000003 + i + 1) % (1 << 63)}"
            merged["impl_violations"].append(v)
        for k in sm:
            if k not in merged:
                merged[k] = sm[k]
        for f in glob.glob(os.path.join(d, "cases_*")):
            os.replace(f, os.path.join(outdir, "cases_s%02d_%s" % (i, os.path.basename(f)[len("cases_"):])))
    shutil.rmtree(sdir, ignore_errors=True)
    json.dump(merged, open(os.path.join(outdir, "summary.json"), "w"), indent=1)
    return rc_all, "\n".join(outs), time.time() - t0


def run_coqc_cases(path):
    rc, out, dt = sh(["coqc", "-noglob", "-Q", COQ, "CKB", path], cwd=os.path.dirname(path), timeout=3000)
    bad = {}
    for m in re.finditer(r'\("HXBAD_(\w+)"(?:%string)?,\s*\[(.*?)\]\)', out, re.S):
        idx = [int(x) for x in re.findall(r"(\d+)(?:%N)?", m.group(2))]
        bad[m.group(1)] = idx
    try:
        written = len(re.findall(r"^Definition bad_\w+ :=", open(path).read(), re.M))
    except OSError:
        written = 0
    if rc == 0 and len(bad) != written:
        rc = 3
        out += f"\n[vcheck] parsed {len(bad)} result groups but the case file defines {written}"
    # cleanup compiled case files
    for ext in (".vo", ".vok", ".vos", ".glob"):
        p = path[:-2] + ext
        if os.path.exists(p):
            os.remove(p)
    return path, rc, out, bad


def stage_model(pid, log):
    outdir = os.path.join(WORK, pid)
    files = sorted(glob.glob(os.path.join(outdir, "cases_*.v")))
    results = []
    # coqc needs roughly 400 bytes of memory per byte of case file (list literals): keep the
    # shards that run at the same time under ~40 GB
    biggest = max([os.path.getsize(f) for f in files] + [1])
    workers = max(1, min(16, int(40e9 / (biggest * 400))))
    with ThreadPoolExecutor(max_workers=workers) as ex:
        results = list(ex.map(run_coqc_cases, files))
    mism, errors, groups_seen = [], [], 0
    for path, rc, out, bad in results:
        if rc != 0:
            errors.append((path, out[-1500:]))
            continue
        groups_seen += len(bad)
        descs = {}
        jp = path[:-2] + ".json"
        if os.path.exists(jp):
            descs = json.load(open(jp))
        for g, idxs in bad.items():
            for i in idxs:
                d = None
                if g in descs and i < len(descs[g]):
                    d = descs[g][i]
                mism.append({"file": os.path.basename(path), "group": g, "index": i, "case": d})
    log.append(f"[S3] coqc on {len(files)} case files: {len(mism)} mismatching cases, {len(errors)} files failed")
    return files, mism, errors


def load_known(pid):
    p = os.path.join(ROOT, "known_findings.json")
    if not os.path.exists(p):
        return []
    return [k for k in json.load(open(p)).get("findings", []) if k["property"] == pid]


def write_replay(pid, name, content):
    d = os.path.join(ROOT, "replays")
    os.makedirs(d, exist_ok=True)
    p = os.path.join(d, f"{pid}_{name}.json")
    json.dump(content, open(p, "w"), indent=1)
    return p


def main():
    args = sys.argv[1:]
    if not args:
        print(__doc__); sys.exit(2)
    pid = args[0]
    tier = os.environ.get("VERIF_TIER", "quick")
    replay = None
    i = 1
    while i < len(args):
        if args[i] == "--tier":
            tier = args[i + 1]; i += 2
        elif args[i] == "--replay":
            replay = args[i + 1]; i += 2
        else:
            i += 1
    seed = int(os.environ.get("VERIF_SEED", "20260925"))
    spec = registry.PROPS[pid]
    t0 = time.time()
    log = []
    violations = []   # (line-suffix, replay-content)
    known_hits = []

    if replay:
        rc, out, dt = stage_cargo(spec, log)
        env = {"HX_REPLAY": os.path.abspath(replay)}
        rc, out, summary = stage_harness(pid, spec, tier, seed, log, env)
        print(out)
        sys.exit(0 if rc == 0 else 1)

    # ---- S0/S1 -------------------------------------------------------------
    # coordination with the seeded-change runs of the build round (tools/with_patch.sh holds
    # /tmp/repo.lock while /repo carries a patch): with VCHECK_REPO_LOCK=1 everything that reads
    # /repo's sources (translators, cargo build) happens while holding that lock.  Off by default.
    # one check of a property at a time: they share work/<id>/ (case files, scratch, summary)
    # lock order: the /repo lock first (tools/locked_check.sh and tools/with_patch.sh take it before they
    # start this script), then the per-property lock — the other order deadlocks against them
    locked = False
    if os.environ.get("VCHECK_REPO_LOCK") == "1":
        while True:
            try:
                os.mkdir("/tmp/repo.lock"); locked = True; break
            except FileExistsError:
                time.sleep(10)
    plock = os.path.join(WORK, pid, ".lock")
    os.makedirs(os.path.join(WORK, pid), exist_ok=True)
    while True:
        try:
            os.mkdir(plock)
            open(os.path.join(plock, "pid"), "w").write(str(os.getpid()))
            break
        except FileExistsError:
            try:
                other = int(open(os.path.join(plock, "pid")).read().strip())
                os.kill(other, 0)
            except (OSError, ValueError):
                shutil.rmtree(plock, ignore_errors=True)   # the holder is gone
                continue
            time.sleep(5)
    import atexit
    atexit.register(lambda: shutil.rmtree(plock, ignore_errors=True))
    try:
        return main_locked(pid, tier, seed, spec, t0, log, violations, known_hits, lambda: release_lock(locked))
    finally:
        release_lock(locked)


_released = [False]
def release_lock(locked):
    if locked and not _released[0]:
        _released[0] = True
        try:
            os.rmdir("/tmp/repo.lock")
        except OSError:
            pass


def main_locked(pid, tier, seed, spec, t0, log, violations, known_hits, unlock):
    tr = stage_translate(spec, log)
    tr_fail = [(t, o) for (t, rc, o) in tr if rc != 0]
    rc_coq, out_coq, dt_coq = stage_coq(pid, spec, log)
    names, discharged, axioms, problems = stage_audit(pid, log, spec["coq_targets"])
    if rc_coq != 0:
        # which theorem / file no longer checks
        m = re.search(r'File "([^"]+)", line (\d+)', out_coq)
        discharged = []
        problems.append("Coq build failed: " + (m.group(0) if m else "see log"))
    proof_ok = (rc_coq == 0 and not problems and not tr_fail and len(discharged) == len(names))

    # ---- S2/S3 -------------------------------------------------------------
    summary, mism, coq_errors, case_files = None, [], [], []
    rc_cargo, out_cargo, _ = stage_cargo(spec, log)
    unlock()
    harness_ok = False
    if rc_cargo == 0:
        rc_h, out_h, summary = stage_harness(pid, spec, tier, seed, log)
        if rc_h == 0 and summary is not None:
            harness_ok = True
            case_files, mism, coq_errors = stage_model(pid, log)
    impl_viol = (summary or {}).get("impl_violations", [])

    # ---- S4/S5: verdict ------------------------------------------------------
    known = load_known(pid)

    def is_known(v):
        sig = v.get("signature")
        for k in known:
            if k.get("status", "known") == "known" and sig and sig == k.get("signature"):
                return k
        return None

    new_impl = []
    for v in impl_viol:
        k = is_known(v)
        if k:
            known_hits.append((k, v))
        else:
            new_impl.append(v)
    printed_known = set()
    for k, v in known_hits:
        if k["signature"] not in printed_known:
            printed_known.add(k["signature"])
            print(f"KNOWN-FINDING: property={pid} {k['description']}")

    if new_impl:
        p = write_replay(pid, "impl_violation", {
            "property": pid, "kind": "property predicate false on the implementation",
            "how_to_replay": f"./check {pid} --replay <this file>",
            "seed": seed, "tier": tier, "violations": new_impl[:20], "total": len(new_impl)})
        violations.append(("", p))
    elif mism:
        # model and implementation disagree although the property predicate held on
        # everything the harness saw: report the disagreeing input
        new_m = [m for m in mism if not (m.get("case") or {}).get("known_signature")
                 or not is_known({"signature": m["case"]["known_signature"]})]
        if new_m:
            p = write_replay(pid, "correspondence", {
                "property": pid,
                "kind": "correspondence: implementation and Coq model disagree on these inputs",
                "broken": f"correspondence check of {spec['harness']} against {', '.join(spec['coq_targets'])}",
                "seed": seed, "tier": tier, "cases": new_m[:10], "total": len(new_m)})
            violations.append(("no-failing-input-found", p))
    if not violations:
        if rc_cargo != 0:
            p = write_replay(pid, "harness_build", {
                "property": pid, "kind": "the correspondence harness no longer builds against /repo",
                "broken": f"cargo build -p {spec['harness']}", "output_tail": out_cargo[-3000:]})
            violations.append(("no-failing-input-found", p))
        elif not harness_ok:
            p = write_replay(pid, "harness_run", {
                "property": pid, "kind": "the correspondence harness crashed or timed out",
                "broken": spec["harness"], "log_tail": log[-1][-3000:]})
            violations.append(("no-failing-input-found", p))
        elif coq_errors:
            p = write_replay(pid, "cases_eval", {
                "property": pid, "kind": "the model could not be evaluated on the generated cases",
                "broken": "coqc on generated case files", "errors": coq_errors[:3]})
            violations.append(("no-failing-input-found", p))
        elif not proof_ok:
            p = write_replay(pid, "proof", {
                "property": pid, "kind": "proof obligations no longer check",
                "broken": problems + [f"translator {t} failed" for t, _ in tr_fail],
                "theorems": names, "discharged": discharged,
                "coq_output_tail": out_coq[-3000:]})
            violations.append(("no-failing-input-found", p))

    # ---- evidence -----------------------------------------------------------
    wall = time.time() - t0
    cov = {
        "obligations": max(1, len(names)),
        "discharged": len(discharged),
        "checker_cmd": f"make -C coq {' '.join(spec['coq_targets'])} (coqc 8.16.1, full .vo build) + tools/vcheck.py audit",
        "trusted_base": spec["trusted_base"],
        "theorems": names,
        "axioms_per_theorem": axioms,
        "statement_pin_sha256": pin_hash(pid),
        "evaluations": (summary or {}).get("evaluations", 0),
        "distinct_nontrivial": (summary or {}).get("distinct_nontrivial", 0),
        "rule": (summary or {}).get("rule", ""),
        "samples": (summary or {}).get("samples", [])[:3] or [{"theorems": names}],
        "traces_validated_against_impl": (summary or {}).get("evaluations", 0) if harness_ok and not coq_errors else 0,
        "model_case_files": len(case_files),
        "model_mismatches": len(mism),
        "impl_predicate_violations": len(impl_viol),
        "known_findings_hit": sorted(printed_known),
        "distribution": (summary or {}).get("distribution", {}),
        "translators": [" ".join(t[0]) for t in tr],
    }
    for k, v in (summary or {}).get("extra_coverage", {}).items():
        cov[k] = v
    ev = {
        "property_id": pid, "tier": tier, "seed": seed, "level": "proof",
        "coverage": cov,
        "assumptions": spec.get("assumptions", []),
        "wall_s": round(wall, 2),
        "violations": len(violations),
    }
    os.makedirs(os.path.join(ROOT, "evidence"), exist_ok=True)
    json.dump(ev, open(os.path.join(ROOT, "evidence", pid + ".json"), "w"), indent=1)
    os.makedirs(WORK, exist_ok=True)
    open(os.path.join(WORK, pid + ".log"), "w").write("\n\n".join(log))

    for suffix, p in violations:
        print(f"VIOLATION property={pid} replay={p}" + (f" {suffix}" if suffix else ""))
    if violations:
        sys.exit(1)
    print(f"OK property={pid} tier={tier} theorems={len(discharged)}/{len(names)} "
          f"cases={cov['evaluations']} mismatches=0 wall={wall:.0f}s")
    sys.exit(0)


if __name__ == "__main__":
    main()
