#!/usr/bin/env python3
"""tools/const2v.py <property>  — extracts the consensus constants the theorems
of a property depend on from the Rust source text of /repo and writes
coq/gen/Params<property>.v (N literals, file:line provenance, the source
expression as a comment).  The file is rewritten only when its content changed.
Constant expressions are evaluated by a small evaluator (integer literals with
`_` and type suffixes, hex, + - * / << >> | &, parentheses, names of other
constants, `Self::X`, `Capacity::shannons(e)`, `a.div_ceil(b)`, `as u64`,
tuples of those).  Anything else is an error: the translator fails closed
(exit 1), which the check reports.

Only C07 is known here; other properties add their own table.
"""
import os, re, sys

REPO = os.environ.get("VERIF_REPO", "/repo")
ROOT = os.path.dirname(os.path.dirname(os.path.abspath(__file__)))

# (coq name, file, rust const name, scope) ; scope = None for a module-level
# const, or the name of the impl block the associated const lives in
TABLES = {
    "C07": [
        ("TAU", "util/constant/src/consensus.rs", "TAU", None),
        ("MAX_BLOCK_INTERVAL", "spec/src/consensus.rs", "MAX_BLOCK_INTERVAL", None),
        ("MIN_BLOCK_INTERVAL", "spec/src/consensus.rs", "MIN_BLOCK_INTERVAL", None),
        ("DEFAULT_EPOCH_DURATION_TARGET", "spec/src/consensus.rs", "DEFAULT_EPOCH_DURATION_TARGET", None),
        ("MILLISECONDS_IN_A_SECOND", "spec/src/consensus.rs", "MILLISECONDS_IN_A_SECOND", None),
        ("MAX_EPOCH_LENGTH", "spec/src/consensus.rs", "MAX_EPOCH_LENGTH", None),
        ("MIN_EPOCH_LENGTH", "spec/src/consensus.rs", "MIN_EPOCH_LENGTH", None),
        ("GENESIS_EPOCH_LENGTH", "spec/src/consensus.rs", "GENESIS_EPOCH_LENGTH", None),
        ("DEFAULT_PRIMARY_EPOCH_REWARD_HALVING_INTERVAL", "spec/src/consensus.rs",
         "DEFAULT_PRIMARY_EPOCH_REWARD_HALVING_INTERVAL", None),
        ("INITIAL_PRIMARY_EPOCH_REWARD", "spec/src/consensus.rs", "INITIAL_PRIMARY_EPOCH_REWARD", None),
        ("DEFAULT_SECONDARY_EPOCH_REWARD", "spec/src/consensus.rs", "DEFAULT_SECONDARY_EPOCH_REWARD", None),
        ("DEFAULT_ORPHAN_RATE_TARGET", "spec/src/consensus.rs", "DEFAULT_ORPHAN_RATE_TARGET", None),
        ("DIFF_TWO_SRC", "util/types/src/utilities/difficulty.rs", "DIFF_TWO", None),
        ("ENF_NUMBER_OFFSET", "util/types/src/core/extras.rs", "NUMBER_OFFSET", "EpochNumberWithFraction"),
        ("ENF_NUMBER_BITS", "util/types/src/core/extras.rs", "NUMBER_BITS", "EpochNumberWithFraction"),
        ("ENF_NUMBER_MAXIMUM_VALUE", "util/types/src/core/extras.rs", "NUMBER_MAXIMUM_VALUE", "EpochNumberWithFraction"),
        ("ENF_NUMBER_MASK", "util/types/src/core/extras.rs", "NUMBER_MASK", "EpochNumberWithFraction"),
        ("ENF_INDEX_OFFSET", "util/types/src/core/extras.rs", "INDEX_OFFSET", "EpochNumberWithFraction"),
        ("ENF_INDEX_BITS", "util/types/src/core/extras.rs", "INDEX_BITS", "EpochNumberWithFraction"),
        ("ENF_INDEX_MAXIMUM_VALUE", "util/types/src/core/extras.rs", "INDEX_MAXIMUM_VALUE", "EpochNumberWithFraction"),
        ("ENF_INDEX_MASK", "util/types/src/core/extras.rs", "INDEX_MASK", "EpochNumberWithFraction"),
        ("ENF_LENGTH_OFFSET", "util/types/src/core/extras.rs", "LENGTH_OFFSET", "EpochNumberWithFraction"),
        ("ENF_LENGTH_BITS", "util/types/src/core/extras.rs", "LENGTH_BITS", "EpochNumberWithFraction"),
        ("ENF_LENGTH_MAXIMUM_VALUE", "util/types/src/core/extras.rs", "LENGTH_MAXIMUM_VALUE", "EpochNumberWithFraction"),
        ("ENF_LENGTH_MASK", "util/types/src/core/extras.rs", "LENGTH_MASK", "EpochNumberWithFraction"),
    ],
}


class Fail(Exception):
    pass


def strip_line_comments(text):
    return "\n".join(re.sub(r"//.*$", "", l) for l in text.split("\n"))


_CONST_RE = re.compile(r"\bconst\s+([A-Z][A-Z0-9_]*)\s*:\s*([^=;]+?)\s*=\s*(.*?);", re.S)


def find_consts(path):
    """all `const NAME: T = expr;` of a file: name -> list of (line, type, expr, scope)"""
    raw = open(path).read()
    text = strip_line_comments(raw)
    # scopes: remember the most recent `impl X {` at column 0 / `}` at column 0
    scopes = []  # (start offset, end offset, name)
    for m in re.finditer(r"^impl(?:<[^>]*>)?\s+([A-Za-z_][\w]*)\s*\{", text, re.M):
        end = text.find("\n}\n", m.end())
        scopes.append((m.start(), end if end >= 0 else len(text), m.group(1)))
    out = {}
    for m in _CONST_RE.finditer(text):
        line = text.count("\n", 0, m.start()) + 1
        sc = None
        for (a, b, n) in scopes:
            if a <= m.start() < b:
                sc = n
        out.setdefault(m.group(1), []).append((line, m.group(2).strip(), " ".join(m.group(3).split()), sc))
    return out


_TOK = re.compile(r"\s*(0x[0-9a-fA-F_]+|[0-9][0-9_]*(?:u8|u16|u32|u64|u128|usize|i32|i64)?|[A-Za-z_][\w]*(?:::[A-Za-z_][\w]*)*|<<|>>|[-+*/()|&,.])")
_SUFFIX = re.compile(r"(u8|u16|u32|u64|u128|usize|i32|i64)$")


def tokenize(s):
    toks, i = [], 0
    s = s.strip()
    while i < len(s):
        m = _TOK.match(s, i)
        if not m:
            raise Fail(f"cannot tokenize {s[i:]!r}")
        toks.append(m.group(1))
        i = m.end()
    return toks


class Eval:
    """precedence climbing over the token list; values are ints or tuples"""
    PREC = {"|": 1, "&": 2, "<<": 3, ">>": 3, "+": 4, "-": 4, "*": 5, "/": 5}

    def __init__(self, toks, lookup):
        self.t, self.i, self.lookup = toks, 0, lookup

    def peek(self):
        return self.t[self.i] if self.i < len(self.t) else None

    def take(self, x=None):
        tok = self.peek()
        if tok is None or (x is not None and tok != x):
            raise Fail(f"expected {x!r}, found {tok!r}")
        self.i += 1
        return tok

    def expr(self, minprec=1):
        lhs = self.postfix()
        while True:
            op = self.peek()
            if op in self.PREC and self.PREC[op] >= minprec:
                self.take()
                rhs = self.expr(self.PREC[op] + 1)
                lhs = self.apply(op, lhs, rhs)
            else:
                return lhs

    @staticmethod
    def apply(op, a, b):
        if not isinstance(a, int) or not isinstance(b, int):
            raise Fail("operator on a tuple")
        if op == "+": return a + b
        if op == "-":
            if a < b: raise Fail("negative constant")
            return a - b
        if op == "*": return a * b
        if op == "/":
            if b == 0: raise Fail("division by zero in a constant")
            return a // b
        if op == "<<": return a << b
        if op == ">>": return a >> b
        if op == "|": return a | b
        if op == "&": return a & b
        raise Fail(op)

    def postfix(self):
        v = self.atom()
        while self.peek() == ".":
            self.take()
            name = self.take()
            if name == "div_ceil":
                self.take("(")
                b = self.expr()
                self.take(")")
                v = -(-v // b)
            elif name.isdigit():        # tuple field
                v = v[int(name)]
            else:
                raise Fail(f"method {name}")
        while self.peek() == "as":
            self.take(); self.take()
        return v

    def atom(self):
        tok = self.take()
        if tok == "(":
            vals = [self.expr()]
            while self.peek() == ",":
                self.take()
                if self.peek() == ")":
                    break
                vals.append(self.expr())
            self.take(")")
            return vals[0] if len(vals) == 1 else tuple(vals)
        if re.match(r"0x", tok):
            return int(_SUFFIX.sub("", tok.replace("_", "")), 16)
        if tok[0].isdigit():
            return int(_SUFFIX.sub("", tok.replace("_", "")))
        if tok in ("Capacity::shannons",):
            self.take("(")
            v = self.expr()
            self.take(")")
            return v
        if tok == "as":
            raise Fail("unexpected as")
        name = tok.split("::")[-1]
        if re.match(r"^[A-Z][A-Z0-9_]*$", name):
            return self.lookup(name, tok)
        raise Fail(f"unknown atom {tok!r}")


def main():
    pid = sys.argv[1] if len(sys.argv) > 1 else "C07"
    table = TABLES[pid]
    cache = {}

    def consts_of(rel):
        if rel not in cache:
            cache[rel] = find_consts(os.path.join(REPO, rel))
        return cache[rel]

    # `use` of constants from other files that appear inside expressions
    extern = {"TAU": "util/constant/src/consensus.rs"}

    def value_of(rel, name, scope, depth=0):
        if depth > 20:
            raise Fail("cyclic constants")
        cs = consts_of(rel).get(name, [])
        cs = [c for c in cs if scope is None or c[3] == scope] or cs
        if not cs and name in extern:
            return value_of(extern[name], name, None, depth + 1)
        if len(cs) != 1:
            raise Fail(f"{rel}: constant {name} found {len(cs)} times")
        line, ty, expr, sc = cs[0]
        ev = Eval(tokenize(expr), lambda n, tok: value_of(rel, n, sc if tok.startswith("Self::") else None, depth + 1)[0])
        v = ev.expr()
        if ev.peek() is not None:
            raise Fail(f"{rel}:{line}: trailing tokens in {expr!r}")
        return v, line, ty, expr

    lines = [f"(* coq/gen/Params{pid}.v — GENERATED by tools/const2v.py from the Rust source of /repo; do not edit. *)",
             "From Coq Require Import NArith.", "Local Open Scope N_scope.", ""]
    try:
        for (coq, rel, name, scope) in table:
            v, line, ty, expr = value_of(rel, name, scope)
            src = f"(* {rel}:{line}  const {name}: {ty} = {expr} *)"
            if isinstance(v, tuple):
                for k, x in enumerate(v):
                    lines.append(f"Definition {coq}_{k} : N := {x}. {src}")
            else:
                lines.append(f"Definition {coq} : N := {v}. {src}")
    except Fail as e:
        print(f"const2v: {e}", file=sys.stderr)
        sys.exit(1)
    txt = "\n".join(lines) + "\n"
    out = os.path.join(ROOT, "coq", "gen", f"Params{pid}.v")
    os.makedirs(os.path.dirname(out), exist_ok=True)
    if not os.path.exists(out) or open(out).read() != txt:
        open(out, "w").write(txt)
        print(f"const2v: wrote {out}")
    else:
        print(f"const2v: {out} unchanged")


if __name__ == "__main__":
    main()
