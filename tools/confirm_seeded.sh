#!/bin/bash
# confirm_seeded.sh <id> <crate> [test filter]  — re-runs a seeded change's demonstration in its scratch worktree
# /tmp/mut/<id>: (1) with the change: existing tests of the crate pass, the demo fails; (2) without: the demo passes.
id=$1; crate=$2; filter=${3:-}
wt=/tmp/mut/$id; out=/tmp/mut/$id.out
export CARGO_TARGET_DIR=/tmp/mut/target-$id CARGO_NET_OFFLINE=true
cd $wt || exit 2
git checkout -q -- . ; git clean -fdq
git apply $out/patch.diff && git apply $out/demo.diff || { echo "patches do not apply"; exit 2; }
echo "== with the change"; cargo test --offline -p $crate $filter -- --test-threads=1 2>&1 | grep -E "^test |test result|error(\[|:)" | tail -15
git apply -R $out/patch.diff
echo "== without the change"; cargo test --offline -p $crate $filter -- --test-threads=1 2>&1 | grep -E "^test |test result|error(\[|:)" | tail -15
git checkout -q -- . ; git clean -fdq
