#!/usr/bin/env python3
"""mol2v — translates /repo/util/gen-types/schemas/*.mol into

  coq/gen/Schema.v                       the CKB types as terms of Codec.Molecule.ty, the table of
                                         all types, and the constants the generated Rust readers
                                         use (TOTAL_SIZE / FIELD_COUNT / ITEM_SIZE / union ids,
                                         read from util/gen-types/src/generated/*.rs) so that
                                         Codec/SchemaWf.v re-proves by computation that the schema
                                         is well-formed and that .mol and generated .rs agree
  harness/hx-codec/src/gen_schema.rs     for every type: a builder-driven value generator, a
                                         field-by-field rebuild through EVERY generated accessor
                                         and builder, and the strict/compatible verdict function

Both files are rewritten only when their content changes. python3 stdlib only."""
import os, re, sys

ROOT = os.path.dirname(os.path.dirname(os.path.abspath(__file__)))
REPO = os.environ.get("VERIF_REPO", "/repo")
SCHEMAS = [os.path.join(REPO, "util/gen-types/schemas", f) for f in ("blockchain.mol", "extensions.mol", "protocols.mol")]
GENERATED = [os.path.join(REPO, "util/gen-types/src/generated", f) for f in ("blockchain.rs", "extensions.rs", "protocols.rs")]
OUT_V = os.path.join(ROOT, "coq", "gen", "Schema.v")
OUT_RS = os.path.join(ROOT, "harness", "hx-codec", "src", "gen_schema.rs")


def fail(msg):
    print("mol2v: " + msg, file=sys.stderr)
    sys.exit(1)


def strip_comments(s):
    s = re.sub(r"/\*.*?\*/", " ", s, flags=re.S)
    s = re.sub(r"//[^\n]*", " ", s)
    return s


def parse_mol(src, origin):
    """-> list of (name, kind, payload) in file order"""
    decls = []
    s = strip_comments(src)
    pos = 0
    tok = re.compile(r"\s*(?:"
                     r"(?P<imp>import\s+\w+\s*;)|"
                     r"array\s+(?P<an>\w+)\s*\[\s*(?P<at>\w+)\s*;\s*(?P<ac>\d+)\s*\]\s*;|"
                     r"vector\s+(?P<vn>\w+)\s*<\s*(?P<vt>\w+)\s*>\s*;|"
                     r"option\s+(?P<on>\w+)\s*\(\s*(?P<ot>\w+)\s*\)\s*;|"
                     r"(?P<sk>struct|table)\s+(?P<sn>\w+)\s*\{(?P<sb>[^}]*)\}|"
                     r"union\s+(?P<un>\w+)\s*\{(?P<ub>[^}]*)\}"
                     r")", re.S)
    while True:
        if not s[pos:].strip():
            break
        m = tok.match(s, pos)
        if not m:
            fail(f"{origin}: cannot parse near {s[pos:pos+60]!r}")
        pos = m.end()
        if m.group("imp"):
            continue
        if m.group("an"):
            decls.append((m.group("an"), "array", (m.group("at"), int(m.group("ac")))))
        elif m.group("vn"):
            decls.append((m.group("vn"), "vector", m.group("vt")))
        elif m.group("on"):
            decls.append((m.group("on"), "option", m.group("ot")))
        elif m.group("sn"):
            fields = []
            for f in m.group("sb").split(","):
                f = f.strip()
                if not f:
                    continue
                fm = re.match(r"^(\w+)\s*:\s*(\w+)$", f)
                if not fm:
                    fail(f"{origin}: bad field {f!r} in {m.group('sn')}")
                fields.append((fm.group(1), fm.group(2)))
            decls.append((m.group("sn"), m.group("sk"), fields))
        else:
            items, nxt = [], 0
            for it in m.group("ub").split(","):
                it = it.strip()
                if not it:
                    continue
                im = re.match(r"^(\w+)(?:\s*:\s*(\d+))?$", it)
                if not im:
                    fail(f"{origin}: bad union item {it!r}")
                idn = int(im.group(2)) if im.group(2) is not None else nxt
                items.append((idn, im.group(1)))
                nxt = idn + 1
            decls.append((m.group("un"), "union", items))
    return decls


def load_schema():
    decls = {}
    order = []
    for p in SCHEMAS:
        for name, kind, payload in parse_mol(open(p).read(), p):
            if name in decls:
                fail(f"type {name} declared twice")
            decls[name] = (kind, payload)
            order.append(name)
    return decls, order


def deps(kind, payload):
    if kind == "array":
        return [payload[0]]
    if kind in ("vector", "option"):
        return [payload]
    if kind in ("struct", "table"):
        return [t for _, t in payload]
    return [t for _, t in payload]


def topo(decls, order):
    out, state = [], {}

    def visit(n, stack):
        if n == "byte":
            return
        if n not in decls:
            fail(f"unknown type {n} (used by {stack[-1] if stack else '?'})")
        if state.get(n) == 2:
            return
        if state.get(n) == 1:
            fail(f"recursive type {n}")
        state[n] = 1
        for d in deps(*decls[n]):
            visit(d, stack + [n])
        state[n] = 2
        out.append(n)
    for n in order:
        visit(n, [])
    return out


def fixed_size(decls, n, memo):
    if n == "byte":
        return 1
    if n in memo:
        return memo[n]
    kind, p = decls[n]
    r = None
    if kind == "array":
        s = fixed_size(decls, p[0], memo)
        r = None if s is None else s * p[1]
    elif kind == "struct":
        ss = [fixed_size(decls, t, memo) for _, t in p]
        r = None if any(x is None for x in ss) else sum(ss)
    memo[n] = r
    return r


def coq_ref(n):
    return "TByte" if n == "byte" else "T_" + n


def rust_consts():
    """constants of the generated readers: {Type: {CONST: value}} and union ids"""
    consts, unions = {}, {}
    for p in GENERATED:
        src = open(p).read()
        for m in re.finditer(r"^impl<'r> (\w+)Reader<'r> \{\n((?:    pub const [^\n]*\n)*)", src, re.M):
            d = consts.setdefault(m.group(1), {})
            for c in re.finditer(r"pub const (\w+): usize = (\d+);", m.group(2)):
                d[c.group(1)] = int(c.group(2))
        for m in re.finditer(r"^impl<'r> (\w+)Reader<'r> \{\n    pub const ITEMS_COUNT.*?pub fn to_enum\(&self\)[^\n]*\n.*?match self\.item_id\(\) \{\n(.*?)\n            _ =>", src, re.M | re.S):
            unions[m.group(1)] = [(int(a.group(1)), a.group(2)) for a in re.finditer(r"(\d+) => (\w+)Reader::new_unchecked", m.group(2))]
    return consts, unions


def write_if_changed(path, txt):
    os.makedirs(os.path.dirname(path), exist_ok=True)
    if not os.path.exists(path) or open(path).read() != txt:
        open(path, "w").write(txt)
        return True
    return False


# ---------------------------------------------------------------- Coq ----
def gen_coq(decls, order, kinds):
    consts, unions = rust_consts()
    L = ["(* generated by tools/mol2v.py from util/gen-types/schemas/*.mol and src/generated/*.rs — do not edit *)",
         "From Coq Require Import List NArith String.",
         "From CKB Require Import Codec.Molecule.",
         "Import ListNotations.", "Local Open Scope N_scope.", ""]
    for n in order:
        kind, p = decls[n]
        k = kinds[n]
        if k == "array":
            body = f"TArray {p[1]}%nat {coq_ref(p[0])}"
        elif k == "fixvec":
            body = f"TFixVec {coq_ref(p)}"
        elif k == "dynvec":
            body = f"TDynVec {coq_ref(p)}"
        elif k == "option":
            body = f"TOption {coq_ref(p)}"
        elif k == "struct":
            body = "TStruct [" + "; ".join(coq_ref(t) for _, t in p) + "]"
        elif k == "table":
            body = "TTable [" + "; ".join(coq_ref(t) for _, t in p) + "]"
        else:
            body = "TUnion [" + "; ".join(f"({i}, {coq_ref(t)})" for i, t in p) + "]"
        L.append(f"Definition T_{n} : ty := {body}.")
    L.append("")
    L.append("Definition schema : list (string * ty) := [")
    L.append(";\n".join(f'  ("{n}"%string, T_{n})' for n in order))
    L.append("].")
    L.append("")
    # constants of the generated Rust readers
    ts, fc, isz, uid = [], [], [], []
    for n in order:
        c = consts.get(n)
        if c is None:
            fail(f"type {n} of the schema has no generated reader in src/generated/*.rs")
        k = kinds[n]
        if "TOTAL_SIZE" in c:
            ts.append(f"(T_{n}, {c['TOTAL_SIZE']}%nat)")
        elif k in ("array", "struct"):
            fail(f"generated reader of {n} has no TOTAL_SIZE")
        if k in ("struct", "table"):
            if "FIELD_COUNT" not in c:
                fail(f"generated reader of {n} has no FIELD_COUNT")
            fc.append(f"(T_{n}, {c['FIELD_COUNT']}%nat)")
        if k == "fixvec":
            if "ITEM_SIZE" not in c:
                fail(f"generated reader of {n} has no ITEM_SIZE")
            isz.append(f"(T_{n}, {c['ITEM_SIZE']}%nat)")
        if k == "dynvec" and "ITEM_SIZE" in c:
            fail(f"{n}: .mol says dynamic vector, generated reader is a fixed vector")
        if k == "union":
            if n not in unions:
                fail(f"generated reader of union {n} not found")
            uid.append(f"(T_{n}, [" + "; ".join(f"{i}" for i, _ in unions[n]) + "])")
            if [t for _, t in unions[n]] != [t for _, t in decls[n][1]]:
                fail(f"union {n}: arm order differs between .mol and generated reader")
    extra = set(c for c in consts if not c.endswith('Union')) - set(order)
    if extra:
        fail(f"generated readers without a schema type: {sorted(extra)}")

    def lst(name, typ, xs):
        L.append(f"Definition {name} : list ({typ}) := [")
        L.append(";\n".join("  " + x for x in xs))
        L.append("].")
    lst("rust_total_sizes", "ty * nat", ts)
    lst("rust_field_counts", "ty * nat", fc)
    lst("rust_item_sizes", "ty * nat", isz)
    lst("rust_union_ids", "ty * list N", uid)
    return "\n".join(L) + "\n"


# --------------------------------------------------------------- Rust ----
def gen_rust(decls, order, kinds):
    R = ["// @generated by /verif/tools/mol2v.py from util/gen-types/schemas/*.mol — do not edit",
         "#![allow(non_snake_case, unused_variables, unused_mut, clippy::all)]",
         "use crate::gen::{Gen, Verdict, Walk};",
         "use ckb_types::{packed, prelude::*};", ""]

    def reb(t, expr):
        return f"{expr}.to_entity()" if t == "byte" else f"rebuild_{t}({expr}, w)"

    def gen(t, owner, field):
        return f'g.byte_field("{owner}", "{field}")' if t == "byte" else f"gen_{t}(g)"

    for n in order:
        kind, p = decls[n]
        k = kinds[n]
        E, Rd = f"packed::{n}", f"packed::{n}Reader<'_>"
        R.append(f"// ---- {k} {n}")
        R.append(f"pub fn rebuild_{n}(r: {Rd}, w: &mut Walk) -> {E} {{")
        R.append("    w.visit(r.as_slice().len());")
        R.append("    w.visit(r.to_entity().as_slice().len());")
        if k == "array":
            t, cnt = p
            if t == "byte":
                R.append("    w.visit(r.raw_data().len());")
            R.append(f"    {E}::new_builder()")
            for i in range(cnt):
                R.append(f"        .nth{i}({reb(t, f'r.nth{i}()')})")
            R.append("        .build()")
        elif k in ("struct", "table"):
            if k == "table" and len(p) > 0:
                R.append("    if w.deep {")
                R.append("        w.visit(r.total_size());")
                R.append("        w.visit(r.field_count());")
                R.append("        w.visit(r.count_extra_fields());")
                R.append("        w.visit(r.has_extra_fields() as usize);")
                R.append("    }")
            elif k == "table":
                # table without fields: the header accessors are called on their own so that a
                # panic in them is attributed precisely (see known_findings.json)
                R.append("    if w.deep {")
                R.append("        w.visit(r.total_size());")
                R.append("        match std::panic::catch_unwind(|| (r.field_count(), r.count_extra_fields(), r.has_extra_fields())) {")
                R.append("            Ok((a, b, c)) => {")
                R.append("                w.visit(a);")
                R.append("                w.visit(b);")
                R.append("                w.visit(c as usize);")
                R.append("            }")
                R.append("            Err(_) => w.empty_table_panics += 1,")
                R.append("        }")
                R.append("    }")
            R.append(f"    {E}::new_builder()")
            for f, t in p:
                R.append(f"        .{f}({reb(t, f'r.{f}()')})")
            R.append("        .build()")
        elif k in ("fixvec", "dynvec"):
            t = p
            R.append("    w.visit(r.total_size());")
            R.append("    w.visit(r.item_count());")
            R.append("    w.visit(r.len());")
            R.append("    w.visit(r.is_empty() as usize);")
            if k == "fixvec" and t == "byte":
                R.append("    w.visit(r.raw_data().len());")
            R.append(f"    let mut b = {E}::new_builder();")
            R.append("    for i in 0..r.len() {")
            R.append(f"        b = b.push({reb(t, 'r.get(i).unwrap()')});")
            R.append("    }")
            if t != "byte":
                R.append("    let mut n = 0usize;")
                R.append("    for it in r.iter() {")
                R.append("        n += it.as_slice().len();")
                R.append("    }")
                R.append("    w.visit(n);")
            R.append("    w.visit(r.get(r.len()).is_none() as usize);")
            R.append("    b.build()")
        elif k == "option":
            t = p
            R.append("    w.visit(r.is_none() as usize);")
            R.append("    w.visit(r.is_some() as usize);")
            R.append("    match r.to_opt() {")
            R.append(f"        Some(x) => {E}::new_builder().set(Some({reb(t, 'x')})).build(),")
            R.append(f"        None => {E}::new_builder().set(None).build(),")
            R.append("    }")
        else:
            R.append("    w.visit(r.item_id() as usize);")
            R.append("    match r.to_enum() {")
            for i, t in p:
                R.append(f"        packed::{n}UnionReader::{t}(x) => {E}::new_builder().set(rebuild_{t}(x, w)).build(),")
            R.append("    }")
        R.append("}")
        # generator
        R.append(f"pub fn gen_{n}(g: &mut Gen) -> {E} {{")
        if k == "array":
            t, cnt = p
            R.append(f'    g.enter("{n}", "array");')
            if t == "byte":
                R.append(f'    let bs = g.array_bytes("{n}", {cnt});')
                R.append(f"    let a: [packed::Byte; {cnt}] = core::array::from_fn(|i| bs[i].into());")
            else:
                R.append(f"    let a: [packed::{t}; {cnt}] = core::array::from_fn(|_| gen_{t}(g));")
            R.append(f"    let e = {E}::new_builder().set(a).build();")
            R.append("    g.leave();")
            R.append("    e")
        elif k in ("struct", "table"):
            R.append(f'    g.enter("{n}", "{k}");')
            R.append(f"    let e = {E}::new_builder()")
            for f, t in p:
                R.append(f"        .{f}({gen(t, n, f)})")
            R.append("        .build();")
            R.append("    g.leave();")
            if k == "table":
                R.append(f'    match g.extra_field("{n}", e.as_slice()) {{')
                R.append(f"        Some(b) => {E}::new_unchecked(b.into()),")
                R.append("        None => e,")
                R.append("    }")
            else:
                R.append("    e")
        elif k in ("fixvec", "dynvec"):
            t = p
            R.append(f'    g.enter("{n}", "{k}");')
            R.append(f'    let n = g.vec_len("{n}", {"true" if t == "byte" else "false"});')
            R.append(f"    let mut b = {E}::new_builder();")
            R.append("    for _ in 0..n {")
            R.append(f"        b = b.push({gen(t, n, 'item')});")
            R.append("    }")
            R.append("    g.leave();")
            R.append("    b.build()")
        elif k == "option":
            t = p
            R.append(f'    if g.opt_some("{n}") {{')
            R.append(f"        {E}::new_builder().set(Some({gen(t, n, 'some')})).build()")
            R.append("    } else {")
            R.append(f"        {E}::default()")
            R.append("    }")
        else:
            R.append(f'    match g.union_arm("{n}", {len(p)}) {{')
            for j, (i, t) in enumerate(p):
                pat = "_" if j == len(p) - 1 else str(j)
                R.append(f"        {pat} => {E}::new_builder().set(gen_{t}(g)).build(),")
            R.append("    }")
        R.append("}")
        # verdicts
        R.append(f"pub fn check_{n}(bs: &[u8], deep: bool) -> Verdict {{")
        R.append(f"    let strict = packed::{n}Reader::from_slice(bs).is_ok();")
        R.append(f"    let strict_entity = {E}::from_slice(bs).is_ok();")
        R.append(f"    let compat_entity = {E}::from_compatible_slice(bs).is_ok();")
        R.append(f"    match packed::{n}Reader::from_compatible_slice(bs) {{")
        R.append("        Ok(r) => {")
        R.append("            let mut w = Walk { deep, ..Walk::default() };")
        R.append(f"            let e = rebuild_{n}(r, &mut w);")
        R.append("            Verdict { strict, strict_entity, compat: true, compat_entity, rebuilt: Some(e.as_slice().to_vec()), visits: w.n, empty_table_panics: w.empty_table_panics }")
        R.append("        }")
        R.append("        Err(_) => Verdict { strict, strict_entity, compat: false, compat_entity, rebuilt: None, visits: 0, empty_table_panics: 0 },")
        R.append("    }")
        R.append("}")
        R.append("")
    R.append("pub struct TypeEntry {")
    R.append("    pub name: &'static str,")
    R.append("    pub kind: &'static str,")
    R.append("    pub gen: fn(&mut Gen) -> Vec<u8>,")
    R.append("    pub check: fn(&[u8], bool) -> Verdict,")
    R.append("}")
    R.append("pub static TYPES: &[TypeEntry] = &[")
    for n in order:
        R.append(f'    TypeEntry {{ name: "{n}", kind: "{kinds[n]}", gen: |g| gen_{n}(g).as_slice().to_vec(), check: check_{n} }},')
    R.append("];")
    return "\n".join(R) + "\n"


def main():
    decls, order0 = load_schema()
    order = topo(decls, order0)
    memo = {}
    kinds = {}
    for n in order:
        kind, p = decls[n]
        if kind == "vector":
            kinds[n] = "fixvec" if fixed_size(decls, p, memo) is not None else "dynvec"
        else:
            kinds[n] = kind
    a = write_if_changed(OUT_V, gen_coq(decls, order, kinds))
    b = False
    if os.path.isdir(os.path.dirname(OUT_RS)):
        b = write_if_changed(OUT_RS, gen_rust(decls, order, kinds))
    print(f"mol2v: {len(order)} types ({sum(1 for k in kinds.values() if k == 'table')} tables, "
          f"{sum(1 for k in kinds.values() if k == 'union')} unions); Schema.v {'rewritten' if a else 'unchanged'}; "
          f"gen_schema.rs {'rewritten' if b else 'unchanged'}")


if __name__ == "__main__":
    main()
