#!/bin/bash
# with_patch.sh <patch.diff> <Cxx> [check args…] — applies a seeded change to /repo under the
# coordination lock (/tmp/repo.lock), runs ./check, reverts the change, releases the lock.
patch=$1; shift
until mkdir /tmp/repo.lock 2>/dev/null; do sleep 15; done
trap 'git -C /repo checkout -- . ; rmdir /tmp/repo.lock' EXIT
if [ -n "$(git -C /repo status --short)" ]; then echo "with_patch: /repo is not clean"; git -C /repo status --short; exit 2; fi
git -C /repo apply "$patch" || { echo "with_patch: patch does not apply"; exit 2; }
cd /verif && ./check "$@"
rc=$?
# the evidence file now describes the patched tree: put the committed one back
git -C /verif checkout -- "evidence/$1.json" 2>/dev/null
echo "with_patch: check exit code $rc"
