#!/bin/bash
# coqchk_all.sh — re-checks every compiled Props/Cxx.vo and everything it depends on with Coq's independent
# checker and prints the axioms they rely on (expected: "Axioms: <none>").  About 75 s.  Build first
# (any ./check does): make -C coq Props/C01.vo … Props/C20.vo
cd /verif/coq || exit 2
mods=$(for i in 01 02 03 04 05 06 07 08 09 10 11 12 13 14 15 16 17 18 19 20; do echo CKB.Props.C$i; done)
coqchk -silent -o -Q /verif/coq CKB $mods 2>&1 | tee /verif/audit/coqchk.txt
grep -q "Axioms: <none>" /verif/audit/coqchk.txt
