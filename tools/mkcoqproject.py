#!/usr/bin/env python3
"""Writes coq/_CoqProject from the files present (every .v under coq/ except
generated case files and scratch); rewrites it only when the list changed."""
import glob, os
ROOT = os.path.dirname(os.path.dirname(os.path.abspath(__file__)))
COQ = os.path.join(ROOT, "coq")
files = sorted(os.path.relpath(f, COQ) for f in glob.glob(os.path.join(COQ, "**", "*.v"), recursive=True)
               if "/Cases/" not in f and "zz_tmp" not in f and "/scratch/" not in f)
txt = "-Q . CKB\n-arg -w -arg -deprecated-hint-without-locality,-deprecated-instance-without-locality,-notation-overridden,-ambiguous-paths,-deprecated-syntactic-definition\n" + "\n".join(files) + "\n"
p = os.path.join(COQ, "_CoqProject")
if not os.path.exists(p) or open(p).read() != txt:
    open(p, "w").write(txt)
