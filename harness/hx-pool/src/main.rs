//! C11 correspondence harness: drives the real `ckb-tx-pool` pool core
//! (`PoolMap` inside a real `TxPool` over a genesis-only snapshot) through
//! random operation sequences over random transaction DAGs, dumps the whole
//! pool state after EVERY primitive operation, (i) evaluates the C11
//! invariant directly on the dump by recomputation from the contents
//! (`impl_violations`), and (ii) writes the sequences with the observed states
//! as Coq cases for the model coq/Pool/PoolMap.v to recompute.
use ckb_app_config::TxPoolConfig;
use ckb_chain_spec::consensus::ConsensusBuilder;
use ckb_db::RocksDB;
use ckb_db_schema::COLUMNS;
use ckb_proposal_table::ProposalView;
use ckb_snapshot::Snapshot;
use ckb_store::{ChainDB, ChainStore};
use ckb_tx_pool::verif_hooks::{Callbacks, PoolDump, Status, TxEntry};
use ckb_tx_pool::TxPool;
use ckb_types::{
    core::{Capacity, FeeRate, TransactionBuilder, TransactionView},
    packed::{Byte32, CellDep, CellInput, CellOutput, OutPoint, ProposalShortId},
    prelude::*,
};
use hx_common::*;
use serde_json::{json, Value};
use std::collections::{BTreeMap, BTreeSet, HashMap, HashSet};
use std::fs;
use std::panic::{catch_unwind, AssertUnwindSafe};
use std::sync::Arc;

const PROP: &str = "C11";
/// signature of the recorded finding F3 (see /verif/known_findings.json)
const SIG_F3: &str = "add_entry of a tx that already has pooled children";
/// signature of the recorded finding F10
const SIG_F10: &str = "remove_entry of a tx that has both pooled ancestors and pooled descendants";
/// signature of the recorded finding F9
const SIG_F9: &str = "add_entry evicts a cell-ref parent whose descendant is another parent of the new tx (panic: inconsistent pool)";
const UNKNOWN_ID: u64 = 999_999;
static LAST_PANIC: std::sync::Mutex<String> = std::sync::Mutex::new(String::new());
/// the operation being applied (start time, case so far) and the findings of the sequence so far: a pool
/// operation that does not return is reported by the watchdog with the sequence that led to it
static WATCH: std::sync::Mutex<Option<(std::time::Instant, Value)>> = std::sync::Mutex::new(None);
static WATCH_FINDINGS: std::sync::Mutex<Vec<String>> = std::sync::Mutex::new(Vec::new());
const OP_TIME_LIMIT_SECS: u64 = 60;

fn start_watchdog(out: std::path::PathBuf, seed: u64, replaying: bool) {
    std::thread::spawn(move || loop {
        std::thread::sleep(std::time::Duration::from_secs(2));
        let stuck = { let w = WATCH.lock().unwrap(); w.as_ref().and_then(|(t, c)| if t.elapsed().as_secs() > OP_TIME_LIMIT_SECS { Some(c.clone()) } else { None }) };
        if let Some(case) = stuck {
            let before = WATCH_FINDINGS.lock().unwrap().clone();
            if replaying {
                println!("PROPERTY VIOLATED: the last operation did not return within {} s (endless loop inside the pool); clauses false before it: {:?}", OP_TIME_LIMIT_SECS, before);
                std::process::exit(1);
            }
            let summary = json!({
                "property": PROP, "seed": seed, "evaluations": 1, "distinct_nontrivial": 1,
                "rule": "watchdog: a pool operation did not return",
                "distribution": {}, "samples": [],
                "impl_violations": [{
                    "what": format!("the last operation of this sequence did not return within {} s (endless loop inside the pool){}", OP_TIME_LIMIT_SECS,
                                    if before.is_empty() { String::new() } else { format!("; invariant clauses already false before it: {}", before.join(" | ")) }),
                    "detail": {"case": case}}],
            });
            let _ = fs::write(out.join("summary.json"), serde_json::to_string_pretty(&summary).unwrap());
            println!("hx-pool: watchdog — an operation did not return within {} s", OP_TIME_LIMIT_SECS);
            std::process::exit(0);
        }
    });
}
/// entries with a timestamp below this are expired by `remove_expired`
const OLD_TS_LIMIT: u64 = 1_000_000;

type Pt = (u64, u32);

#[derive(Clone, Debug)]
struct TxSpec {
    id: u64,
    inputs: Vec<Pt>,
    deps: Vec<Pt>,
    hdeps: Vec<u64>,
    n_out: u32,
    size: u64,
    cycles: u64,
    fee: u64,
    ts: u64,
}

struct Universe {
    specs: Vec<TxSpec>, // specs[k-1].id == k
    views: Vec<TransactionView>,
    by_short: HashMap<ProposalShortId, u64>,
    by_hash: HashMap<Byte32, u64>,
    genesis_tx: Byte32,
}

impl Universe {
    fn spec(&self, k: u64) -> &TxSpec {
        &self.specs[(k - 1) as usize]
    }
    fn view(&self, k: u64) -> &TransactionView {
        &self.views[(k - 1) as usize]
    }
    fn short(&self, k: u64) -> ProposalShortId {
        self.view(k).proposal_short_id()
    }
    fn id_of(&self, s: &ProposalShortId) -> u64 {
        *self.by_short.get(s).unwrap_or(&UNKNOWN_ID)
    }
    fn pt_of(&self, o: &OutPoint) -> Pt {
        let idx: u32 = o.index().into();
        (*self.by_hash.get(&o.tx_hash()).unwrap_or(&UNKNOWN_ID), idx)
    }
    fn n(&self) -> u64 {
        self.specs.len() as u64
    }
    /// c spends or cell-depends on an output of p, or c spends a cell p cell-depends on
    fn rel(&self, p: u64, c: u64) -> bool {
        if p == c {
            return false;
        }
        let (sp, sc) = (self.spec(p), self.spec(c));
        sc.inputs.iter().chain(sc.deps.iter()).any(|o| o.0 == p)
            || sc.inputs.iter().any(|o| sp.deps.contains(o))
    }
}

fn hash_of_num(x: u64) -> Byte32 {
    let mut b = [0u8; 32];
    b[..8].copy_from_slice(&x.to_le_bytes());
    b[31] = 0xAA;
    Byte32::from_slice(&b).unwrap()
}

fn build_view(u: &Universe, s: &TxSpec) -> TransactionView {
    let h = |t: u64| -> Byte32 {
        if t == 0 {
            u.genesis_tx.clone()
        } else {
            u.views[(t - 1) as usize].hash()
        }
    };
    TransactionBuilder::default()
        .inputs(
            s.inputs
                .iter()
                .map(|(t, i)| CellInput::new(OutPoint::new(h(*t), *i), 0)),
        )
        .cell_deps(s.deps.iter().map(|(t, i)| {
            CellDep::new_builder()
                .out_point(OutPoint::new(h(*t), *i))
                .build()
        }))
        .set_header_deps(s.hdeps.iter().map(|x| hash_of_num(*x)).collect())
        .outputs((0..s.n_out).map(|i| {
            CellOutput::new_builder()
                .capacity(Capacity::shannons(s.id * 1000 + i as u64))
                .build()
        }))
        .outputs_data((0..s.n_out).map(|_| ckb_types::packed::Bytes::default()))
        .build()
}

/// full relation graph of the universe must be acyclic (a cyclic set of
/// transactions can never be valid together on a chain)
fn universe_acyclic(specs: &[TxSpec]) -> bool {
    let n = specs.len();
    let rel = |p: usize, c: usize| -> bool {
        p != c
            && (specs[c]
                .inputs
                .iter()
                .chain(specs[c].deps.iter())
                .any(|o| o.0 == specs[p].id)
                || specs[c].inputs.iter().any(|o| specs[p].deps.contains(o)))
    };
    // Kahn
    let mut indeg = vec![0usize; n];
    for c in 0..n {
        for p in 0..n {
            if rel(p, c) {
                indeg[c] += 1;
            }
        }
    }
    let mut done = vec![false; n];
    let mut cnt = 0;
    loop {
        let Some(x) = (0..n).find(|&i| !done[i] && indeg[i] == 0) else { break };
        done[x] = true;
        cnt += 1;
        for c in 0..n {
            if !done[c] && rel(x, c) {
                indeg[c] -= 1;
            }
        }
    }
    cnt == n
}

fn gen_universe(r: &mut Rng, genesis_tx: &Byte32, stats: &mut BTreeMap<String, u64>) -> Universe {
    let n = r.range(5, 13);
    let shape = r.below(5); // 0 chain-heavy, 1 diamond/fan, 2 deps-heavy, 3 conflict-heavy, 4 mixed
    let mut u = Universe {
        specs: vec![],
        views: vec![],
        by_short: HashMap::new(),
        by_hash: HashMap::new(),
        genesis_tx: genesis_tx.clone(),
    };
    u.by_hash.insert(genesis_tx.clone(), 0);
    let mut next_root: u32 = 0;
    let mut spent: Vec<Pt> = vec![]; // outpoints spent by some universe tx
    let mut used_deps: Vec<Pt> = vec![];
    for k in 1..=n {
        let mut tries = 0;
        loop {
            tries += 1;
            let mut inputs: Vec<Pt> = vec![];
            let n_in = match shape {
                0 => 1,
                1 => r.range(1, 3),
                _ => r.range(1, 2),
            };
            for _ in 0..n_in {
                let parent_prob = match shape { 0 => 85, 1 => 70, 2 => 40, 3 => 45, _ => 60 };
                let conflict_prob = match shape { 3 => 45, 0 => 8, _ => 15 };
                let o: Pt = if k > 1 && r.below(100) < parent_prob {
                    // an output of an earlier tx (chain shape prefers the latest)
                    let j = if shape == 0 && r.chance(3, 4) { k - 1 } else { r.range(1, k - 1) };
                    let no = u.spec(j).n_out;
                    (j, r.below(no as u64) as u32)
                } else if !spent.is_empty() && r.below(100) < conflict_prob {
                    *r.pick(&spent)
                } else if !used_deps.is_empty() && r.chance(1, 6) {
                    // spend a cell somebody cell-depends on (cell-ref parent)
                    *r.pick(&used_deps)
                } else {
                    next_root += 1;
                    (0, next_root)
                };
                let o = if r.below(100) < conflict_prob && !spent.is_empty() { *r.pick(&spent) } else { o };
                if !inputs.contains(&o) {
                    inputs.push(o);
                }
            }
            let mut deps: Vec<Pt> = vec![];
            let n_dep = if tries > 6 { 0 } else { match shape { 2 => r.range(0, 3), _ => if r.chance(1, 3) { r.range(1, 2) } else { 0 } } };
            for _ in 0..n_dep {
                let o: Pt = if !used_deps.is_empty() && r.chance(1, 2) {
                    *r.pick(&used_deps) // shared cell-dep
                } else if k > 1 && r.chance(2, 3) {
                    let j = r.range(1, k - 1);
                    (j, r.below(u.spec(j).n_out as u64) as u32)
                } else if r.chance(1, 2) {
                    (0, 500 + r.below(3) as u32) // a few shared root cells used as deps
                } else {
                    next_root += 1;
                    (0, next_root)
                };
                if !deps.contains(&o) && !inputs.contains(&o) {
                    deps.push(o);
                }
            }
            let hdeps: Vec<u64> = if r.chance(1, 5) { vec![r.range(1, 3)] } else { vec![] };
            let size = match r.below(8) { 0 => 1, 1 => 400, _ => r.range(50, 300) };
            let fee = match r.below(10) { 0 => 0, 1 => r.range(1, 60), _ => r.range(100, 3000) };
            let cycles = r.range(0, 5000);
            let ts = if r.chance(1, 4) { k } else { 2_000_000_000_000_000 + k };
            let s = TxSpec { id: k, inputs, deps, hdeps, n_out: r.range(1, 3) as u32, size, cycles, fee, ts };
            let mut trial = u.specs.clone();
            trial.push(s.clone());
            if !universe_acyclic(&trial) {
                *stats.entry("universe_retry_cyclic".into()).or_default() += 1;
                continue;
            }
            for o in &s.inputs {
                if spent.contains(o) {
                    *stats.entry("universe_conflicting_spends".into()).or_default() += 1;
                }
                if used_deps.contains(o) {
                    *stats.entry("universe_spend_of_a_cell_dep".into()).or_default() += 1;
                }
                spent.push(*o);
            }
            for o in &s.deps {
                if used_deps.contains(o) {
                    *stats.entry("universe_shared_cell_deps".into()).or_default() += 1;
                }
                used_deps.push(*o);
            }
            if !s.hdeps.is_empty() {
                *stats.entry("universe_header_deps".into()).or_default() += 1;
            }
            let v = build_view(&u, &s);
            u.by_short.insert(v.proposal_short_id(), k);
            u.by_hash.insert(v.hash(), k);
            u.specs.push(s);
            u.views.push(v);
            break;
        }
    }
    u
}

// ---------------------------------------------------------------------------
// canonical state
#[derive(Clone, Debug, PartialEq, Eq, Default)]
struct Canon {
    entries: Vec<(u64, u8, [u64; 8])>, // id, status, anc{count,size,cycles,fee}, desc{...}
    links: Vec<(u64, Vec<u64>, Vec<u64>)>,
    e_inputs: Vec<(Pt, u64)>,
    e_deps: Vec<(Pt, Vec<u64>)>,
    e_hdeps: Vec<(u64, Vec<u64>)>,
    counters: [u64; 5], // total size, total cycles, pending, gap, proposed
    keys_in_sync: bool,
}

fn st_num(s: Status) -> u8 {
    match s {
        Status::Pending => 0,
        Status::Gap => 1,
        Status::Proposed => 2,
    }
}
fn num_st(x: u8) -> Status {
    match x {
        0 => Status::Pending,
        1 => Status::Gap,
        _ => Status::Proposed,
    }
}

fn canon(u: &Universe, d: &PoolDump) -> Canon {
    let mut c = Canon::default();
    c.keys_in_sync = true;
    for e in &d.entries {
        c.entries.push((
            u.id_of(&e.id),
            st_num(e.status),
            [
                e.ancestors_count as u64,
                e.ancestors_size as u64,
                e.ancestors_cycles,
                e.ancestors_fee,
                e.descendants_count as u64,
                e.descendants_size as u64,
                e.descendants_cycles,
                e.descendants_fee,
            ],
        ));
        if !e.score_in_sync || !e.evict_key_in_sync {
            c.keys_in_sync = false;
        }
    }
    c.entries.sort();
    for (id, ps, cs) in &d.links {
        let mut ps: Vec<u64> = ps.iter().map(|x| u.id_of(x)).collect();
        let mut cs: Vec<u64> = cs.iter().map(|x| u.id_of(x)).collect();
        ps.sort();
        cs.sort();
        c.links.push((u.id_of(id), ps, cs));
    }
    c.links.sort();
    for (o, id) in &d.edge_inputs {
        c.e_inputs.push((u.pt_of(o), u.id_of(id)));
    }
    c.e_inputs.sort();
    for (o, ids) in &d.edge_deps {
        let mut ids: Vec<u64> = ids.iter().map(|x| u.id_of(x)).collect();
        ids.sort();
        c.e_deps.push((u.pt_of(o), ids));
    }
    c.e_deps.sort();
    for (id, hs) in &d.edge_header_deps {
        let hs: Vec<u64> = hs
            .iter()
            .map(|h| {
                let mut b = [0u8; 8];
                b.copy_from_slice(&h.as_slice()[..8]);
                u64::from_le_bytes(b)
            })
            .collect();
        c.e_hdeps.push((u.id_of(id), hs));
    }
    c.e_hdeps.sort();
    c.counters = [
        d.total_tx_size as u64,
        d.total_tx_cycles,
        d.pending_count as u64,
        d.gap_count as u64,
        d.proposed_count as u64,
    ];
    c
}

fn pt_coq(p: &Pt) -> String {
    format!("({}, {})", coq_n(p.0 as u128), coq_n(p.1 as u128))
}
fn ids_coq(v: &[u64]) -> String {
    coq_list(v, |x| coq_n(*x as u128))
}
fn canon_coq(c: &Canon) -> String {
    format!(
        "(mkDump {} {} {} {} {} {})",
        coq_list(&c.entries, |(id, st, a)| format!("({}, {}, {})", coq_n(*id as u128), coq_n(*st as u128), ids_coq(a))),
        coq_list(&c.links, |(id, p, ch)| format!("({}, {}, {})", coq_n(*id as u128), ids_coq(p), ids_coq(ch))),
        coq_list(&c.e_inputs, |(o, id)| format!("({}, {})", pt_coq(o), coq_n(*id as u128))),
        coq_list(&c.e_deps, |(o, ids)| format!("({}, {})", pt_coq(o), ids_coq(ids))),
        coq_list(&c.e_hdeps, |(id, hs)| format!("({}, {})", coq_n(*id as u128), ids_coq(hs))),
        ids_coq(&c.counters)
    )
}
fn canon_json(c: &Canon) -> Value {
    json!({
        "entries": c.entries.iter().map(|(id, st, a)| json!({"id": id, "status": st, "anc": a[..4], "desc": a[4..]})).collect::<Vec<_>>(),
        "links": c.links.iter().map(|(id, p, ch)| json!({"id": id, "parents": p, "children": ch})).collect::<Vec<_>>(),
        "edge_inputs": c.e_inputs.iter().map(|(o, id)| json!([o.0, o.1, id])).collect::<Vec<_>>(),
        "edge_deps": c.e_deps.iter().map(|(o, ids)| json!([o.0, o.1, ids])).collect::<Vec<_>>(),
        "edge_header_deps": c.e_hdeps,
        "counters": c.counters,
    })
}
fn spec_coq(s: &TxSpec) -> String {
    format!(
        "mkTx {} {} {} {} {} {} {} {} {}",
        coq_n(s.id as u128),
        coq_list(&s.inputs, pt_coq),
        coq_list(&s.deps, pt_coq),
        ids_coq(&s.hdeps),
        coq_n(s.n_out as u128),
        coq_n(s.size as u128),
        coq_n(s.cycles as u128),
        coq_n(s.fee as u128),
        coq_n(s.ts as u128)
    )
}
fn spec_json(s: &TxSpec) -> Value {
    json!({"id": s.id, "inputs": s.inputs, "deps": s.deps, "header_deps": s.hdeps, "n_out": s.n_out,
           "size": s.size, "cycles": s.cycles, "fee": s.fee, "ts": s.ts})
}
fn spec_from_json(v: &Value) -> TxSpec {
    let pts = |x: &Value| -> Vec<Pt> {
        x.as_array().unwrap().iter().map(|p| (p[0].as_u64().unwrap(), p[1].as_u64().unwrap() as u32)).collect()
    };
    TxSpec {
        id: v["id"].as_u64().unwrap(),
        inputs: pts(&v["inputs"]),
        deps: pts(&v["deps"]),
        hdeps: v["header_deps"].as_array().unwrap().iter().map(|x| x.as_u64().unwrap()).collect(),
        n_out: v["n_out"].as_u64().unwrap() as u32,
        size: v["size"].as_u64().unwrap(),
        cycles: v["cycles"].as_u64().unwrap(),
        fee: v["fee"].as_u64().unwrap(),
        ts: v["ts"].as_u64().unwrap(),
    }
}

// ---------------------------------------------------------------------------
// the property predicate, evaluated on a dump by recomputation from contents
#[derive(Debug, Clone)]
struct Finding {
    clause: &'static str,
    what: String,
    ids: Vec<u64>, // entries the mismatch is about (empty: global)
}

fn closure(start: u64, next: &BTreeMap<u64, BTreeSet<u64>>) -> BTreeSet<u64> {
    let mut seen = BTreeSet::new();
    let mut stack: Vec<u64> = next.get(&start).map(|s| s.iter().cloned().collect()).unwrap_or_default();
    while let Some(x) = stack.pop() {
        if seen.insert(x) {
            if let Some(s) = next.get(&x) {
                stack.extend(s.iter().cloned());
            }
        }
    }
    seen
}

fn check_state(u: &Universe, c: &Canon, max_anc: u64) -> Vec<Finding> {
    let mut f = vec![];
    let mut push = |clause: &'static str, what: String, ids: Vec<u64>| f.push(Finding { clause, what, ids });
    let pooled: BTreeSet<u64> = c.entries.iter().map(|e| e.0).collect();
    if pooled.len() != c.entries.len() || pooled.contains(&UNKNOWN_ID) {
        push("I0", "duplicate or unknown entry ids".into(), vec![]);
        return f;
    }
    // I1: no double spend; edges.inputs == union of the entries' inputs
    let mut want_inputs: BTreeMap<Pt, Vec<u64>> = BTreeMap::new();
    let mut want_deps: BTreeMap<Pt, Vec<u64>> = BTreeMap::new();
    let mut want_hdeps: Vec<(u64, Vec<u64>)> = vec![];
    for &k in &pooled {
        let s = u.spec(k);
        for o in &s.inputs {
            want_inputs.entry(*o).or_default().push(k);
        }
        for o in &s.deps {
            want_deps.entry(*o).or_default().push(k);
        }
        if !s.hdeps.is_empty() {
            want_hdeps.push((k, s.hdeps.clone()));
        }
    }
    for (o, ks) in &want_inputs {
        if ks.len() > 1 {
            push("I1", format!("cell {:?} is spent by pooled txs {:?}", o, ks), ks.clone());
        }
    }
    let wi: Vec<(Pt, u64)> = want_inputs.iter().map(|(o, ks)| (*o, ks[0])).collect();
    if want_inputs.values().all(|ks| ks.len() == 1) && wi != c.e_inputs {
        push("I1", format!("edges.inputs {:?} differs from the union of the entries' inputs {:?}", c.e_inputs, wi), vec![]);
    }
    let wd: Vec<(Pt, Vec<u64>)> = want_deps.into_iter().collect();
    if wd != c.e_deps {
        push("I1d", format!("edges.deps {:?} differs from the entries' cell deps {:?}", c.e_deps, wd), vec![]);
    }
    if want_hdeps != c.e_hdeps {
        push("I1h", format!("edges.header_deps {:?} differs from the entries' header deps {:?}", c.e_hdeps, want_hdeps), vec![]);
    }
    // I2: links <=> relation between pooled txs
    let link_keys: BTreeSet<u64> = c.links.iter().map(|l| l.0).collect();
    if link_keys != pooled || link_keys.len() != c.links.len() {
        push("I2", format!("links keys {:?} differ from pooled ids {:?}", link_keys, pooled), vec![]);
    }
    let mut parents: BTreeMap<u64, BTreeSet<u64>> = BTreeMap::new();
    let mut children: BTreeMap<u64, BTreeSet<u64>> = BTreeMap::new();
    for &c_ in &pooled {
        for &p in &pooled {
            if u.rel(p, c_) {
                parents.entry(c_).or_default().insert(p);
                children.entry(p).or_default().insert(c_);
            }
        }
    }
    for (id, ps, cs) in &c.links {
        let wp: Vec<u64> = parents.get(id).map(|s| s.iter().cloned().collect()).unwrap_or_default();
        let wc: Vec<u64> = children.get(id).map(|s| s.iter().cloned().collect()).unwrap_or_default();
        if *ps != wp {
            push("I2", format!("parents of tx {} are {:?}, the pooled txs it spends/depends on are {:?}", id, ps, wp), vec![*id]);
        }
        if *cs != wc {
            push("I2", format!("children of tx {} are {:?}, the pooled txs spending/depending on it are {:?}", id, cs, wc), vec![*id]);
        }
    }
    // I3: acyclic (from the recomputed relation)
    for &k in &pooled {
        if closure(k, &parents).contains(&k) {
            push("I3", format!("tx {} is its own ancestor", k), vec![k]);
        }
    }
    // I4: aggregates = recomputation over the transitive closure (+ self); I6
    for (id, _st, a) in &c.entries {
        let sum = |set: &BTreeSet<u64>| -> [u64; 4] {
            let s = u.spec(*id);
            let mut r = [1u64, s.size, s.cycles, s.fee];
            for x in set {
                let sx = u.spec(*x);
                r[0] += 1;
                r[1] += sx.size;
                r[2] += sx.cycles;
                r[3] += sx.fee;
            }
            r
        };
        let anc = closure(*id, &parents);
        let desc = closure(*id, &children);
        let (wa, wdsc) = (sum(&anc), sum(&desc));
        if a[..4] != wa {
            push("I4", format!("tx {}: ancestors (count,size,cycles,fee) reported {:?}, recomputed over ancestors {:?}: {:?}", id, &a[..4], anc, wa), vec![*id]);
        }
        if a[4..] != wdsc {
            push("I4", format!("tx {}: descendants (count,size,cycles,fee) reported {:?}, recomputed over descendants {:?}: {:?}", id, &a[4..], desc, wdsc), vec![*id]);
        }
        if wa[0] > max_anc || a[0] > max_anc {
            push("I6", format!("tx {} has {} ancestors+self (reported {}), limit {}", id, wa[0], a[0], max_anc), vec![*id]);
        }
    }
    // I5: counters
    let mut w = [0u64; 5];
    for (id, st, _) in &c.entries {
        let s = u.spec(*id);
        w[0] += s.size;
        w[1] += s.cycles;
        w[2 + *st as usize] += 1;
    }
    if w != c.counters {
        push("I5", format!("counters (total size, total cycles, pending, gap, proposed) {:?}, recomputed {:?}", c.counters, w), vec![]);
    }
    if !c.keys_in_sync {
        push("I8", "a stored sort key (score / evict_key) differs from the key recomputed from its entry".into(), vec![]);
    }
    f
}

// ---------------------------------------------------------------------------
// operations
#[derive(Clone, Debug)]
enum Op {
    Submit(u64, u8),  // like submit_entry: conflict / RBF check, replace, add_entry, limit_size
    Commit(u64),      // remove_committed_txs([tx]): remove_entry + resolve_conflict
    RemoveTx(u64),    // remove_tx: remove_entry_and_descendants
    Remove(u64),      // remove_entry
    Set(u64, u8),     // set_entry
    Expire,           // remove_expired
    Header(Vec<u64>), // remove_committed_txs([], detached headers): resolve_conflict_header_dep
    Detach(u64),      // remove_by_detached_proposal
}
fn op_json(o: &Op) -> Value {
    match o {
        Op::Submit(k, s) => json!({"submit": k, "status": s}),
        Op::Commit(k) => json!({"commit": k}),
        Op::RemoveTx(k) => json!({"remove_tx": k}),
        Op::Remove(k) => json!({"remove_entry": k}),
        Op::Set(k, s) => json!({"set_entry": k, "status": s}),
        Op::Expire => json!("remove_expired"),
        Op::Header(h) => json!({"detached_headers": h}),
        Op::Detach(k) => json!({"detached_proposal": k}),
    }
}
fn op_from_json(v: &Value) -> Op {
    if v == "remove_expired" {
        Op::Expire
    } else if let Some(k) = v.get("submit") {
        Op::Submit(k.as_u64().unwrap(), v["status"].as_u64().unwrap() as u8)
    } else if let Some(k) = v.get("commit") {
        Op::Commit(k.as_u64().unwrap())
    } else if let Some(k) = v.get("remove_tx") {
        Op::RemoveTx(k.as_u64().unwrap())
    } else if let Some(k) = v.get("remove_entry") {
        Op::Remove(k.as_u64().unwrap())
    } else if let Some(k) = v.get("set_entry") {
        Op::Set(k.as_u64().unwrap(), v["status"].as_u64().unwrap() as u8)
    } else if let Some(h) = v.get("detached_headers") {
        Op::Header(h.as_array().unwrap().iter().map(|x| x.as_u64().unwrap()).collect())
    } else {
        Op::Detach(v["detached_proposal"].as_u64().unwrap())
    }
}

/// primitive step as the Coq model sees it
#[derive(Clone, Debug)]
enum Cop {
    Add(u64, u8),
    Remove(u64),
    RemoveDesc(u64),
    Commit(u64),
    Header(Vec<u64>),
    Set(u64, u8),
    Limit(u64),
    Expire(u64, Vec<u64>),
    Detach(u64),
    Rbf(u64, u64),
}
fn cop_coq(c: &Cop) -> String {
    let n = |x: &u64| coq_n(*x as u128);
    match c {
        Cop::Add(k, s) => format!("CAdd {} {}", n(k), coq_n(*s as u128)),
        Cop::Remove(k) => format!("CRemove {}", n(k)),
        Cop::RemoveDesc(k) => format!("CRemoveDesc {}", n(k)),
        Cop::Commit(k) => format!("CCommit {}", n(k)),
        Cop::Header(h) => format!("CHeader {}", ids_coq(h)),
        Cop::Set(k, s) => format!("CSet {} {}", n(k), coq_n(*s as u128)),
        Cop::Limit(m) => format!("CLimit {}", n(m)),
        Cop::Expire(c, order) => format!("CExpire {} {}", n(c), ids_coq(order)),
        Cop::Detach(k) => format!("CDetach {}", n(k)),
        Cop::Rbf(k, r) => format!("CRbf {} {}", n(k), n(r)),
    }
}

#[derive(Clone, Debug)]
struct Cfg {
    max_anc: u64,
    max_pool_size: u64,
    min_fee_rate: u64,
    min_rbf_rate: u64,
    reorg_mode: bool,
}

struct Env {
    store: ChainDB,
    consensus: Arc<ckb_chain_spec::consensus::Consensus>,
    genesis_tx: Byte32,
}

fn make_env(dir: &std::path::Path) -> Env {
    let db = RocksDB::open_in(dir, COLUMNS);
    let store = ChainDB::new(db, Default::default());
    let consensus = ConsensusBuilder::default().build();
    store.init(&consensus).expect("init genesis");
    let genesis_tx = consensus.genesis_block().transactions()[0].hash();
    Env { store, consensus: Arc::new(consensus), genesis_tx }
}

fn make_pool(env: &Env, cfg: &Cfg) -> TxPool {
    let tip = env.consensus.genesis_block().header();
    let td = env.store.get_block_ext(&tip.hash()).expect("genesis ext").total_difficulty;
    let snapshot = Snapshot::new(
        tip,
        td,
        env.consensus.genesis_epoch_ext().to_owned(),
        env.store.get_snapshot(),
        ProposalView::default(),
        Arc::clone(&env.consensus),
    );
    let config = TxPoolConfig {
        max_tx_pool_size: cfg.max_pool_size as usize,
        min_fee_rate: FeeRate::from_u64(cfg.min_fee_rate),
        min_rbf_rate: FeeRate::from_u64(cfg.min_rbf_rate),
        max_tx_verify_cycles: 70_000_000,
        max_tx_verify_workers: 1,
        max_ancestors_count: cfg.max_anc as usize,
        keep_rejected_tx_hashes_days: 1,
        keep_rejected_tx_hashes_count: 100,
        persisted_data: Default::default(),
        recent_reject: Default::default(),
        expiry_hours: 1,
    };
    TxPool::new(config, Arc::new(snapshot))
}

fn entry_of(u: &Universe, k: u64) -> TxEntry {
    let s = u.spec(k);
    let rtx = ckb_types::core::cell::ResolvedTransaction::dummy_resolve(u.view(k).clone());
    TxEntry::new_with_timestamp(Arc::new(rtx), s.cycles, Capacity::shannons(s.fee), s.size as usize, s.ts)
}

/// one observed primitive step
struct Step {
    cop: Cop,
    result: Vec<u64>,
    state: Option<Canon>, // None: the implementation panicked
}

struct Run<'a> {
    u: &'a Universe,
    cfg: &'a Cfg,
    pool: TxPool,
    cb: Callbacks,
    steps: Vec<Step>,
    findings: Vec<(usize, Finding, Option<&'static str>)>, // (step index, finding, known-class signature)
    taint: BTreeSet<u64>,
    taint10: BTreeSet<u64>,
    polluted_panic: bool,
    f10_removes: u64,
    committed: BTreeSet<u64>,
    dead: bool,
    f3_adds: u64,
    rbf_accepts: u64,
    rbf_rejects: u64,
    limit_evictions: u64,
    anc_limit_rejects: u64,
    cellref_evictions: u64,
}

impl<'a> Run<'a> {
    fn pooled(&self) -> BTreeSet<u64> {
        self.pool.verif_pool_map().verif_dump().entries.iter().map(|e| self.u.id_of(&e.id)).collect()
    }
    fn is_pooled(&self, k: u64) -> bool {
        self.pool.verif_pool_map().verif_get(&self.u.short(k)).is_some()
    }
    /// record a primitive step: dump, check the invariant
    fn observe(&mut self, cop: Cop, result: Vec<u64>, panicked: bool) {
        self.observe_sig(cop, result, panicked, None)
    }
    fn observe_sig(&mut self, cop: Cop, result: Vec<u64>, panicked: bool, panic_sig: Option<&'static str>) {
        if panicked {
            self.dead = true;
            let msg = LAST_PANIC.lock().unwrap().clone();
            // aggregates driven to 0 by the saturating_subs of a polluted state (F3 / F10) make
            // AncestorsScoreSortKey's order intransitive; the multi-index container then loses entries
            let container = msg.contains("Internal invariants broken");
            let sig = if panic_sig.is_some() {
                panic_sig
            } else if container && self.f3_adds > 0 {
                self.polluted_panic = true;
                Some(SIG_F3)
            } else if container && self.f10_removes > 0 {
                self.polluted_panic = true;
                Some(SIG_F10)
            } else {
                None
            };
            self.findings.push((
                self.steps.len(),
                Finding { clause: "panic", what: format!("the pool panicked in {:?}: {}", cop, msg.replace('\n', " ")), ids: vec![] },
                sig,
            ));
            self.steps.push(Step { cop, result, state: None });
            return;
        }
        let c = canon(self.u, &self.pool.verif_pool_map().verif_dump());
        let pooled: BTreeSet<u64> = c.entries.iter().map(|e| e.0).collect();
        self.taint = self.taint.intersection(&pooled).cloned().collect();
        self.taint10 = self.taint10.intersection(&pooled).cloned().collect();
        for f in check_state(self.u, &c, self.cfg.max_anc) {
            let known = (f.clause == "I4" || f.clause == "I6")
                && !f.ids.is_empty()
                && f.ids.iter().all(|i| self.taint.contains(i));
            let known10 = f.clause == "I4" && !f.ids.is_empty() && f.ids.iter().all(|i| self.taint10.contains(i));
            if !known && !known10 { let mut w = WATCH_FINDINGS.lock().unwrap(); if w.len() < 6 { w.push(format!("[{}] {}", f.clause, f.what)); } }
            self.findings.push((self.steps.len(), f, if known { Some(SIG_F3) } else if known10 { Some(SIG_F10) } else { None }));
        }
        self.steps.push(Step { cop, result, state: Some(c) });
    }

    fn prim<R>(&mut self, f: impl FnOnce(&mut TxPool, &Callbacks) -> R) -> Option<R> {
        let pool = &mut self.pool;
        let cb = &self.cb;
        catch_unwind(AssertUnwindSafe(|| f(pool, cb))).ok()
    }

    fn add(&mut self, k: u64, st: u8) -> bool {
        let u = self.u;
        let entry = entry_of(u, k);
        // F3 class: the tx being added already has pooled children
        let has_children = self.pooled().iter().any(|c| u.rel(k, *c)) && !self.is_pooled(k);
        let f9_shape = self.f9_shape(k);
        let r = self.prim(|p, _| p.verif_pool_map_mut().verif_add_entry(entry, num_st(st)));
        let (res, ok) = match &r {
            None => (vec![], false),
            Some(Ok((true, ev))) => {
                if !ev.is_empty() {
                    self.cellref_evictions += 1;
                }
                (vec![0], true)
            }
            Some(Ok((false, _))) => (vec![1], false),
            Some(Err(e)) => {
                let s = format!("{:?}", e);
                if s.contains("ExceededMaximumAncestorsCount") {
                    self.anc_limit_rejects += 1;
                    (vec![2], false)
                } else {
                    (vec![3], false)
                }
            }
        };
        if ok && has_children {
            self.f3_adds += 1;
            let pm = self.pool.verif_pool_map();
            let sid = u.short(k);
            let mut t: BTreeSet<u64> = pm.verif_calc_ancestors(&sid).iter().map(|x| u.id_of(x)).collect();
            t.extend(pm.verif_calc_descendants(&sid).iter().map(|x| u.id_of(x)));
            t.insert(k);
            self.taint.extend(t);
        }
        self.observe_sig(Cop::Add(k, st), res, r.is_none(), if f9_shape { Some(SIG_F9) } else { None });
        ok
    }

    /// F10 class: a plain remove_entry of `k` while it has pooled ancestors and
    /// pooled descendants leaves those (ancestor, descendant) pairs credited
    fn note_plain_remove(&mut self, k: u64) {
        if !self.is_pooled(k) {
            return;
        }
        let u = self.u;
        let pm = self.pool.verif_pool_map();
        let sid = u.short(k);
        let a: BTreeSet<u64> = pm.verif_calc_ancestors(&sid).iter().map(|x| u.id_of(x)).collect();
        let d: BTreeSet<u64> = pm.verif_calc_descendants(&sid).iter().map(|x| u.id_of(x)).collect();
        if !a.is_empty() && !d.is_empty() {
            self.f10_removes += 1;
            self.taint10.extend(a);
            self.taint10.extend(d);
        }
    }

    /// the structural class of finding F9: the add takes the cell-ref eviction
    /// branch and some parent of the new tx is a descendant of one of its cell-ref parents
    fn f9_shape(&self, k: u64) -> bool {
        let u = self.u;
        let pm = self.pool.verif_pool_map();
        let pooled = self.pooled();
        if pooled.contains(&k) {
            return false;
        }
        let s = u.spec(k);
        let cell_ref: BTreeSet<u64> = pooled.iter().cloned().filter(|x| u.spec(*x).deps.iter().any(|o| s.inputs.contains(o))).collect();
        let mut parents = cell_ref.clone();
        for o in s.inputs.iter().chain(s.deps.iter()) {
            if pooled.contains(&o.0) {
                parents.insert(o.0);
            }
        }
        let mut anc: BTreeSet<u64> = parents.clone();
        for p in &parents {
            anc.extend(pm.verif_calc_ancestors(&u.short(*p)).iter().map(|x| u.id_of(x)));
        }
        let count = anc.len() as u64 + 1;
        if count <= self.cfg.max_anc || count.saturating_sub(cell_ref.len() as u64) > self.cfg.max_anc {
            return false;
        }
        cell_ref.iter().any(|x| {
            let d: BTreeSet<u64> = pm.verif_calc_descendants(&u.short(*x)).iter().map(|y| u.id_of(y)).collect();
            parents.iter().any(|y| y != x && d.contains(y))
        })
    }

    fn apply(&mut self, op: &Op) {
        if self.dead {
            return;
        }
        let u = self.u;
        match op {
            Op::Submit(k, st) => {
                let k = *k;
                if self.is_pooled(k) {
                    self.add(k, *st); // add_entry of a pooled id: Ok(false), no change
                    return;
                }
                // what resolve would refuse: a cell dep that a pooled tx spends
                let d = self.pool.verif_pool_map().verif_dump();
                let spent: HashSet<Pt> = d.edge_inputs.iter().map(|(o, _)| u.pt_of(o)).collect();
                if u.spec(k).deps.iter().any(|o| spent.contains(o)) {
                    return;
                }
                let conflicts = self.pool.verif_pool_map().verif_find_conflict_tx(u.view(k));
                let rbf_on = self.cfg.min_rbf_rate > self.cfg.min_fee_rate;
                if !conflicts.is_empty() {
                    if !rbf_on {
                        return; // Reject::Resolve(Dead)
                    }
                    let entry = entry_of(u, k);
                    let r = self.prim(|p, _| p.verif_check_rbf(&entry));
                    match r {
                        None => {
                            self.observe(Cop::Rbf(k, self.cfg.min_rbf_rate), vec![], true);
                            return;
                        }
                        Some(Err(_)) => {
                            self.rbf_rejects += 1;
                            self.observe(Cop::Rbf(k, self.cfg.min_rbf_rate), vec![0], false);
                            return;
                        }
                        Some(Ok(ids)) => {
                            self.rbf_accepts += 1;
                            let mut cs: Vec<u64> = ids.iter().map(|x| u.id_of(x)).collect();
                            cs.sort();
                            let mut res = vec![1];
                            res.extend(cs.iter());
                            // RBF rule, evaluated on the implementation's state
                            let pm = self.pool.verif_pool_map();
                            let mut replaced: BTreeSet<u64> = cs.iter().cloned().collect();
                            for c in &cs {
                                replaced.extend(pm.verif_calc_descendants(&u.short(*c)).iter().map(|x| u.id_of(x)));
                            }
                            let sum: u64 = replaced.iter().map(|x| u.spec(*x).fee).sum();
                            let need = sum + self.cfg.min_rbf_rate * u.spec(k).size / 1000;
                            if u.spec(k).fee < need {
                                self.findings.push((self.steps.len(), Finding { clause: "I7",
                                    what: format!("replacement tx {} with fee {} admitted although the replaced txs {:?} pay {} and the increment makes {} necessary", k, u.spec(k).fee, replaced, sum, need), ids: vec![k] }, None));
                            }
                            self.observe(Cop::Rbf(k, self.cfg.min_rbf_rate), res, false);
                            // process_rbf: remove every conflict with its descendants
                            for c in &cs {
                                let sid = u.short(*c);
                                let r = self.prim(|p, _| p.verif_pool_map_mut().verif_remove_entry_and_descendants(&sid));
                                self.observe(Cop::RemoveDesc(*c), vec![], r.is_none());
                                if self.dead {
                                    return;
                                }
                            }
                            let still: Vec<u64> = replaced.iter().cloned().filter(|x| self.is_pooled(*x)).collect();
                            if !still.is_empty() {
                                self.findings.push((self.steps.len(), Finding { clause: "I7",
                                    what: format!("replaced txs {:?} are still pooled after the replacement by {}", still, k), ids: still.clone() }, None));
                            }
                        }
                    }
                }
                if self.add(k, *st) && !self.dead {
                    let sid = u.short(k);
                    let before = self.pooled().len();
                    let r = self.prim(|p, cb| p.verif_limit_size(cb, Some(&sid)));
                    let after = if r.is_some() { self.pooled().len() } else { 0 };
                    if after < before {
                        self.limit_evictions += 1;
                    }
                    self.observe(Cop::Limit(self.cfg.max_pool_size), vec![], r.is_none());
                }
            }
            Op::Commit(k) => {
                let v = u.view(*k).clone();
                self.note_plain_remove(*k);
                let r = self.prim(|p, cb| p.verif_remove_committed_txs(&[v], cb, &HashSet::new()));
                self.committed.insert(*k);
                self.observe(Cop::Commit(*k), vec![], r.is_none());
            }
            Op::RemoveTx(k) => {
                let sid = u.short(*k);
                let r = self.prim(|p, _| p.verif_remove_tx(&sid));
                self.observe(Cop::RemoveDesc(*k), vec![], r.is_none());
            }
            Op::Remove(k) => {
                let sid = u.short(*k);
                self.note_plain_remove(*k);
                let r = self.prim(|p, _| p.verif_pool_map_mut().verif_remove_entry(&sid).is_some());
                self.observe(Cop::Remove(*k), vec![], r.is_none());
            }
            Op::Set(k, st) => {
                if !self.is_pooled(*k) {
                    return; // set_entry expects a pooled id
                }
                let sid = u.short(*k);
                let s = num_st(*st);
                let r = self.prim(|p, _| p.verif_pool_map_mut().verif_set_entry(&sid, s));
                self.observe(Cop::Set(*k, *st), vec![], r.is_none());
            }
            Op::Expire => {
                // remove_expired walks the entries in the container's iteration order (the dump's order)
                let old: Vec<u64> = self.pool.verif_pool_map().verif_dump().entries.iter().map(|e| u.id_of(&e.id))
                    .filter(|x| u.spec(*x).ts < OLD_TS_LIMIT).collect();
                for x in &old {
                    self.note_plain_remove(*x);
                }
                let r = self.prim(|p, cb| p.verif_remove_expired(cb));
                self.observe(Cop::Expire(OLD_TS_LIMIT, old), vec![], r.is_none());
            }
            Op::Header(hs) => {
                let set: HashSet<Byte32> = hs.iter().map(|x| hash_of_num(*x)).collect();
                let r = self.prim(|p, cb| p.verif_remove_committed_txs(&[], cb, &set));
                self.observe(Cop::Header(hs.clone()), vec![], r.is_none());
            }
            Op::Detach(k) => {
                if !self.taint.is_empty() || !self.taint10.is_empty() {
                    // re-insertion order among equal ancestors_count is hash-set order;
                    // it only matters when the counts are already wrong (F3 class)
                    return;
                }
                let sid = u.short(*k);
                let r = self.prim(|p, _| p.verif_remove_by_detached_proposal(&[sid]));
                self.observe(Cop::Detach(*k), vec![], r.is_none());
            }
        }
    }
}

fn gen_op(r: &mut Rng, run: &Run) -> Op {
    let u = run.u;
    let pooled: Vec<u64> = run.pooled().into_iter().collect();
    let n = u.n();
    let st = || -> u8 { 0 };
    let _ = st;
    let k = r.below(100);
    if k < 58 || pooled.is_empty() {
        // submit: prefer a tx that is not pooled
        let mut cand: Vec<u64> = (1..=n).filter(|x| !pooled.contains(x)).collect();
        if !run.cfg.reorg_mode {
            // parents pooled or committed, and never re-submit a committed tx
            cand.retain(|x| {
                !run.committed.contains(x)
                    && u.spec(*x).inputs.iter().chain(u.spec(*x).deps.iter()).all(|o| o.0 == 0 || pooled.contains(&o.0) || run.committed.contains(&o.0))
            });
        }
        let status = *r.pick(&[0u8, 0, 0, 1, 2, 2]);
        if cand.is_empty() || r.chance(1, 25) {
            return Op::Submit(r.range(1, n), status);
        }
        return Op::Submit(*r.pick(&cand), status);
    }
    let any = |r: &mut Rng| -> u64 { if r.chance(5, 6) { *r.pick(&pooled) } else { r.range(1, n) } };
    match k {
        58..=67 => Op::Commit(if r.chance(3, 4) { *r.pick(&pooled) } else { r.range(1, n) }),
        68..=74 => Op::RemoveTx(any(r)),
        75..=79 => Op::Remove(any(r)),
        80..=88 => Op::Set(*r.pick(&pooled), r.below(3) as u8),
        89..=91 => Op::Expire,
        92..=94 => Op::Header(if r.chance(1, 2) { vec![r.range(1, 3)] } else { vec![r.range(1, 3), r.range(1, 4)] }),
        _ => Op::Detach(any(r)),
    }
}

fn gen_cfg(r: &mut Rng) -> Cfg {
    let max_anc = *r.pick(&[2u64, 3, 3, 4, 4, 5, 6, 125]);
    let max_pool_size = *r.pick(&[300u64, 600, 900, 1500, 1_000_000, 1_000_000]);
    let rbf = r.chance(3, 5);
    Cfg {
        max_anc,
        max_pool_size,
        min_fee_rate: 1000,
        min_rbf_rate: if rbf { *r.pick(&[1500u64, 1001, 3000]) } else { 1000 },
        reorg_mode: r.chance(3, 10),
    }
}

fn cfg_json(c: &Cfg) -> Value {
    json!({"max_ancestors_count": c.max_anc, "max_tx_pool_size": c.max_pool_size, "min_fee_rate": c.min_fee_rate,
           "min_rbf_rate": c.min_rbf_rate, "reorg_mode": c.reorg_mode})
}
fn cfg_from_json(v: &Value) -> Cfg {
    Cfg {
        max_anc: v["max_ancestors_count"].as_u64().unwrap(),
        max_pool_size: v["max_tx_pool_size"].as_u64().unwrap(),
        min_fee_rate: v["min_fee_rate"].as_u64().unwrap(),
        min_rbf_rate: v["min_rbf_rate"].as_u64().unwrap(),
        reorg_mode: v["reorg_mode"].as_bool().unwrap_or(true),
    }
}

fn new_run<'a>(env: &Env, u: &'a Universe, cfg: &'a Cfg) -> Run<'a> {
    Run {
        u,
        cfg,
        pool: make_pool(env, cfg),
        cb: Callbacks::new(),
        steps: vec![],
        findings: vec![],
        taint: BTreeSet::new(),
        taint10: BTreeSet::new(),
        polluted_panic: false,
        f10_removes: 0,
        committed: BTreeSet::new(),
        dead: false,
        f3_adds: 0,
        rbf_accepts: 0,
        rbf_rejects: 0,
        limit_evictions: 0,
        anc_limit_rejects: 0,
        cellref_evictions: 0,
    }
}

fn universe_from_specs(specs: Vec<TxSpec>, genesis_tx: &Byte32) -> Universe {
    let mut u = Universe { specs: vec![], views: vec![], by_short: HashMap::new(), by_hash: HashMap::new(), genesis_tx: genesis_tx.clone() };
    u.by_hash.insert(genesis_tx.clone(), 0);
    for s in specs {
        let v = build_view(&u, &s);
        u.by_short.insert(v.proposal_short_id(), s.id);
        u.by_hash.insert(v.hash(), s.id);
        u.specs.push(s);
        u.views.push(v);
    }
    u
}

fn case_json(u: &Universe, cfg: &Cfg, ops: &[Op]) -> Value {
    json!({"config": cfg_json(cfg), "txs": u.specs.iter().map(spec_json).collect::<Vec<_>>(), "ops": ops.iter().map(op_json).collect::<Vec<_>>()})
}

fn replay(env: &Env, path: &str) -> ! {
    let v: Value = serde_json::from_str(&fs::read_to_string(path).unwrap()).unwrap();
    let case = if let Some(vs) = v.get("violations") { vs[0]["detail"]["case"].clone() } else { v["cases"][0]["case"].clone() };
    let specs: Vec<TxSpec> = case["txs"].as_array().unwrap().iter().map(spec_from_json).collect();
    let u = universe_from_specs(specs, &env.genesis_tx);
    let cfg = cfg_from_json(&case["config"]);
    let ops: Vec<Op> = case["ops"].as_array().unwrap().iter().map(op_from_json).collect();
    let mut run = new_run(env, &u, &cfg);
    start_watchdog(std::path::PathBuf::from("."), 0, true);
    for (i, op) in ops.iter().enumerate() {
        *WATCH.lock().unwrap() = Some((std::time::Instant::now(), json!({"op_index": i})));
        run.apply(op);
    }
    *WATCH.lock().unwrap() = None;
    println!("replayed {} ops ({} primitive steps)", ops.len(), run.steps.len());
    if let Some(Some(c)) = run.steps.last().map(|s| s.state.clone()) {
        println!("final state: {}", canon_json(&c));
    }
    let mut bad = false;
    for (i, f, known) in &run.findings {
        println!("{} step {} [{}] {}", if known.is_some() { "KNOWN-CLASS" } else { "PROPERTY VIOLATED" }, i, f.clause, f.what);
        if known.is_none() {
            bad = true;
        }
    }
    std::process::exit(if bad { 1 } else { 0 })
}

fn main() {
    let out = out_dir(PROP);
    let scratch = scratch_dir(PROP);
    let env = make_env(&scratch.join("db"));
    if let Ok(p) = std::env::var("HX_REPLAY") {
        // keep the panic message of a replayed case visible
        replay(&env, &p);
    }
    std::panic::set_hook(Box::new(|info| {
        *LAST_PANIC.lock().unwrap() = info.to_string();
    }));
    let seed = seed();
    let thorough = tier_is_thorough();
    for e in fs::read_dir(&out).unwrap().flatten() {
        let n = e.file_name().to_string_lossy().to_string();
        if n.starts_with("cases_") || n == "summary.json" {
            let _ = fs::remove_file(e.path());
        }
    }
    start_watchdog(out.clone(), seed, false);
    let mut rng = Rng::new(seed);
    let mut stats: BTreeMap<String, u64> = BTreeMap::new();
    let mut viol: Vec<Value> = Vec::new();
    let mut samples: Vec<Value> = Vec::new();
    let mut distinct = BTreeSet::new();
    let mut evaluations = 0u64;
    let mut steps_total = 0u64;

    let n_model = env_u64("HX_POOL_MODEL_SEQS", if thorough { 4000 } else { 640 });
    let n_pred = env_u64("HX_POOL_PRED_SEQS", if thorough { 200_000 } else { 12_000 });
    let shards = 16usize;
    let header = "From CKB Require Import Pool.PoolMap Pool.Check.";
    let mut files: Vec<CaseFile> = (0..shards)
        .map(|i| {
            let mut cf = CaseFile::new(&out, &format!("cases_{:02}", i), header);
            cf.group("hist", "hist_case", "check_hist");
            cf
        })
        .collect();
    let mut descs: Vec<BTreeMap<String, Vec<Value>>> = (0..shards).map(|_| BTreeMap::new()).collect();

    // corpus: the F3 probe G <- P <- C, inserted G, C, P, then C removed
    let f3_specs = vec![
        TxSpec { id: 1, inputs: vec![(0, 1)], deps: vec![], hdeps: vec![], n_out: 1, size: 100, cycles: 10, fee: 1000, ts: 2_000_000_000_000_001 },
        TxSpec { id: 2, inputs: vec![(1, 0)], deps: vec![], hdeps: vec![], n_out: 1, size: 200, cycles: 20, fee: 2000, ts: 2_000_000_000_000_002 },
        TxSpec { id: 3, inputs: vec![(2, 0)], deps: vec![], hdeps: vec![], n_out: 1, size: 300, cycles: 30, fee: 3000, ts: 2_000_000_000_000_003 },
    ];
    let f3_cfg = Cfg { max_anc: 125, max_pool_size: 1_000_000, min_fee_rate: 1000, min_rbf_rate: 1500, reorg_mode: true };
    let f3_ops = vec![Op::Submit(1, 0), Op::Submit(3, 0), Op::Submit(2, 0), Op::Remove(3)];

    let total = n_model + n_pred;
    for si in 0..=total {
        let corpus = si == 0;
        let with_model = si <= n_model;
        let mut r = rng.fork();
        let (u, cfg) = if corpus {
            (universe_from_specs(f3_specs.clone(), &env.genesis_tx), f3_cfg.clone())
        } else {
            (gen_universe(&mut r, &env.genesis_tx, &mut stats), gen_cfg(&mut r))
        };
        let nops = if corpus { f3_ops.len() } else if with_model { r.range(6, if thorough { 40 } else { 30 }) as usize } else { r.range(8, 60) as usize };
        let mut run = new_run(&env, &u, &cfg);
        let mut ops: Vec<Op> = vec![];
        for i in 0..nops {
            if run.dead {
                break;
            }
            let op = if corpus { f3_ops[i].clone() } else { gen_op(&mut r, &run) };
            let tag = match &op {
                Op::Submit(..) => "op_submit",
                Op::Commit(_) => "op_commit",
                Op::RemoveTx(_) => "op_remove_tx",
                Op::Remove(_) => "op_remove_entry",
                Op::Set(..) => "op_set_entry",
                Op::Expire => "op_remove_expired",
                Op::Header(_) => "op_detached_headers",
                Op::Detach(_) => "op_detached_proposal",
            };
            *stats.entry(tag.into()).or_default() += 1;
            ops.push(op.clone());
            *WATCH.lock().unwrap() = Some((std::time::Instant::now(), case_json(&u, &cfg, &ops)));
            run.apply(&op);
        }
        *WATCH.lock().unwrap() = None;
        WATCH_FINDINGS.lock().unwrap().clear();
        evaluations += 1;
        steps_total += run.steps.len() as u64;
        if run.steps.iter().filter(|s| matches!(s.cop, Cop::Add(..)) && s.result == vec![0]).count() >= 3 {
            distinct.insert(format!("{:?}{:?}{:?}", u.specs, cfg, ops));
        }
        for (name, v) in [
            ("adds_with_pooled_children_F3", run.f3_adds),
            ("plain_removes_of_inner_nodes_F10", run.f10_removes),
            ("rbf_accepted", run.rbf_accepts),
            ("rbf_rejected", run.rbf_rejects),
            ("limit_size_evictions", run.limit_evictions),
            ("ancestor_limit_rejects", run.anc_limit_rejects),
            ("cell_ref_evictions_inside_add", run.cellref_evictions),
        ] {
            *stats.entry(name.into()).or_default() += v;
        }
        if cfg.reorg_mode {
            *stats.entry("sequences_reorg_mode".into()).or_default() += 1;
        }
        let cj = case_json(&u, &cfg, &ops);
        let mut known_hit = false;
        let mut reported = 0;
        for (step, f, known) in &run.findings {
            if let Some(sig) = known {
                known_hit = true;
                if viol.iter().filter(|v| v.get("signature").and_then(|s| s.as_str()) == Some(*sig)).count() < 3 {
                    viol.push(json!({"what": format!("[{}] {}", f.clause, f.what), "signature": sig,
                                     "detail": {"case": cj, "primitive_step": step}}));
                } else {
                    *stats.entry("known_class_mismatches_not_listed".into()).or_default() += 1;
                }
            } else if reported < 2 {
                reported += 1;
                viol.push(json!({"what": format!("[{}] {}", f.clause, f.what),
                                 "detail": {"case": cj, "primitive_step": step,
                                            "primitive_ops": run.steps.iter().take(step + 1).map(|s| cop_coq(&s.cop)).collect::<Vec<_>>()}}));
            }
        }
        if known_hit {
            *stats.entry("sequences_hitting_a_known_class".into()).or_default() += 1;
        }
        if with_model {
            let sh = si as usize % shards;
            let steps = coq_list(&run.steps, |s| {
                format!("({}, {}, {})", cop_coq(&s.cop), ids_coq(&s.result), coq_option(&s.state, canon_coq))
            });
            files[sh].push(0, format!("mkHist {} {}\n    {}", coq_n(cfg.max_anc as u128), coq_list(&u.specs, spec_coq), steps));
            let mut d = cj.clone();
            d["primitive_steps"] = json!(run.steps.iter().map(|s| cop_coq(&s.cop)).collect::<Vec<_>>());
            if known_hit {
                // the model is faithful to the code, F3 included: a disagreement on such a case is still reported
                d["hits_known_class"] = json!(true);
            }
            if run.polluted_panic {
                // the container panic depends on hash-set iteration order: the model cannot follow it
                d["known_signature"] = json!(if run.f3_adds > 0 { SIG_F3 } else { SIG_F10 });
            }
            descs[sh].entry("hist".into()).or_default().push(d.clone());
            if samples.len() < 3 && !corpus && run.steps.len() > 8 {
                samples.push(json!({"case": d, "final_state": run.steps.last().and_then(|s| s.state.as_ref()).map(canon_json)}));
            }
        }
    }
    stats.insert("primitive_steps_checked".into(), steps_total);
    for (i, cf) in files.iter().enumerate() {
        cf.write().unwrap();
        fs::write(out.join(format!("cases_{:02}.json", i)), serde_json::to_string(&descs[i]).unwrap()).unwrap();
    }
    drop(env);
    let _ = fs::remove_dir_all(&scratch);
    let summary = json!({
        "property": PROP,
        "seed": seed,
        "evaluations": evaluations,
        "distinct_nontrivial": distinct.len(),
        "rule": "random op sequences (submit with conflict/RBF pre-check + limit_size, commit, remove_tx, remove_entry, set_entry, remove_expired, detached headers, detached proposal) over random tx DAGs of 5..13 txs; the invariant I1..I8 is recomputed from the dump after every primitive step; distinct = distinct (txs, config, ops) with at least three successful insertions",
        "distribution": stats,
        "samples": samples,
        "impl_violations": viol,
        "extra_coverage": {"sequences_compared_with_the_coq_model": n_model + 1, "sequences_predicate_only": n_pred},
    });
    fs::write(out.join("summary.json"), serde_json::to_string_pretty(&summary).unwrap()).unwrap();
    println!("hx-pool: {} sequences, {} primitive steps, {} implementation-side findings", evaluations, steps_total, viol.len());
}
