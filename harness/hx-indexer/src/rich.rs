//! C18, second stream: the SQL-backed rich indexer (util/rich-indexer) on an
//! in-memory SQLite database, driven through the `verif-hooks` wrapper
//! `VerifRichIndexer` (append / rollback, exactly what IndexerSync calls) and
//! queried through the public `AsyncRichIndexerHandle`.
//!
//! Histories come from the same generator as the first stream (world.rs:
//! reorganisations, cells created and consumed in one block, shared lock/type
//! scripts, type scripts shared across blocks and never used as a lock, args
//! that are prefixes of each other).  After EVERY append and rollback
//!  (i) a fixed battery of search keys (every script of the world as lock and as
//!      type script, exact / prefix / partial) and a generated set of search keys
//!      with filters are put to get_cells / get_transactions (ungrouped and
//!      grouped) / get_cells_capacity / get_indexer_tip, pages walked to the end,
//!      and compared with the direct filter over the harness's own replay of the
//!      indexed main chain (spec.rs);
//!  (ii) after a rollback the whole battery must answer what it answered before
//!      the block was appended;
//!  (iii) operations, queries and answers are written as Coq cases
//!      (coq/Indexer/Rich.v, check_rich_hist).
//!
//! Documented semantics of the rich indexer that differ from ckb-indexer and are
//! encoded here: results come in the order of insertion (chain order: block,
//! tx index, output index), not in key order; `last_cursor` is opaque (only
//! "walk until a short page" is used); script_search_mode `partial` (args contain
//! the searched bytes; code_hash and hash_type equal); get_cells_capacity is
//! null when no live cell is selected; get_transactions accepts every cell
//! filter (script as a prefix — IndexerSearchKeyFilter's documentation —,
//! script_len_range, output_data + mode, output_data_len_range,
//! output_capacity_range) applied to the cell the row is about and block_range
//! applied to the block of the row's transaction; the order of the rows of one
//! transaction is not specified (compared as a set per transaction).
use crate::spec::*;
use crate::world::*;
use crate::{cq_block, cq_opt_range, n, order, search_key, HistOut, Interner, Totals, Violation};
use ckb_app_config::RichIndexerConfig;
use ckb_jsonrpc_types::{IndexerCellType, IndexerTx, JsonBytes};
use ckb_rich_indexer::verif_hooks::{SQLXPool, VerifRichIndexer};
use ckb_rich_indexer::AsyncRichIndexerHandle;
use ckb_types::{packed, prelude::*, H256};
use hx_common::*;
use serde_json::{json, Value};
use std::panic::{catch_unwind, AssertUnwindSafe};
use tokio::runtime::Runtime;

const MEMORY_DB: &str = "sqlite://?mode=memory";

pub fn runtime() -> Runtime {
    tokio::runtime::Builder::new_current_thread().enable_all().build().expect("tokio runtime")
}

struct Rich {
    ix: VerifRichIndexer,
    h: AsyncRichIndexerHandle,
    #[allow(dead_code)]
    pool: SQLXPool,
}

fn open(rt: &Runtime) -> Result<Rich, String> {
    rt.block_on(async {
        let mut pool = SQLXPool::default();
        let config = RichIndexerConfig { store: MEMORY_DB.into(), ..Default::default() };
        pool.connect(&config).await.map_err(|e| format!("{e:?}"))?;
        Ok(Rich { ix: VerifRichIndexer::new(pool.clone()), h: AsyncRichIndexerHandle::new(pool.clone(), None, 1_000_000), pool })
    })
}

// ---------------------------------------------------------------------------
// one request
type Page<T> = Result<(Vec<T>, Vec<u8>), String>;

fn guard<T>(f: impl FnOnce() -> Result<T, String>) -> Result<T, String> {
    match catch_unwind(AssertUnwindSafe(f)) {
        Ok(r) => r,
        Err(_) => Err("PANIC".into()),
    }
}

fn get_cells(rt: &Runtime, r: &Rich, w: &World, sq: &SQ, with_data: Option<bool>, after: Option<Vec<u8>>) -> Page<CellRes> {
    guard(|| {
        let mut key = search_key(sq, false);
        key.with_data = with_data;
        let p = rt
            .block_on(r.h.get_cells(key, order(sq), sq.limit.into(), after.map(JsonBytes::from_vec)))
            .map_err(|e| format!("{e:?}"))?;
        let cells = p
            .objects
            .iter()
            .map(|c| {
                let out: packed::CellOutput = c.output.clone().into();
                let txh: packed::Byte32 = c.out_point.tx_hash.clone().into();
                CellRes {
                    tx: w.tx_id(&txh),
                    idx: c.out_point.index.value(),
                    bn: c.block_number.value(),
                    txi: c.tx_index.value(),
                    cap: Into::<ckb_types::core::Capacity>::into(out.capacity()).as_u64(),
                    out_bytes: out.as_slice().to_vec(),
                    data: c.output_data.as_ref().map(|d| d.as_bytes().to_vec()),
                }
            })
            .collect();
        Ok((cells, p.last_cursor.as_bytes().to_vec()))
    })
}

fn tid(w: &World, h: &H256) -> u64 {
    let b: packed::Byte32 = h.clone().into();
    w.tx_id(&b)
}

fn get_txs(rt: &Runtime, r: &Rich, w: &World, sq: &SQ, after: Option<Vec<u8>>) -> Page<TxRes> {
    guard(|| {
        let p = rt
            .block_on(r.h.get_transactions(search_key(sq, false), order(sq), sq.limit.into(), after.map(JsonBytes::from_vec)))
            .map_err(|e| format!("{e:?}"))?;
        let mut v = Vec::new();
        for t in &p.objects {
            match t {
                IndexerTx::Ungrouped(u) => v.push(TxRes {
                    tx: tid(w, &u.tx_hash),
                    bn: u.block_number.value(),
                    txi: u.tx_index.value(),
                    ioi: u.io_index.value(),
                    out: matches!(u.io_type, IndexerCellType::Output),
                }),
                _ => return Err("a grouped object in an ungrouped answer".into()),
            }
        }
        Ok((v, p.last_cursor.as_bytes().to_vec()))
    })
}

fn get_groups(rt: &Runtime, r: &Rich, w: &World, sq: &SQ, after: Option<Vec<u8>>) -> Page<Group> {
    guard(|| {
        let p = rt
            .block_on(r.h.get_transactions(search_key(sq, true), order(sq), sq.limit.into(), after.map(JsonBytes::from_vec)))
            .map_err(|e| format!("{e:?}"))?;
        let mut v = Vec::new();
        for t in &p.objects {
            match t {
                IndexerTx::Grouped(g) => {
                    let mut cells: Vec<(bool, u32)> = g.cells.iter().map(|(t, i)| (matches!(t, IndexerCellType::Output), i.value())).collect();
                    cells.sort();
                    v.push(Group { tx: tid(w, &g.tx_hash), bn: g.block_number.value(), txi: g.tx_index.value(), cells })
                }
                _ => return Err("an ungrouped object in a grouped answer".into()),
            }
        }
        Ok((v, p.last_cursor.as_bytes().to_vec()))
    })
}

fn get_capacity(rt: &Runtime, r: &Rich, w: &World, sq: &SQ) -> Result<Option<(u64, u64, u64)>, String> {
    guard(|| {
        let c = rt.block_on(r.h.get_cells_capacity(search_key(sq, false))).map_err(|e| format!("{e:?}"))?;
        Ok(c.map(|c| {
            let bh: packed::Byte32 = c.block_hash.clone().into();
            (c.capacity.value(), c.block_number.value(), w.block_id(&bh))
        }))
    })
}

fn get_tip(rt: &Runtime, r: &Rich, w: &World) -> Result<Option<(u64, u64, packed::Byte32)>, String> {
    guard(|| {
        let t = rt.block_on(r.h.get_indexer_tip()).map_err(|e| format!("{e:?}"))?;
        Ok(t.map(|t| {
            let bh: packed::Byte32 = t.block_hash.clone().into();
            (t.block_number.value(), w.block_id(&bh), bh)
        }))
    })
}

/// pages until a short one; `Err` when a request fails; stops (flag) when the
/// walk does not end within `max_pages` or a page and its cursor repeat
struct Walk<T> {
    pages: Vec<Vec<T>>,
    endless: bool,
}
fn walk<T: Clone + PartialEq>(limit: u32, max_pages: usize, mut ask: impl FnMut(Option<Vec<u8>>) -> Page<T>) -> Result<Walk<T>, String> {
    let mut pages: Vec<Vec<T>> = Vec::new();
    let mut after: Option<Vec<u8>> = None;
    let mut last_cursor: Option<Vec<u8>> = None;
    loop {
        let (objs, cur) = ask(after.clone())?;
        let full = objs.len() >= limit as usize;
        let repeat = last_cursor.as_ref() == Some(&cur) && pages.last() == Some(&objs);
        pages.push(objs);
        if !full {
            return Ok(Walk { pages, endless: false });
        }
        if repeat || pages.len() > max_pages {
            return Ok(Walk { pages, endless: true });
        }
        last_cursor = Some(cur.clone());
        after = Some(cur);
    }
}

// ---------------------------------------------------------------------------
// the direct filters (documented semantics of the rich indexer, see the head of this file)
/// F23 (recorded finding): the rich indexer turns a prefix into the range `>= prefix AND < upper` with
/// `upper = get_binary_upper_boundary(prefix)`; for an empty prefix that is 32 bytes of 0xff and for a prefix of n bytes
/// 0xff it is n + 1 bytes of 0xff — values that continue the prefix with at least that many 0xff bytes are not below it.
/// With F23_MODE set the direct filters below describe the code WITH that defect (used only to classify a difference).
pub const SIG_F23: &str = "rich-indexer-prefix-upper-bound-sentinel";
static F23_MODE: std::sync::atomic::AtomicBool = std::sync::atomic::AtomicBool::new(false);
fn f23_mode() -> bool { F23_MODE.load(std::sync::atomic::Ordering::SeqCst) }
fn with_f23<T>(f: impl FnOnce() -> T) -> T {
    F23_MODE.store(true, std::sync::atomic::Ordering::SeqCst);
    let r = f();
    F23_MODE.store(false, std::sync::atomic::Ordering::SeqCst);
    r
}
fn beyond_sentinel(prefix: &[u8], value: &[u8]) -> bool {
    let upper: Option<Vec<u8>> = if prefix.is_empty() { Some(vec![0xff; 32]) } else if prefix.iter().all(|b| *b == 0xff) { Some(vec![0xff; prefix.len() + 1]) } else { None };
    match upper { Some(u) => value.starts_with(prefix) && value >= &u[..], None => false }
}
fn rich_cell_pass(q: &SQ, c: &LiveCell) -> bool {
    if !cell_pass(q, c, false) { return false; }
    if f23_mode() {
        if let Some(fs) = &q.f.script {
            let other = if q.lock { c.out.typ.clone() } else { Some(c.out.lock.clone()) };
            if let Some(o) = other { if beyond_sentinel(&fs.args, &o.args) { return false; } }
        }
        if let Some((d, m)) = &q.f.data { if *m <= 1 && beyond_sentinel(d, &c.out.data) { return false; } }
    }
    true
}
fn sel(q: &SQ, s: &AScript) -> bool {
    q.script.code == s.code
        && q.script.ht == s.ht
        && match q.mode {
            0 | 1 => s.args.starts_with(&q.script.args) && !(f23_mode() && beyond_sentinel(&q.script.args, &s.args)),
            2 => s.args == q.script.args,
            _ => contains(&s.args, &q.script.args),
        }
}
fn want_cells(st: &ChainState, q: &SQ) -> Vec<LiveCell> {
    let mut v: Vec<LiveCell> = st
        .live
        .iter()
        .filter(|c| {
            let s = if q.lock { Some(&c.out.lock) } else { c.out.typ.as_ref() };
            s.map(|s| sel(q, s)).unwrap_or(false) && rich_cell_pass(q, c)
        })
        .cloned()
        .collect();
    if q.desc {
        v.reverse();
    }
    v
}
fn want_capacity(st: &ChainState, q: &SQ, tip: Option<(u64, u64)>) -> Option<(u64, u64, u64)> {
    let mut one = q.clone();
    one.desc = false;
    let cells = want_cells(st, &one);
    if cells.is_empty() {
        return None;
    }
    let s: u64 = cells.iter().map(|c| c.out.cap).sum();
    tip.map(|(n, i)| (s, n, i))
}
/// the rows of the transaction history selected by `q`, as groups per
/// transaction in chain order (reversed for desc), rows of a group by (io type, io index)
fn want_groups(st: &ChainState, q: &SQ) -> Vec<Group> {
    let mut gs: Vec<Group> = Vec::new();
    for r in st.rows.iter().filter(|r| r.lock == q.lock && sel(q, &r.script)) {
        // the cell filters look at the cell the row is about, block_range at the row's block
        let c = LiveCell { tx: 0, idx: 0, bn: r.bn, txi: r.txi, out: r.cell.clone() };
        if !rich_cell_pass(q, &c) {
            continue;
        }
        match gs.last_mut() {
            Some(g) if g.tx == r.tx => g.cells.push((r.out, r.ioi)),
            _ => gs.push(Group { tx: r.tx, bn: r.bn, txi: r.txi, cells: vec![(r.out, r.ioi)] }),
        }
    }
    for g in gs.iter_mut() {
        g.cells.sort();
    }
    if q.desc {
        gs.reverse();
    }
    gs
}
fn flatten(gs: &[Group]) -> Vec<TxRes> {
    gs.iter().flat_map(|g| g.cells.iter().map(move |(o, i)| TxRes { tx: g.tx, bn: g.bn, txi: g.txi, ioi: *i, out: *o })).collect()
}
/// consecutive rows of one transaction become one group (rows sorted)
fn regroup(rows: &[TxRes]) -> Vec<Group> {
    let mut gs: Vec<Group> = Vec::new();
    for r in rows {
        match gs.last_mut() {
            Some(g) if g.tx == r.tx && g.bn == r.bn && g.txi == r.txi => g.cells.push((r.out, r.ioi)),
            _ => gs.push(Group { tx: r.tx, bn: r.bn, txi: r.txi, cells: vec![(r.out, r.ioi)] }),
        }
    }
    for g in gs.iter_mut() {
        g.cells.sort();
    }
    gs
}

// ---------------------------------------------------------------------------
// one search key put to every method; what was answered
#[derive(Clone, PartialEq, Debug)]
pub struct KeyAnswers {
    cells: Vec<CellRes>,          // all pages, with data
    capacity: Option<(u64, u64, u64)>,
    rows: Vec<Group>,             // ungrouped rows of all pages, regrouped
    groups: Vec<Group>,           // grouped, all pages
}

struct Ctx<'a> {
    rt: &'a Runtime,
    r: &'a Rich,
    w: &'a World,
    st: &'a ChainState,
    tip: Option<(u64, u64)>,
    case: &'a Value,
    step: usize,
}

fn viol(tot: &mut Totals, cx: &Ctx, what: &str, q: &SQ, method: &str, got: Value, want: Value, sig: Option<&str>) {
    tot.violation(Violation {
        what: format!("rich indexer: {what}"),
        detail: json!({"case": cx.case, "step": cx.step, "method": method, "search_key": q.json(), "answer": got, "expected": want}),
        signature: sig.map(|s| s.to_string()),
    });
}
fn cells_json(v: &[CellRes]) -> Value {
    json!(v.iter().map(|c| json!([c.tx, c.idx, c.bn, c.txi, c.cap, hex(&c.out_bytes), c.data.as_ref().map(|d| hex(d))])).collect::<Vec<_>>())
}
fn live_json(v: &[LiveCell]) -> Value {
    json!(v.iter().map(|c| json!([c.tx, c.idx, c.bn, c.txi, c.out.cap, hex(c.out.packed().as_slice()), hex(&c.out.data)])).collect::<Vec<_>>())
}
fn groups_json(v: &[Group]) -> Value {
    json!(v.iter().map(|g| json!([g.tx, g.bn, g.txi, g.cells])).collect::<Vec<_>>())
}
fn same_cells(got: &[CellRes], want: &[LiveCell], with_data: bool) -> bool {
    got.len() == want.len()
        && got.iter().zip(want.iter()).all(|(g, c)| {
            g.tx == c.tx && g.idx == c.idx && g.bn == c.bn && g.txi == c.txi && g.cap == c.out.cap
                && g.out_bytes == c.out.packed().as_slice().to_vec()
                && if with_data { g.data.as_deref() == Some(&c.out.data[..]) } else { g.data.is_none() }
        })
}
/// every page but the last is full, no page is longer than the limit
fn pages_ok<T>(pages: &[Vec<T>], limit: u32) -> bool {
    pages.iter().enumerate().all(|(i, p)| p.len() <= limit as usize && (i + 1 == pages.len() || p.len() == limit as usize))
}

/// get_cells with `q` (its order, limit) walked to the end, compared with the filter
fn check_cells(cx: &Ctx, q: &SQ, with_data: Option<bool>, tot: &mut Totals) -> Option<Vec<CellRes>> {
    let want = want_cells(cx.st, q);
    let maxp = want.len() / (q.limit.max(1) as usize) + 3;
    tot.evaluations += 1;
    tot.bump("rich_q_get_cells");
    match walk(q.limit, maxp, |after| get_cells(cx.rt, cx.r, cx.w, q, with_data, after)) {
        Err(e) => {
            viol(tot, cx, "get_cells failed or panicked", q, "get_cells", json!(e), live_json(&want), None);
            None
        }
        Ok(wk) => {
            tot.add("rich_pages", wk.pages.len() as u64);
            let flat: Vec<CellRes> = wk.pages.concat();
            if !flat.is_empty() {
                tot.bump("rich_answers_nonempty");
            }
            if wk.endless || !pages_ok(&wk.pages, q.limit) || !same_cells(&flat, &want, with_data != Some(false)) {
                viol(
                    tot, cx,
                    "get_cells (pages walked to the end) differs from the filter over the chain's live cells, in chain order",
                    q, "get_cells",
                    json!({"pages": wk.pages.iter().map(|p| cells_json(p)).collect::<Vec<_>>(), "with_data": with_data, "walk_did_not_end": wk.endless}),
                    live_json(&want),
                    if !wk.endless && pages_ok(&wk.pages, q.limit) && same_cells(&flat, &with_f23(|| want_cells(cx.st, q)), with_data != Some(false)) { Some(SIG_F23) } else { None },
                );
            }
            Some(flat)
        }
    }
}

fn check_capacity(cx: &Ctx, q: &SQ, tot: &mut Totals) -> Option<Option<(u64, u64, u64)>> {
    let want = want_capacity(cx.st, q, cx.tip);
    tot.evaluations += 1;
    tot.bump("rich_q_get_cells_capacity");
    match get_capacity(cx.rt, cx.r, cx.w, q) {
        Err(e) => {
            viol(tot, cx, "get_cells_capacity failed or panicked", q, "get_cells_capacity", json!(e), json!(want), None);
            None
        }
        Ok(c) => {
            if c != want {
                let sig = if c == with_f23(|| want_capacity(cx.st, q, cx.tip)) { Some(SIG_F23) } else { None };
                viol(tot, cx, "get_cells_capacity differs from the sum over the filtered live cells / the tip (null when no cell is selected)", q, "get_cells_capacity", json!(c), json!(want), sig);
            }
            Some(c)
        }
    }
}

fn check_txs(cx: &Ctx, q: &SQ, tot: &mut Totals) -> Option<Vec<Group>> {
    let want = want_groups(cx.st, q);
    let nrows: usize = want.iter().map(|g| g.cells.len()).sum();
    let maxp = nrows / (q.limit.max(1) as usize) + 3;
    tot.evaluations += 1;
    tot.bump("rich_q_get_transactions");
    match walk(q.limit, maxp, |after| get_txs(cx.rt, cx.r, cx.w, q, after)) {
        Err(e) => {
            viol(tot, cx, "get_transactions failed or panicked", q, "get_transactions", json!(e), groups_json(&want), None);
            None
        }
        Ok(wk) => {
            tot.add("rich_pages", wk.pages.len() as u64);
            let flat: Vec<TxRes> = wk.pages.concat();
            let got = regroup(&flat);
            if !flat.is_empty() {
                tot.bump("rich_answers_nonempty");
            }
            if wk.endless || !pages_ok(&wk.pages, q.limit) || got != want {
                let pj = json!({"pages": wk.pages.iter().map(|p| json!(p.iter().map(|t| json!([t.tx, t.bn, t.txi, t.ioi, t.out])).collect::<Vec<_>>())).collect::<Vec<_>>(), "walk_did_not_end": wk.endless});
                let sig = if !wk.endless && pages_ok(&wk.pages, q.limit) && got == with_f23(|| want_groups(cx.st, q)) { Some(SIG_F23) } else { None };
                viol(tot, cx, "get_transactions (ungrouped, pages walked to the end) differs from the filter over the chain's transaction history", q, "get_transactions", pj, groups_json(&want), sig);
            }
            Some(got)
        }
    }
}

fn check_groups(cx: &Ctx, q: &SQ, tot: &mut Totals) -> Option<Vec<Group>> {
    let want = want_groups(cx.st, q);
    let maxp = want.len() / (q.limit.max(1) as usize) + 3;
    tot.evaluations += 1;
    tot.bump("rich_q_get_transactions_grouped");
    match walk(q.limit, maxp, |after| get_groups(cx.rt, cx.r, cx.w, q, after)) {
        Err(e) => {
            viol(tot, cx, "get_transactions (grouped) failed or panicked", q, "get_transactions_grouped", json!(e), groups_json(&want), None);
            None
        }
        Ok(wk) => {
            tot.add("rich_pages", wk.pages.len() as u64);
            let flat: Vec<Group> = wk.pages.concat();
            if !flat.is_empty() {
                tot.bump("rich_answers_nonempty");
            }
            if wk.endless || !pages_ok(&wk.pages, q.limit) || flat != want {
                viol(
                    tot, cx,
                    "get_transactions (group_by_transaction, pages walked to the end) is not the grouping of the filtered transaction history",
                    q, "get_transactions_grouped",
                    json!({"pages": wk.pages.iter().map(|p| groups_json(p)).collect::<Vec<_>>(), "walk_did_not_end": wk.endless}),
                    groups_json(&want),
                    if !wk.endless && pages_ok(&wk.pages, q.limit) && flat == with_f23(|| want_groups(cx.st, q)) { Some(SIG_F23) } else { None },
                );
            }
            Some(flat)
        }
    }
}

// ---------------------------------------------------------------------------
// search keys
fn plain(lock: bool, s: &AScript, mode: u8) -> SQ {
    SQ { lock, script: s.clone(), mode, desc: false, limit: 1000, after: None, f: Filt::default() }
}
/// the fixed battery of a history: every script of the world as lock and as type
/// search key, exact and prefix; partial for a few byte strings
fn battery(w: &World) -> Vec<SQ> {
    let mut v = Vec::new();
    let mut all: Vec<AScript> = w.locks.clone();
    for t in &w.types {
        if !all.contains(t) {
            all.push(t.clone());
        }
    }
    for s in &all {
        for lock in [true, false] {
            v.push(plain(lock, s, 2));
            v.push(plain(lock, s, 0));
        }
    }
    for (code, ht, args) in [(0xa1u8, 1u8, vec![2u8]), (0xc3, 1, vec![9]), (0xb2, 1, vec![0]), (0xa1, 1, vec![])] {
        for lock in [true, false] {
            v.push(plain(lock, &AScript { code, ht, args: args.clone() }, 3));
        }
    }
    v
}

fn pick_key_script(rng: &mut Rng, w: &World, st: &ChainState, lock: bool) -> AScript {
    let uni = if lock { &w.locks } else { &w.types };
    let of_cell = |c: &LiveCell| if lock { Some(c.out.lock.clone()) } else { c.out.typ.clone() };
    let k = rng.below(100);
    if k < 45 || st.live.is_empty() {
        rng.pick(uni).clone()
    } else if k < 65 {
        of_cell(rng.pick(&st.live)).unwrap_or_else(|| rng.pick(uni).clone())
    } else if k < 85 {
        // a prefix / a slice of some script's args
        let mut s = rng.pick(uni).clone();
        let a = rng.below(s.args.len() as u64 + 1) as usize;
        let b = rng.range(a as u64, s.args.len() as u64) as usize;
        s.args = if rng.chance(1, 2) { s.args[..b].to_vec() } else { s.args[a..b].to_vec() };
        s
    } else if k < 93 {
        // the other universe: a type script searched as lock and vice versa
        rng.pick(if lock { &w.types } else { &w.locks }).clone()
    } else {
        AScript { code: 0xdd, ht: 1, args: vec![1] }
    }
}
fn around(rng: &mut Rng, v: u64) -> (u64, u64) {
    match rng.below(7) {
        0 => (v, v + 1),
        1 => (0, v),
        2 => (v + 1, v + 5),
        3 => (v.saturating_sub(1), v),
        4 => (0, v + 1),
        5 => (v, v),
        _ => (v.saturating_sub(2), v + 2),
    }
}
fn gen_key(rng: &mut Rng, w: &World, st: &ChainState) -> SQ {
    let lock = rng.chance(1, 2);
    let mut f = Filt::default();
    if !st.live.is_empty() && rng.chance(3, 5) {
        let t = rng.pick(&st.live).clone();
        let other = if lock { t.out.typ.clone() } else { Some(t.out.lock.clone()) };
        if rng.chance(1, 3) {
            let uni = if lock { &w.types } else { &w.locks };
            let mut s = match (&other, rng.chance(2, 3)) {
                (Some(s), true) => s.clone(),
                _ => rng.pick(uni).clone(),
            };
            if rng.chance(1, 2) {
                let k = rng.below(s.args.len() as u64 + 1) as usize;
                s.args.truncate(k);
            }
            f.script = Some(s);
        }
        if rng.chance(1, 3) {
            f.block = Some(around(rng, t.bn));
        }
        if rng.chance(1, 4) {
            let l = other.as_ref().map(|s| s.raw().len() as u64).unwrap_or(0);
            f.slen = Some(around(rng, l));
        }
        if rng.chance(1, 4) {
            let d = &t.out.data;
            let mode = rng.below(4) as u8;
            let bytes = match rng.below(4) {
                0 => d.clone(),
                1 => d[..rng.below(d.len() as u64 + 1) as usize].to_vec(),
                2 => {
                    let a = rng.below(d.len() as u64 + 1) as usize;
                    let b = rng.range(a as u64, d.len() as u64) as usize;
                    d[a..b].to_vec()
                }
                _ => vec![rng.below(3) as u8],
            };
            f.data = Some((bytes, mode));
        }
        if rng.chance(1, 5) {
            f.dlen = Some(around(rng, t.out.data.len() as u64));
        }
        if rng.chance(1, 4) {
            f.cap = Some(around(rng, t.out.cap));
        }
    }
    SQ {
        lock,
        script: pick_key_script(rng, w, st, lock),
        mode: *rng.pick(&[0u8, 1, 2, 2, 3]),
        desc: rng.chance(1, 2),
        limit: *rng.pick(&[1u32, 2, 3, 5, 1000]),
        after: None,
        f,
    }
}

// ---------------------------------------------------------------------------
// Coq rendering (coq/Indexer/Rich.v)
fn cq_rquery(it: &mut Interner, q: &SQ, limit: u32) -> String {
    let f = &q.f;
    let dm = |m: u8| match m {
        0 | 1 => "DPrefix",
        2 => "DExact",
        _ => "DPartial",
    };
    let fs = match &f.script {
        Some(s) => format!("(Some {})", it.name(&s.raw())),
        None => "None".into(),
    };
    let fd = coq_option(&f.data, |(d, m)| format!("({}, {})", coq_bytes(d), dm(*m)));
    format!(
        "(mkRQ {} {} {} {} {} (mkF {} {} {} {} {} {}))",
        coq_bool(q.lock),
        it.name(&q.script.raw()),
        dm(q.mode),
        coq_bool(q.desc),
        coq_nat(limit as u64),
        fs,
        cq_opt_range(&f.slen),
        fd,
        cq_opt_range(&f.dlen),
        cq_opt_range(&f.cap),
        cq_opt_range(&f.block)
    )
}
fn script_raw(s: &packed::Script) -> Vec<u8> {
    let mut v = s.code_hash().raw_data().to_vec();
    v.push(s.hash_type().into());
    v.extend_from_slice(&s.args().raw_data());
    v
}
fn cq_cells(it: &mut Interner, v: &[CellRes]) -> String {
    let mut items: Vec<String> = Vec::new();
    for c in v {
        let out = packed::CellOutput::from_slice(&c.out_bytes).expect("cell output bytes");
        let lock = format!("(Some {})", it.name(&script_raw(&out.lock())));
        let typ = match out.type_().to_opt() {
            Some(t) => format!("(Some {})", it.name(&script_raw(&t))),
            None => "None".into(),
        };
        items.push(format!(
            "({}, {}, {}, {}, {}, {}, {}, {})",
            n(c.tx), n(c.idx as u64), n(c.bn), n(c.txi as u64), n(c.cap), lock, typ,
            coq_bytes(c.data.as_deref().unwrap_or(&[]))
        ));
    }
    coq_list(&items, |s| s.clone())
}
fn cq_rows(gs: &[Group]) -> String {
    let rows = flatten(gs);
    coq_list(&rows, |t| format!("({}, {}, {}, {}, {})", n(t.tx), n(t.bn), n(t.txi as u64), n(t.ioi as u64), coq_bool(t.out)))
}

// ---------------------------------------------------------------------------
/// one history on a fresh in-memory database
pub fn run_rich_history(rt: &Runtime, hseed: u64, thorough: bool, tot: &mut Totals, verbose: bool) -> HistOut {
    let mut rng = Rng::new(hseed ^ 0x7269_6368);
    let ctx = json!({"history_seed": hseed, "stream": "rich"});
    let mut it = Interner::new();
    let mut steps_coq: Vec<String> = Vec::new();
    let mut steps_json: Vec<Value> = Vec::new();
    let mut nontrivial = false;
    let r = match open(rt) {
        Ok(r) => r,
        Err(e) => {
            tot.violation(Violation { what: "rich indexer: connecting the in-memory SQLite store failed".into(), detail: json!({"case": ctx, "error": e}), signature: None });
            return HistOut { coq_case: "[]".into(), desc: ctx, nontrivial: false };
        }
    };
    let mut w = World::new(&mut rng);
    let max_ops = if thorough { 60 } else { 26 };
    let q_per_step = if thorough { 8 } else { 5 };
    let fixed = battery(&w);

    let mut indexed: Vec<ABlock> = Vec::new();
    let mut main: Vec<ABlock> = Vec::new();
    let mut before_stack: Vec<(Option<(u64, u64)>, Vec<Option<KeyAnswers>>)> = Vec::new();
    let mut cur_battery: (Option<(u64, u64)>, Vec<Option<KeyAnswers>>) = (None, fixed.iter().map(|_| None).collect());
    let mut have_battery = false;
    let mut nops = 0usize;
    let mut dead = false;

    while nops < max_ops && !dead {
        // ---- the node's main chain moves (no retention limit: any depth) ----
        if main.is_empty() {
            let g = w.gen_block(&mut rng, &[], true);
            main.push(g);
        } else if rng.chance(2, 5) && indexed.len() >= 2 {
            let maxd = std::cmp::min(indexed.len() - 1, 5);
            let d = rng.range(1, maxd as u64) as usize;
            let keep_len = main.len() - d;
            let orphans: Vec<ABlock> = main.split_off(keep_len);
            w.orphan(&orphans);
            let newlen = d + 1 + rng.below(2) as usize;
            for _ in 0..newlen {
                let b = w.gen_block(&mut rng, &main, false);
                main.push(b);
            }
            tot.bump(&format!("rich_reorg_depth_{d}"));
        } else {
            for _ in 0..rng.range(1, 3) {
                let b = w.gen_block(&mut rng, &main, false);
                main.push(b);
            }
        }
        // ---- IndexerSync::try_loop_sync ----
        loop {
            if nops >= max_ops + 12 {
                break;
            }
            let tip = match get_tip(rt, &r, &w) {
                Ok(t) => t,
                Err(e) => {
                    tot.violation(Violation { what: "rich indexer: get_indexer_tip failed or panicked".into(), detail: json!({"case": ctx, "step": nops, "error": e}), signature: None });
                    dead = true;
                    break;
                }
            };
            let op: Option<&ABlock>;
            match &tip {
                Some((tn, _, th)) => match main.get(*tn as usize + 1) {
                    Some(b) => op = if b.view.parent_hash() == *th { Some(b) } else { None },
                    None => {
                        // the tip itself may have left the main chain (same height, other branch)
                        if main.get(*tn as usize).map(|b| b.view.hash()) != Some(th.clone()) {
                            op = None;
                        } else {
                            break;
                        }
                    }
                },
                None => {
                    if !indexed.is_empty() {
                        tot.violation(Violation { what: "rich indexer: get_indexer_tip is null although blocks are indexed".into(), detail: json!({"case": ctx, "step": nops}), signature: None });
                        dead = true;
                        break;
                    }
                    op = Some(&main[0]);
                }
            }
            let step_no = nops;
            nops += 1;
            let op_coq;
            let op_json;
            let rolled_back: Option<ABlock>;
            match op {
                Some(b) => {
                    if have_battery {
                        before_stack.push(cur_battery.clone());
                    } else {
                        before_stack.push((None, fixed.iter().map(|_| None).collect()));
                    }
                    let res = guard(|| rt.block_on(r.ix.verif_append(&b.view)).map_err(|e| format!("{e:?}")));
                    if let Err(e) = res {
                        tot.violation(Violation { what: "rich indexer: append failed or panicked on a consistent block".into(), detail: json!({"case": ctx, "step": step_no, "block": b.json(), "error": e}), signature: None });
                        dead = true;
                        break;
                    }
                    indexed.push(b.clone());
                    tot.bump("rich_op_append");
                    if b.in_block_spends > 0 {
                        tot.add("rich_in_block_create_and_spend", b.in_block_spends);
                        nontrivial = true;
                    }
                    op_coq = format!("OAppend {}", cq_block(&mut it, b));
                    op_json = json!({"append": b.json()});
                    rolled_back = None;
                }
                None => {
                    let res = guard(|| rt.block_on(r.ix.verif_rollback()).map_err(|e| format!("{e:?}")));
                    if let Err(e) = res {
                        tot.violation(Violation { what: "rich indexer: rollback failed or panicked".into(), detail: json!({"case": ctx, "step": step_no, "error": e}), signature: None });
                        dead = true;
                        break;
                    }
                    rolled_back = indexed.pop();
                    tot.bump("rich_op_rollback");
                    nontrivial = true;
                    op_coq = "ORollback".to_string();
                    op_json = json!("rollback");
                }
            }
            // ---- queries ----
            let st = replay(&indexed);
            let tipw = indexed.last().map(|b| (b.num, b.id));
            let cx = Ctx { rt, r: &r, w: &w, st: &st, tip: tipw, case: &ctx, step: step_no };
            let mut qa_coq: Vec<String> = Vec::new();
            let mut qa_json: Vec<Value> = Vec::new();
            // tip
            tot.evaluations += 1;
            tot.bump("rich_q_tip");
            let tip_now = get_tip(rt, &r, &w).ok().flatten().map(|(n, i, _)| (n, i));
            if tip_now != tipw {
                tot.violation(Violation { what: "rich indexer: get_indexer_tip differs from the tip of the indexed main chain".into(), detail: json!({"case": ctx, "step": step_no, "answer": tip_now, "expected": tipw}), signature: None });
                dead = true;
            }
            qa_coq.push(format!("(RQTip, RATip {})", coq_option(&tip_now, |(a, b)| format!("({}, {})", n(*a), n(*b)))));
            // the fixed battery: every key, every method, against the filter
            let mut now: Vec<Option<KeyAnswers>> = Vec::new();
            for (ki, q) in fixed.iter().enumerate() {
                let cells = check_cells(&cx, q, None, tot);
                let capacity = check_capacity(&cx, q, tot);
                let rows = check_txs(&cx, q, tot);
                let groups = check_groups(&cx, q, tot);
                let ka = match (cells, capacity, rows, groups) {
                    (Some(cells), Some(capacity), Some(rows), Some(groups)) => Some(KeyAnswers { cells, capacity, rows, groups }),
                    _ => None,
                };
                // a share of the battery goes to the model: type-script keys after every rollback, a rotating share otherwise
                let share = if thorough { 17 } else { 7 };
                let to_model = (rolled_back.is_some() && !q.lock && q.mode == 2 && w.types.contains(&q.script)) || (ki + step_no) % share == 0;
                if let (true, Some(ka)) = (to_model, &ka) {
                    let rq = cq_rquery(&mut it, q, q.limit);
                    qa_coq.push(format!("(RQCells {}, RACells {})", rq, cq_cells(&mut it, &ka.cells)));
                    qa_coq.push(format!("(RQCap {}, RACap {})", rq, coq_option(&ka.capacity, |(c, bn, id)| format!("({}, {}, {})", n(*c), n(*bn), n(*id)))));
                    qa_coq.push(format!("(RQTxs {}, RATxs {})", rq, cq_rows(&ka.rows)));
                }
                now.push(ka);
            }
            // rollback restores every answer given before the block was appended
            if rolled_back.is_some() {
                if let Some((tip_before, before)) = before_stack.pop() {
                    if tip_before != tip_now && before.iter().any(|b| b.is_some()) {
                        tot.violation(Violation { what: "rich indexer: after append + rollback the tip is not what it was before the append".into(), detail: json!({"case": ctx, "step": step_no, "before": tip_before, "after": tip_now}), signature: None });
                    }
                    for (ki, (b, a)) in before.iter().zip(now.iter()).enumerate() {
                        if let (Some(b), Some(a)) = (b, a) {
                            tot.bump("rich_rollback_restores_compared");
                            if b != a {
                                let q = &fixed[ki];
                                let what = if b.cells != a.cells {
                                    ("get_cells", cells_json(&b.cells), cells_json(&a.cells))
                                } else if b.capacity != a.capacity {
                                    ("get_cells_capacity", json!(b.capacity), json!(a.capacity))
                                } else if b.rows != a.rows {
                                    ("get_transactions", groups_json(&b.rows), groups_json(&a.rows))
                                } else {
                                    ("get_transactions_grouped", groups_json(&b.groups), groups_json(&a.groups))
                                };
                                viol(tot, &cx, "rolling back the last appended block does not restore the answer given before it was appended", q, what.0,
                                     json!({"after_rollback": what.2, "rolled_back_block": rolled_back.as_ref().map(|b| b.json())}), json!({"before_append": what.1}), None);
                            }
                        }
                    }
                }
            }
            cur_battery = (tip_now, now);
            have_battery = true;
            // generated keys: filters, orders, limits, with_data
            for _ in 0..q_per_step {
                let q = gen_key(&mut rng, &w, &st);
                let wd = *rng.pick(&[None, None, Some(true), Some(false)]);
                let mut qj = json!({"search_key": q.json()});
                match rng.below(10) {
                    0..=3 => {
                        if let Some(cells) = check_cells(&cx, &q, wd, tot) {
                            if wd != Some(false) {
                                // the first page and the whole walk
                                let rq1 = cq_rquery(&mut it, &q, q.limit);
                                let first: Vec<CellRes> = cells.iter().take(q.limit as usize).cloned().collect();
                                qa_coq.push(format!("(RQCells {}, RACells {})", rq1, cq_cells(&mut it, &first)));
                                if cells.len() > q.limit as usize {
                                    let rq = cq_rquery(&mut it, &q, 4000);
                                    qa_coq.push(format!("(RQCells {}, RACells {})", rq, cq_cells(&mut it, &cells)));
                                }
                            }
                            qj["get_cells"] = cells_json(&cells);
                        }
                    }
                    4 | 5 => {
                        if let Some(c) = check_capacity(&cx, &q, tot) {
                            let rq = cq_rquery(&mut it, &q, q.limit);
                            qa_coq.push(format!("(RQCap {}, RACap {})", rq, coq_option(&c, |(c, bn, id)| format!("({}, {}, {})", n(*c), n(*bn), n(*id)))));
                            qj["get_cells_capacity"] = json!(c);
                        }
                    }
                    6 | 7 => {
                        if let Some(g) = check_txs(&cx, &q, tot) {
                            let rq = cq_rquery(&mut it, &q, q.limit);
                            qa_coq.push(format!("(RQTxs {}, RATxs {})", rq, cq_rows(&g)));
                            qj["get_transactions"] = groups_json(&g);
                        }
                    }
                    _ => {
                        if let Some(g) = check_groups(&cx, &q, tot) {
                            let rq = cq_rquery(&mut it, &q, q.limit);
                            qa_coq.push(format!("(RQTxs {}, RATxs {})", rq, cq_rows(&g)));
                            qj["get_transactions_grouped"] = groups_json(&g);
                        }
                    }
                }
                qa_json.push(qj);
            }
            // unsupported requests are refused
            if rng.chance(1, 4) {
                let mut q = gen_key(&mut rng, &w, &st);
                q.limit = 0;
                tot.evaluations += 1;
                tot.bump("rich_q_refused");
                let a = get_cells(rt, &r, &w, &q, None, None);
                let b = get_txs(rt, &r, &w, &q, None);
                if a.is_ok() || b.is_ok() || a == Err("PANIC".into()) || b == Err("PANIC".into()) {
                    viol(tot, &cx, "limit 0 was not refused with an error", &q, "get_cells/get_transactions", json!([a.is_ok(), b.is_ok()]), json!("error"), None);
                }
            }
            steps_coq.push(format!("({}, {})", op_coq, coq_list(&qa_coq, |s| s.clone())));
            steps_json.push(json!({"op": op_json, "queries": qa_json}));
            if verbose {
                println!("rich step {step_no}: {op_json} -> tip {tip_now:?}, {} model queries", qa_coq.len());
            }
            if dead {
                break;
            }
        }
    }
    drop(r);
    let mut lets = String::new();
    for (i, raw) in it.raws.iter().enumerate() {
        lets.push_str(&format!("let s{i} := {} in ", coq_bytes(raw)));
    }
    let coq_case = format!("({}{})", lets, coq_list(&steps_coq, |s| s.clone()));
    let mut desc = ctx.clone();
    desc["steps"] = json!(steps_json);
    HistOut { coq_case, desc, nontrivial }
}
