//! The property side, written from the property text: the harness's own replay
//! of the indexed main chain (live-cell set + transaction rows) and the direct
//! filters every query is compared with.  Also the query / answer types and
//! the query generator.
use crate::world::*;
use hx_common::Rng;
use serde_json::{json, Value};

#[derive(Clone, Debug)]
pub struct LiveCell {
    pub tx: u64,
    pub idx: u32,
    pub bn: u64,
    pub txi: u32,
    pub out: AOut,
}
#[derive(Clone, Debug)]
pub struct TxRow {
    pub lock: bool,
    pub script: AScript,
    pub bn: u64,
    pub txi: u32,
    pub ioi: u32,
    pub out: bool,
    pub tx: u64,
    /// the cell the row is about (the rich indexer's get_transactions filters on it)
    pub cell: AOut,
}
pub struct ChainState {
    pub live: Vec<LiveCell>,
    pub rows: Vec<TxRow>,
}

/// replay of a main chain: inputs of non-cellbase transactions leave the live
/// set, outputs join it; one row per (script, cell touched) for the history
pub fn replay(chain: &[ABlock]) -> ChainState {
    let mut live: Vec<LiveCell> = Vec::new();
    let mut rows: Vec<TxRow> = Vec::new();
    for b in chain {
        for (txi, t) in b.txs.iter().enumerate() {
            let txi = txi as u32;
            if txi > 0 {
                for (ii, (itx, iidx)) in t.inputs.iter().enumerate() {
                    if let Some(p) = live.iter().position(|c| c.tx == *itx && c.idx == *iidx) {
                        let c = live.remove(p);
                        rows.push(TxRow { lock: true, script: c.out.lock.clone(), bn: b.num, txi, ioi: ii as u32, out: false, tx: t.id, cell: c.out.clone() });
                        if let Some(ts) = &c.out.typ {
                            rows.push(TxRow { lock: false, script: ts.clone(), bn: b.num, txi, ioi: ii as u32, out: false, tx: t.id, cell: c.out.clone() });
                        }
                    }
                }
            }
            for (oi, o) in t.outputs.iter().enumerate() {
                live.push(LiveCell { tx: t.id, idx: oi as u32, bn: b.num, txi, out: o.clone() });
                rows.push(TxRow { lock: true, script: o.lock.clone(), bn: b.num, txi, ioi: oi as u32, out: true, tx: t.id, cell: o.clone() });
                if let Some(ts) = &o.typ {
                    rows.push(TxRow { lock: false, script: ts.clone(), bn: b.num, txi, ioi: oi as u32, out: true, tx: t.id, cell: o.clone() });
                }
            }
        }
    }
    ChainState { live, rows }
}

// ---- queries ---------------------------------------------------------------
#[derive(Clone, Debug, Default)]
pub struct Filt {
    pub script: Option<AScript>,
    pub slen: Option<(u64, u64)>,
    pub data: Option<(Vec<u8>, u8)>, // mode: 0 default(prefix), 1 prefix, 2 exact, 3 partial
    pub dlen: Option<(u64, u64)>,
    pub cap: Option<(u64, u64)>,
    pub block: Option<(u64, u64)>,
}
impl Filt {
    pub fn unsupported_for_tx(&self) -> bool {
        self.slen.is_some() || self.data.is_some() || self.dlen.is_some() || self.cap.is_some()
    }
}
#[derive(Clone, Debug)]
pub struct SQ {
    pub lock: bool,
    pub script: AScript,
    pub mode: u8, // 0 default(prefix), 1 prefix, 2 exact, 3 partial (unsupported)
    pub desc: bool,
    pub limit: u32,
    pub after: Option<Vec<u8>>,
    pub f: Filt,
}
#[derive(Clone, Debug)]
pub enum Q {
    Tip,
    Live(bool, AScript),
    Txs(bool, AScript),
    Cells(SQ),
    Cap(SQ),
    Trans(SQ),
    Grouped(SQ),
}
#[derive(Clone, Debug, PartialEq)]
pub struct CellRes {
    pub tx: u64,
    pub idx: u32,
    pub bn: u64,
    pub txi: u32,
    pub cap: u64,
    pub out_bytes: Vec<u8>,
    pub data: Option<Vec<u8>>,
}
#[derive(Clone, Debug, PartialEq)]
pub struct TxRes {
    pub tx: u64,
    pub bn: u64,
    pub txi: u32,
    pub ioi: u32,
    pub out: bool,
}
#[derive(Clone, Debug, PartialEq)]
pub struct Group {
    pub tx: u64,
    pub bn: u64,
    pub txi: u32,
    pub cells: Vec<(bool, u32)>,
}
#[derive(Clone, Debug, PartialEq)]
pub enum A {
    Tip(Option<(u64, u64)>),
    Live(Vec<(u64, u32)>),
    Txs(Vec<u64>),
    Cells(Vec<CellRes>, Vec<u8>),
    Cap(Option<(u64, u64, u64)>),
    Trans(Vec<TxRes>, Vec<u8>),
    Grouped(Vec<Group>, Vec<u8>),
    Err(String),
    Panic,
}
impl A {
    pub fn nonempty(&self) -> bool {
        match self {
            A::Tip(t) => t.is_some(),
            A::Live(v) => !v.is_empty(),
            A::Txs(v) => !v.is_empty(),
            A::Cells(v, _) => !v.is_empty(),
            A::Cap(c) => c.map(|c| c.0 > 0).unwrap_or(false),
            A::Trans(v, _) => !v.is_empty(),
            A::Grouped(v, _) => !v.is_empty(),
            _ => false,
        }
    }
    pub fn json(&self) -> Value {
        match self {
            A::Tip(t) => json!({"tip": t}),
            A::Live(v) => json!({"out_points": v}),
            A::Txs(v) => json!({"txs": v}),
            A::Cells(v, c) => json!({"cells": v.iter().map(|c| json!([c.tx, c.idx, c.bn, c.txi, c.cap])).collect::<Vec<_>>(), "cursor": hx_common::hex(c)}),
            A::Cap(c) => json!({"capacity_tip": c}),
            A::Trans(v, c) => json!({"txs": v.iter().map(|t| json!([t.tx, t.bn, t.txi, t.ioi, t.out])).collect::<Vec<_>>(), "cursor": hx_common::hex(c)}),
            A::Grouped(v, c) => json!({"groups": v.iter().map(|g| json!([g.tx, g.bn, g.txi, g.cells])).collect::<Vec<_>>(), "cursor": hx_common::hex(c)}),
            A::Err(e) => json!({"error": e}),
            A::Panic => json!("panic"),
        }
    }
}
impl SQ {
    pub fn json(&self) -> Value {
        let mode = ["default", "prefix", "exact", "partial"][self.mode as usize];
        json!({"script_type": if self.lock {"lock"} else {"type"}, "script": self.script.json(),
               "mode": mode, "order": if self.desc {"desc"} else {"asc"},
               "limit": self.limit, "after": self.after.as_ref().map(|c| hx_common::hex(c)),
               "filter": {"script": self.f.script.as_ref().map(|s| s.json()), "script_len_range": self.f.slen,
                          "output_data": self.f.data.as_ref().map(|(d, m)| json!([hx_common::hex(d), m])),
                          "output_data_len_range": self.f.dlen, "output_capacity_range": self.f.cap, "block_range": self.f.block}})
    }
}
impl Q {
    pub fn kind(&self) -> &'static str {
        match self {
            Q::Tip => "tip",
            Q::Live(..) => "live_cells_by_script",
            Q::Txs(..) => "transactions_by_script",
            Q::Cells(_) => "get_cells",
            Q::Cap(_) => "get_cells_capacity",
            Q::Trans(_) => "get_transactions",
            Q::Grouped(_) => "get_transactions_grouped",
        }
    }
    pub fn json(&self) -> Value {
        match self {
            Q::Tip => json!("tip"),
            Q::Live(l, s) => json!({"live_cells_by_script": {"lock": l, "script": s.json()}}),
            Q::Txs(l, s) => json!({"transactions_by_script": {"lock": l, "script": s.json()}}),
            Q::Cells(q) => json!({"get_cells": q.json()}),
            Q::Cap(q) => json!({"get_cells_capacity": q.json()}),
            Q::Trans(q) => json!({"get_transactions": q.json()}),
            Q::Grouped(q) => json!({"get_transactions_grouped": q.json()}),
        }
    }
    /// the same query continued from the cursor of a full page
    pub fn next_page(&self, a: &A) -> Option<Q> {
        let (sq, n, cur) = match (self, a) {
            (Q::Cells(sq), A::Cells(v, c)) => (sq, v.len(), c),
            (Q::Trans(sq), A::Trans(v, c)) => (sq, v.len(), c),
            (Q::Grouped(sq), A::Grouped(v, c)) => (sq, v.len(), c),
            _ => return None,
        };
        if n == 0 || n < sq.limit as usize || cur.is_empty() || sq.limit > 5 {
            return None;
        }
        let mut s2 = sq.clone();
        s2.after = Some(cur.clone());
        Some(match self {
            Q::Cells(_) => Q::Cells(s2),
            Q::Trans(_) => Q::Trans(s2),
            _ => Q::Grouped(s2),
        })
    }
}

// ---- keys --------------------------------------------------------------------
pub fn cell_key(tag: u8, s: &AScript, bn: u64, txi: u32, oi: u32) -> Vec<u8> {
    let mut k = vec![tag];
    k.extend_from_slice(&s.raw());
    k.extend_from_slice(&bn.to_be_bytes());
    k.extend_from_slice(&txi.to_be_bytes());
    k.extend_from_slice(&oi.to_be_bytes());
    k
}
pub fn tx_key(tag: u8, s: &AScript, bn: u64, txi: u32, ioi: u32, out: bool) -> Vec<u8> {
    let mut k = cell_key(tag, s, bn, txi, ioi);
    k.push(if out { 1 } else { 0 });
    k
}

/// does a row of script `s` answer a search for `q`?  `quirk` = the reading in
/// which the search bytes are matched against the key bytes (script followed
/// by block number …) instead of against the script
fn script_hit(q: &AScript, exact: bool, s: &AScript, key_body: &[u8], quirk: bool) -> bool {
    if exact {
        s == q
    } else if quirk {
        key_body.starts_with(&q.raw())
    } else {
        s.raw().starts_with(&q.raw())
    }
}
fn in_range(r: &Option<(u64, u64)>, x: u64, incl: bool) -> bool {
    match r {
        None => true,
        Some((a, b)) => x >= *a && (if incl { x <= *b } else { x < *b }),
    }
}
pub fn contains(h: &[u8], n: &[u8]) -> bool {
    n.is_empty() || h.windows(n.len()).any(|w| w == n)
}
pub fn cell_pass(q: &SQ, c: &LiveCell, slen_incl: bool) -> bool {
    let other = if q.lock { c.out.typ.clone() } else { Some(c.out.lock.clone()) };
    if let Some(fs) = &q.f.script {
        match &other {
            Some(s) => {
                if !s.raw().starts_with(&fs.raw()) {
                    return false;
                }
            }
            None => return false,
        }
    }
    let l = other.map(|s| s.raw().len() as u64).unwrap_or(0);
    if !in_range(&q.f.slen, l, slen_incl) {
        return false;
    }
    if let Some((d, m)) = &q.f.data {
        let ok = match m {
            0 | 1 => c.out.data.starts_with(d),
            2 => c.out.data == *d,
            _ => contains(&c.out.data, d),
        };
        if !ok {
            return false;
        }
    }
    in_range(&q.f.dlen, c.out.data.len() as u64, false) && in_range(&q.f.cap, c.out.cap, false) && in_range(&q.f.block, c.bn, false)
}
fn after_cursor<T>(mut v: Vec<(Vec<u8>, T)>, q: &SQ) -> Vec<(Vec<u8>, T)> {
    v.sort_by(|a, b| a.0.cmp(&b.0));
    if q.desc {
        v.reverse();
    }
    if let Some(c) = &q.after {
        v.retain(|(k, _)| if q.desc { k < c } else { k > c });
    }
    v
}

/// get_cells: the live cells whose lock/type script matches, that pass the
/// filter, in key order (script bytes, block number, tx index, output index),
/// continued after the cursor, at most `limit`
pub fn spec_cells(st: &ChainState, q: &SQ, quirk: bool, slen_incl: bool) -> Vec<(Vec<u8>, LiveCell)> {
    let tag = if q.lock { 64 } else { 96 };
    let mut v = Vec::new();
    for c in &st.live {
        let s = if q.lock { Some(&c.out.lock) } else { c.out.typ.as_ref() };
        if let Some(s) = s {
            let k = cell_key(tag, s, c.bn, c.txi, c.idx);
            if script_hit(&q.script, q.mode == 2, s, &k[1..], quirk) && cell_pass(q, c, slen_incl) {
                v.push((k, c.clone()));
            }
        }
    }
    let mut v = after_cursor(v, q);
    v.truncate(q.limit as usize);
    v
}
pub fn spec_live(st: &ChainState, lock: bool, s: &AScript, quirk: bool) -> Vec<(u64, u32)> {
    let q = SQ { lock, script: s.clone(), mode: 0, desc: false, limit: u32::MAX, after: None, f: Filt::default() };
    spec_cells(st, &q, quirk, false).iter().map(|(_, c)| (c.tx, c.idx)).collect()
}

fn trow_pass(st: &ChainState, q: &SQ, r: &TxRow) -> bool {
    if let Some(fs) = &q.f.script {
        // the other script of the same cell is exactly the filter script
        if !st.rows.iter().any(|o| o.lock != r.lock && o.bn == r.bn && o.txi == r.txi && o.ioi == r.ioi && o.out == r.out && o.script == *fs) {
            return false;
        }
    }
    in_range(&q.f.block, r.bn, false)
}
/// every row of the searched script after the cursor, with the filter verdict
fn trows_matching(st: &ChainState, q: &SQ, quirk: bool) -> Vec<(Vec<u8>, (TxRow, bool))> {
    let tag = if q.lock { 128 } else { 160 };
    let mut v = Vec::new();
    for r in st.rows.iter().filter(|r| r.lock == q.lock) {
        let k = tx_key(tag, &r.script, r.bn, r.txi, r.ioi, r.out);
        if script_hit(&q.script, q.mode == 2, &r.script, &k[1..], quirk) {
            v.push((k, (r.clone(), trow_pass(st, q, r))));
        }
    }
    after_cursor(v, q)
}
pub fn spec_trans_all(st: &ChainState, q: &SQ, quirk: bool) -> Vec<(Vec<u8>, TxRow)> {
    trows_matching(st, q, quirk).into_iter().filter(|(_, (_, p))| *p).map(|(k, (r, _))| (k, r)).collect()
}
pub fn spec_trans(st: &ChainState, q: &SQ, quirk: bool) -> Vec<(Vec<u8>, TxRow)> {
    let mut v = spec_trans_all(st, q, quirk);
    v.truncate(q.limit as usize);
    v
}
pub fn spec_txs(st: &ChainState, lock: bool, s: &AScript, quirk: bool) -> Vec<u64> {
    let q = SQ { lock, script: s.clone(), mode: 0, desc: false, limit: u32::MAX, after: None, f: Filt::default() };
    spec_trans_all(st, &q, quirk).iter().map(|(_, r)| r.tx).collect()
}
/// between the `n`-th passing row and the next passing row there is a
/// filtered-out row of another transaction
pub fn spec_run_interrupted(st: &ChainState, q: &SQ, quirk: bool, n: usize) -> bool {
    let all = trows_matching(st, q, quirk);
    let mut seen = 0usize;
    let mut last_tx = None;
    for (_, (r, pass)) in all.iter() {
        if seen < n {
            if *pass {
                seen += 1;
                last_tx = Some(r.tx);
            }
            continue;
        }
        if *pass {
            return false;
        }
        if Some(r.tx) != last_tx {
            return true;
        }
    }
    false
}

// ---- query generation ----------------------------------------------------------
fn pick_script(rng: &mut Rng, w: &World, st: &ChainState, lock: bool) -> AScript {
    let uni = if lock { &w.locks } else { &w.types };
    let of_cell = |c: &LiveCell| if lock { Some(c.out.lock.clone()) } else { c.out.typ.clone() };
    let k = rng.below(100);
    if k < 50 || st.live.is_empty() {
        rng.pick(uni).clone()
    } else if k < 68 {
        let c = rng.pick(&st.live);
        of_cell(c).unwrap_or_else(|| rng.pick(uni).clone())
    } else if k < 80 {
        let mut s = rng.pick(uni).clone();
        let n = rng.below(s.args.len() as u64 + 1) as usize;
        s.args.truncate(n);
        s
    } else if k < 94 {
        // the search bytes continue into the block number / tx index bytes of a live cell's key
        let c = rng.pick(&st.live);
        match of_cell(c) {
            Some(mut s) => {
                let mut tail = c.bn.to_be_bytes().to_vec();
                tail.extend_from_slice(&c.txi.to_be_bytes());
                let n = rng.range(1, 10) as usize;
                s.args.extend_from_slice(&tail[..n]);
                s
            }
            None => rng.pick(uni).clone(),
        }
    } else {
        AScript { code: 0xdd, ht: 1, args: vec![1] }
    }
}
fn around(rng: &mut Rng, v: u64) -> (u64, u64) {
    match rng.below(7) {
        0 => (v, v + 1),
        1 => (0, v),
        2 => (v + 1, v + 5),
        3 => (v.saturating_sub(1), v),
        4 => (0, v + 1),
        5 => (v, v),
        _ => (v.saturating_sub(2), v + 2),
    }
}
fn gen_filter(rng: &mut Rng, w: &World, st: &ChainState, lock: bool, for_tx: bool) -> Filt {
    let mut f = Filt::default();
    if st.live.is_empty() || rng.chance(2, 5) {
        return f;
    }
    let t = rng.pick(&st.live).clone();
    let other = if lock { t.out.typ.clone() } else { Some(t.out.lock.clone()) };
    if rng.chance(1, 3) {
        let uni = if lock { &w.types } else { &w.locks };
        let mut s = match (&other, rng.chance(2, 3)) {
            (Some(s), true) => s.clone(),
            _ => rng.pick(uni).clone(),
        };
        if !for_tx && rng.chance(1, 3) {
            let n = rng.below(s.args.len() as u64 + 1) as usize;
            s.args.truncate(n);
        }
        f.script = Some(s);
    }
    if rng.chance(1, 3) {
        f.block = Some(around(rng, t.bn));
    }
    if for_tx {
        return f;
    }
    if rng.chance(1, 3) {
        let l = other.as_ref().map(|s| s.raw().len() as u64).unwrap_or(0);
        f.slen = Some(around(rng, l));
    }
    if rng.chance(1, 4) {
        let d = &t.out.data;
        let mode = rng.below(4) as u8;
        let bytes = match rng.below(4) {
            0 => d.clone(),
            1 => d[..rng.below(d.len() as u64 + 1) as usize].to_vec(),
            2 => {
                let a = rng.below(d.len() as u64 + 1) as usize;
                let b = rng.range(a as u64, d.len() as u64) as usize;
                d[a..b].to_vec()
            }
            _ => vec![rng.below(3) as u8],
        };
        f.data = Some((bytes, mode));
    }
    if rng.chance(1, 4) {
        f.dlen = Some(around(rng, t.out.data.len() as u64));
    }
    if rng.chance(1, 3) {
        f.cap = Some(around(rng, t.out.cap));
    }
    f
}
fn gen_sq(rng: &mut Rng, w: &World, st: &ChainState, for_tx: bool) -> SQ {
    let lock = rng.chance(3, 5);
    SQ {
        lock,
        script: pick_script(rng, w, st, lock),
        mode: *rng.pick(&[0u8, 0, 1, 2, 2, 2]),
        desc: rng.chance(1, 2),
        limit: *rng.pick(&[1u32, 2, 2, 3, 5, 1000]),
        after: None,
        f: gen_filter(rng, w, st, lock, for_tx),
    }
}
pub fn gen_queries(rng: &mut Rng, w: &World, st: &ChainState, _indexed: &[ABlock], n: usize) -> Vec<Q> {
    let mut qs = vec![Q::Tip];
    while qs.len() < n {
        let q = match rng.below(20) {
            0 | 1 => {
                let lock = rng.chance(3, 5);
                Q::Live(lock, pick_script(rng, w, st, lock))
            }
            2 | 3 => {
                let lock = rng.chance(3, 5);
                Q::Txs(lock, pick_script(rng, w, st, lock))
            }
            4..=9 => Q::Cells(gen_sq(rng, w, st, false)),
            10..=12 => Q::Cap(gen_sq(rng, w, st, false)),
            13..=15 => Q::Trans(gen_sq(rng, w, st, true)),
            16 | 17 => Q::Grouped(gen_sq(rng, w, st, true)),
            18 => {
                // unsupported requests must be refused
                let mut s = gen_sq(rng, w, st, false);
                match rng.below(3) {
                    0 => s.mode = 3,
                    1 => s.limit = 0,
                    _ => s.mode = 3,
                }
                if rng.chance(1, 2) { Q::Cells(s) } else { Q::Cap(s) }
            }
            _ => {
                let mut s = gen_sq(rng, w, st, false);
                if s.f.unsupported_for_tx() || rng.chance(1, 2) {
                    if !s.f.unsupported_for_tx() {
                        s.limit = 0;
                    }
                    Q::Trans(s)
                } else {
                    s.mode = 3;
                    Q::Grouped(s)
                }
            }
        };
        qs.push(q);
    }
    qs
}
