//! C18 correspondence harness: drives the real `ckb-indexer` (Indexer over a
//! RocksdbStore in a scratch directory, through the verif-hooks wrapper
//! `service::VerifIndexer`, and the RPC query layer `IndexerHandle`) on
//! generated chain histories with reorganisations, exactly as IndexerSync
//! drives it (roll back until the tip is on the main chain, then append).
//! After every indexer operation a generated set of queries is put to the
//! implementation; (i) the property predicate — answers == a direct filter over
//! the harness's own replay of the indexed main chain, and the live rows after
//! append+rollback == the live rows before — is evaluated in Rust, (ii) the
//! same operations, queries and observed answers are written as Coq cases for
//! the model (coq/Indexer/Query.v) to recompute.
//! A second stream (rich.rs) does the same for the SQL-backed rich indexer
//! (util/rich-indexer) on in-memory SQLite, against coq/Indexer/Rich.v.
mod rich;
mod spec;
mod world;

use ckb_indexer::service::VerifIndexer;
use ckb_jsonrpc_types::{
    IndexerCellType, IndexerOrder, IndexerRange, IndexerScriptType, IndexerSearchKey,
    IndexerSearchKeyFilter, IndexerSearchMode, IndexerTx, JsonBytes,
};
use ckb_types::{packed, prelude::*, H256};
use hx_common::*;
use serde_json::{json, Value};
use spec::*;
use std::collections::BTreeMap;
use std::fs;
use std::panic::{catch_unwind, AssertUnwindSafe};
use world::*;

pub struct Violation {
    pub what: String,
    pub detail: Value,
    pub signature: Option<String>,
}

pub const SIG_PREFIX_QUIRK: &str = "indexer-prefix-search-runs-into-block-number-bytes";
pub const SIG_CAP_SLEN: &str = "get-cells-capacity-script-len-range-upper-bound-inclusive";

// ---------------------------------------------------------------------------
// putting a query to the implementation
fn search_key(q: &SQ, grouped: bool) -> IndexerSearchKey {
    let f = &q.f;
    let any = f.script.is_some() || f.slen.is_some() || f.data.is_some() || f.dlen.is_some() || f.cap.is_some() || f.block.is_some();
    let filter = if any {
        Some(IndexerSearchKeyFilter {
            script: f.script.as_ref().map(|s| s.packed().into()),
            script_len_range: f.slen.map(|(a, b)| IndexerRange::new(a, b)),
            output_data: f.data.as_ref().map(|(d, _)| JsonBytes::from_vec(d.clone())),
            output_data_filter_mode: f.data.as_ref().and_then(|(_, m)| match m {
                0 => None,
                1 => Some(IndexerSearchMode::Prefix),
                2 => Some(IndexerSearchMode::Exact),
                _ => Some(IndexerSearchMode::Partial),
            }),
            output_data_len_range: f.dlen.map(|(a, b)| IndexerRange::new(a, b)),
            output_capacity_range: f.cap.map(|(a, b)| IndexerRange::new(a, b)),
            block_range: f.block.map(|(a, b)| IndexerRange::new(a, b)),
        })
    } else {
        None
    };
    IndexerSearchKey {
        script: q.script.packed().into(),
        script_type: if q.lock { IndexerScriptType::Lock } else { IndexerScriptType::Type },
        script_search_mode: match q.mode {
            0 => None,
            1 => Some(IndexerSearchMode::Prefix),
            2 => Some(IndexerSearchMode::Exact),
            _ => Some(IndexerSearchMode::Partial),
        },
        filter,
        with_data: None,
        group_by_transaction: if grouped { Some(true) } else { None },
    }
}
fn order(q: &SQ) -> IndexerOrder {
    if q.desc { IndexerOrder::Desc } else { IndexerOrder::Asc }
}

fn ask(ix: &VerifIndexer, w: &World, q: &Q) -> A {
    let r = catch_unwind(AssertUnwindSafe(|| -> A {
        match q {
            Q::Tip => match ix.tip() {
                Ok(t) => A::Tip(t.map(|(n, h)| (n, w.block_id(&h)))),
                Err(e) => A::Err(format!("{e:?}")),
            },
            Q::Live(lock, s) => match ix.live_cells_by_script(&s.packed(), *lock) {
                Ok(v) => A::Live(v.iter().map(|op| (w.tx_id(&op.tx_hash()), Into::<u32>::into(op.index()))).collect()),
                Err(e) => A::Err(format!("{e:?}")),
            },
            Q::Txs(lock, s) => match ix.transactions_by_script(&s.packed(), *lock) {
                Ok(v) => A::Txs(v.iter().map(|h| w.tx_id(h)).collect()),
                Err(e) => A::Err(format!("{e:?}")),
            },
            Q::Cells(sq) => {
                let h = ix.handle(1_000_000);
                match h.get_cells(search_key(sq, false), order(sq), sq.limit.into(), sq.after.clone().map(JsonBytes::from_vec)) {
                    Ok(p) => A::Cells(
                        p.objects
                            .iter()
                            .map(|c| {
                                let out: packed::CellOutput = c.output.clone().into();
                                let txh: packed::Byte32 = c.out_point.tx_hash.clone().into();
                                CellRes {
                                    tx: w.tx_id(&txh),
                                    idx: c.out_point.index.value(),
                                    bn: c.block_number.value(),
                                    txi: c.tx_index.value(),
                                    cap: Into::<ckb_types::core::Capacity>::into(out.capacity()).as_u64(),
                                    out_bytes: out.as_slice().to_vec(),
                                    data: c.output_data.as_ref().map(|d| d.as_bytes().to_vec()),
                                }
                            })
                            .collect(),
                        p.last_cursor.as_bytes().to_vec(),
                    ),
                    Err(e) => A::Err(format!("{e:?}")),
                }
            }
            Q::Cap(sq) => {
                let h = ix.handle(1_000_000);
                match h.get_cells_capacity(search_key(sq, false)) {
                    Ok(c) => A::Cap(c.map(|c| {
                        let bh: packed::Byte32 = c.block_hash.clone().into();
                        (c.capacity.value(), c.block_number.value(), w.block_id(&bh))
                    })),
                    Err(e) => A::Err(format!("{e:?}")),
                }
            }
            Q::Trans(sq) | Q::Grouped(sq) => {
                let grouped = matches!(q, Q::Grouped(_));
                let h = ix.handle(1_000_000);
                match h.get_transactions(search_key(sq, grouped), order(sq), sq.limit.into(), sq.after.clone().map(JsonBytes::from_vec)) {
                    Ok(p) => {
                        let cur = p.last_cursor.as_bytes().to_vec();
                        let tid = |h: &H256| -> u64 {
                            let b: packed::Byte32 = h.clone().into();
                            w.tx_id(&b)
                        };
                        let is_out = |t: &IndexerCellType| matches!(t, IndexerCellType::Output);
                        if grouped {
                            A::Grouped(
                                p.objects
                                    .iter()
                                    .filter_map(|t| match t {
                                        IndexerTx::Grouped(g) => Some(Group {
                                            tx: tid(&g.tx_hash),
                                            bn: g.block_number.value(),
                                            txi: g.tx_index.value(),
                                            cells: g.cells.iter().map(|(t, i)| (is_out(t), i.value())).collect(),
                                        }),
                                        _ => None,
                                    })
                                    .collect(),
                                cur,
                            )
                        } else {
                            A::Trans(
                                p.objects
                                    .iter()
                                    .filter_map(|t| match t {
                                        IndexerTx::Ungrouped(u) => Some(TxRes {
                                            tx: tid(&u.tx_hash),
                                            bn: u.block_number.value(),
                                            txi: u.tx_index.value(),
                                            ioi: u.io_index.value(),
                                            out: is_out(&u.io_type),
                                        }),
                                        _ => None,
                                    })
                                    .collect(),
                                cur,
                            )
                        }
                    }
                    Err(e) => A::Err(format!("{e:?}")),
                }
            }
        }
    }));
    match r {
        Ok(a) => a,
        Err(_) => A::Panic,
    }
}

// ---------------------------------------------------------------------------
// Coq rendering
struct Interner {
    raws: Vec<Vec<u8>>,
    idx: BTreeMap<Vec<u8>, usize>,
}
impl Interner {
    fn new() -> Self {
        Interner { raws: vec![], idx: BTreeMap::new() }
    }
    fn name(&mut self, raw: &[u8]) -> String {
        if let Some(i) = self.idx.get(raw) {
            return format!("s{i}");
        }
        let i = self.raws.len();
        self.raws.push(raw.to_vec());
        self.idx.insert(raw.to_vec(), i);
        format!("s{i}")
    }
}
fn cq_opt_range(r: &Option<(u64, u64)>) -> String {
    coq_option(r, |(a, b)| format!("({}, {})", coq_n(*a as u128), coq_n(*b as u128)))
}
fn cq_cursor(it: &mut Interner, c: &[u8], tail: usize) -> String {
    // key bytes without the KeyPrefix byte: script ++ numbers
    if c.len() < 1 + tail {
        return coq_bytes(if c.is_empty() { c } else { &c[1..] });
    }
    let body = &c[1..];
    let (s, nums) = body.split_at(body.len() - tail);
    format!("({} ++ {})", it.name(s), coq_bytes(nums))
}
fn cq_sq(it: &mut Interner, q: &SQ, tail: usize) -> String {
    let f = &q.f;
    let fs = match &f.script {
        Some(s) => format!("(Some {})", it.name(&s.raw())),
        None => "None".into(),
    };
    let fd = coq_option(&f.data, |(d, m)| {
        format!("({}, {})", coq_bytes(d), match m { 0 | 1 => "DPrefix", 2 => "DExact", _ => "DPartial" })
    });
    let after = match &q.after {
        Some(c) => format!("(Some {})", cq_cursor(it, c, tail)),
        None => "None".into(),
    };
    format!(
        "(mkSQ {} {} {} {} {} {} (mkF {} {} {} {} {} {}))",
        coq_bool(q.lock),
        it.name(&q.script.raw()),
        coq_bool(q.mode == 2),
        coq_bool(q.desc),
        coq_nat(q.limit as u64),
        after,
        fs,
        cq_opt_range(&f.slen),
        fd,
        cq_opt_range(&f.dlen),
        cq_opt_range(&f.cap),
        cq_opt_range(&f.block)
    )
}
fn n(x: u64) -> String {
    coq_n(x as u128)
}
/// (query, answer) as a Coq pair; None when the pair is not representable in the model
fn cq_qa(it: &mut Interner, q: &Q, a: &A) -> Option<String> {
    let s = match (q, a) {
        (Q::Tip, A::Tip(t)) => format!("(QTip, ATip {})", coq_option(t, |(a, b)| format!("({}, {})", n(*a), n(*b)))),
        (Q::Live(l, s), A::Live(v)) => format!(
            "(QLive {} {}, ALive {})",
            coq_bool(*l),
            it.name(&s.raw()),
            coq_list(v, |(t, i)| format!("({}, {})", n(*t), n(*i as u64)))
        ),
        (Q::Txs(l, s), A::Txs(v)) => format!("(QTxs {} {}, ATxs {})", coq_bool(*l), it.name(&s.raw()), coq_list(v, |t| n(*t))),
        (Q::Cells(sq), A::Cells(v, cur)) => format!(
            "(QCells {}, ACells (Some ({}, {})))",
            cq_sq(it, sq, 16),
            coq_list(v, |c| format!("({}, {}, {}, {}, {})", n(c.tx), n(c.idx as u64), n(c.bn), n(c.txi as u64), n(c.cap))),
            cq_cursor(it, cur, 16)
        ),
        (Q::Cells(sq), A::Panic) => format!("(QCells {}, ACells None)", cq_sq(it, sq, 16)),
        (Q::Cap(sq), A::Cap(c)) => format!(
            "(QCap {}, ACap (Some {}))",
            cq_sq(it, sq, 16),
            coq_option(c, |(c, bn, id)| format!("({}, {}, {})", n(*c), n(*bn), n(*id)))
        ),
        (Q::Cap(sq), A::Panic) => format!("(QCap {}, ACap None)", cq_sq(it, sq, 16)),
        (Q::Trans(sq), A::Trans(v, cur)) => format!(
            "(QTrans {}, ATrans ({}, {}))",
            cq_sq(it, sq, 17),
            coq_list(v, |t| format!("({}, {}, {}, {}, {})", n(t.tx), n(t.bn), n(t.txi as u64), n(t.ioi as u64), coq_bool(t.out))),
            cq_cursor(it, cur, 17)
        ),
        (Q::Grouped(sq), A::Grouped(v, cur)) => format!(
            "(QGrouped {}, AGrouped ({}, {}))",
            cq_sq(it, sq, 17),
            coq_list(v, |g| format!(
                "({}, {}, {}, {})",
                n(g.tx),
                n(g.bn),
                n(g.txi as u64),
                coq_list(&g.cells, |(o, i)| format!("({}, {})", coq_bool(*o), n(*i as u64)))
            )),
            cq_cursor(it, cur, 17)
        ),
        _ => return None,
    };
    Some(s)
}
fn cq_block(it: &mut Interner, b: &ABlock) -> String {
    let mut txs = Vec::new();
    for t in &b.txs {
        let mut outs = Vec::new();
        for o in &t.outputs {
            let ty = match &o.typ {
                Some(s) => format!("(Some {})", it.name(&s.raw())),
                None => "None".into(),
            };
            outs.push(format!("(mkOut {} {} {} {})", it.name(&o.lock.raw()), ty, n(o.cap), coq_bytes(&o.data)));
        }
        txs.push(format!(
            "(mkTx {} {} {})",
            n(t.id),
            coq_list(&t.inputs, |(h, i)| format!("({}, {})", n(*h), n(*i as u64))),
            coq_list(&outs, |s| s.clone())
        ));
    }
    format!("(mkBlock {} {} {})", n(b.num), n(b.id), coq_list(&txs, |s| s.clone()))
}

// ---------------------------------------------------------------------------
#[derive(Default)]
struct Totals {
    evaluations: u64,
    stats: BTreeMap<String, u64>,
    viol: Vec<Violation>,
    known_counts: BTreeMap<String, u64>,
}
impl Totals {
    fn bump(&mut self, k: &str) {
        *self.stats.entry(k.to_string()).or_default() += 1;
    }
    fn add(&mut self, k: &str, v: u64) {
        *self.stats.entry(k.to_string()).or_default() += v;
    }
    fn violation(&mut self, v: Violation) {
        if let Some(s) = &v.signature {
            let c = self.known_counts.entry(s.clone()).or_default();
            *c += 1;
            if *c > 3 {
                return;
            }
        }
        if self.viol.len() < 60 {
            self.viol.push(v);
        }
    }
}

struct HistOut {
    coq_case: String,
    desc: Value,
    nontrivial: bool,
}

fn live_dump(ix: &VerifIndexer) -> Vec<(Vec<u8>, Vec<u8>)> {
    ix.dump()
        .into_iter()
        .filter(|(k, _)| matches!(k.first(), Some(0) | Some(64) | Some(96) | Some(128) | Some(160)))
        .collect()
}

/// one history: generate, run on the implementation, check, render
fn run_history(hseed: u64, thorough: bool, scratch: &std::path::Path, tot: &mut Totals, verbose: bool) -> HistOut {
    let mut rng = Rng::new(hseed);
    let keep = *rng.pick(&[2u64, 3, 3, 5, 10]);
    let interval = *rng.pick(&[1u64, 2, 2, 3, 1000]);
    let ctx = json!({"history_seed": hseed, "keep_num": keep, "prune_interval": interval});
    let dir = scratch.join(format!("h{hseed:x}"));
    let _ = fs::remove_dir_all(&dir);
    fs::create_dir_all(&dir).unwrap();
    let ix = VerifIndexer::open(&dir, keep, interval);
    let mut w = World::new(&mut rng);
    let mut it = Interner::new();
    let mut steps_coq: Vec<String> = Vec::new();
    let mut steps_json: Vec<Value> = Vec::new();
    let max_ops = if thorough { 60 } else { 30 };
    let q_per_step = if thorough { 12 } else { 9 };

    // the chain the indexer has indexed, and the node's main chain
    let mut indexed: Vec<ABlock> = Vec::new();
    let mut main: Vec<ABlock> = Vec::new();
    let mut before_stack: Vec<Vec<(Vec<u8>, Vec<u8>)>> = Vec::new(); // live rows before each append
    let mut floor: u64 = 0; // ghost: lowest block whose rollback data prune has not touched
    let mut nops = 0usize;
    let mut nontrivial = false;
    let mut dead = false;

    while nops < max_ops && !dead {
        // ---- the node's main chain moves ----
        if main.is_empty() {
            let g = w.gen_block(&mut rng, &[], true);
            main.push(g);
        } else if rng.chance(2, 5) && indexed.len() >= 2 {
            // reorganisation: d blocks leave the main chain, d+1.. new ones join
            let tipn = (indexed.len() - 1) as u64;
            let maxd = std::cmp::min((tipn.saturating_sub(floor)) as usize, indexed.len() - 1);
            if maxd >= 1 {
                let d = rng.range(1, std::cmp::min(maxd, 4) as u64) as usize;
                let keep_len = main.len() - d;
                let orphans: Vec<ABlock> = main.split_off(keep_len);
                w.orphan(&orphans);
                let newlen = d + 1 + rng.below(2) as usize;
                for _ in 0..newlen {
                    let b = w.gen_block(&mut rng, &main, false);
                    main.push(b);
                }
                tot.bump(&format!("reorg_depth_{d}"));
            } else {
                let b = w.gen_block(&mut rng, &main, false);
                main.push(b);
            }
        } else {
            for _ in 0..rng.range(1, 3) {
                let b = w.gen_block(&mut rng, &main, false);
                main.push(b);
            }
        }
        // ---- IndexerSync::try_loop_sync ----
        loop {
            if nops >= max_ops + 12 {
                break;
            }
            let tip = match catch_unwind(AssertUnwindSafe(|| ix.tip())) {
                Ok(Ok(t)) => t,
                _ => {
                    tot.violation(Violation { what: "tip() failed or panicked".into(), detail: json!({"case": ctx, "step": nops}), signature: None });
                    dead = true;
                    break;
                }
            };
            let op: Option<&ABlock>; // Some = append, None = rollback
            match &tip {
                Some((tn, th)) => match main.get(*tn as usize + 1) {
                    Some(b) => {
                        if b.view.parent_hash() == *th {
                            op = Some(b);
                        } else {
                            op = None;
                        }
                    }
                    None => break,
                },
                None => {
                    if !indexed.is_empty() {
                        tot.violation(Violation { what: "tip() is None although blocks are indexed".into(), detail: json!({"case": ctx, "step": nops}), signature: None });
                        dead = true;
                        break;
                    }
                    op = Some(&main[0]);
                }
            }
            let step_no = nops;
            nops += 1;
            let op_coq;
            let op_json;
            match op {
                Some(b) => {
                    before_stack.push(live_dump(&ix));
                    let r = catch_unwind(AssertUnwindSafe(|| ix.append(&b.view)));
                    if !matches!(r, Ok(Ok(()))) {
                        tot.violation(Violation { what: "append failed or panicked on a consistent block".into(), detail: json!({"case": ctx, "step": step_no, "block": b.json()}), signature: None });
                        dead = true;
                        break;
                    }
                    if b.num % interval == 0 && b.num > keep + 1 {
                        floor = std::cmp::max(floor, b.num - keep);
                        tot.bump("prune_fired");
                    }
                    indexed.push(b.clone());
                    tot.bump("op_append");
                    if b.in_block_spends > 0 {
                        tot.add("in_block_create_and_spend", b.in_block_spends);
                        nontrivial = true;
                    }
                    op_coq = format!("OAppend {}", cq_block(&mut it, b));
                    op_json = json!({"append": b.json()});
                }
                None => {
                    let r = catch_unwind(AssertUnwindSafe(|| ix.rollback()));
                    if !matches!(r, Ok(Ok(()))) {
                        tot.violation(Violation { what: "rollback failed or panicked".into(), detail: json!({"case": ctx, "step": step_no}), signature: None });
                        dead = true;
                        break;
                    }
                    let gone = indexed.pop();
                    tot.bump("op_rollback");
                    nontrivial = true;
                    // rollback inverts append: every live row is what it was before the block was appended
                    if let Some(before) = before_stack.pop() {
                        let now = live_dump(&ix);
                        if now != before {
                            let diff = dump_diff(&before, &now);
                            tot.violation(Violation {
                                what: "after append+rollback the live rows (OutPoint / CellLockScript / CellTypeScript / TxLockScript / TxTypeScript) differ from what they were before the append".into(),
                                detail: json!({"case": ctx, "step": step_no, "rolled_back_block": gone.as_ref().map(|b| b.json()), "difference": diff}),
                                signature: None,
                            });
                        }
                    }
                    op_coq = "ORollback".to_string();
                    op_json = json!("rollback");
                }
            }
            // ---- queries ----
            let st = replay(&indexed);
            let mut qs = gen_queries(&mut rng, &w, &st, &indexed, q_per_step);
            let mut qa_coq: Vec<String> = Vec::new();
            let mut qa_json: Vec<Value> = Vec::new();
            let mut qi = 0;
            while qi < qs.len() {
                let q = qs[qi].clone();
                qi += 1;
                let a = ask(&ix, &w, &q);
                tot.evaluations += 1;
                tot.bump(&format!("q_{}", q.kind()));
                if a.nonempty() {
                    tot.bump("answers_nonempty");
                }
                check_answer(&st, &indexed, &q, &a, &ctx, step_no, tot);
                if let (Q::Tip, A::Tip(t)) = (&q, &a) {
                    // a wrong tip makes the sync loop feed the indexer nonsense: stop this history
                    if *t != indexed.last().map(|b| (b.num, b.id)) {
                        dead = true;
                    }
                }
                // paging: follow the cursor of a short page
                if let Some(next) = q.next_page(&a) {
                    if qs.len() < q_per_step + 6 {
                        qs.push(next);
                        tot.bump("cursor_followups");
                    }
                }
                if let Some(s) = cq_qa(&mut it, &q, &a) {
                    qa_coq.push(s);
                    qa_json.push(json!({"query": q.json(), "answer": a.json()}));
                }
            }
            steps_coq.push(format!("({}, {})", op_coq, coq_list(&qa_coq, |s| s.clone())));
            steps_json.push(json!({"op": op_json, "queries": qa_json}));
            if verbose {
                println!("step {step_no}: {op_json} -> {} queries", qs.len());
            }
            if dead {
                break;
            }
        }
    }
    drop(ix);
    let _ = fs::remove_dir_all(&dir);
    let mut lets = String::new();
    for (i, r) in it.raws.iter().enumerate() {
        lets.push_str(&format!("let s{i} := {} in ", coq_bytes(r)));
    }
    let coq_case = format!("({}mkHist {} {} {})", lets, n(keep), n(interval), coq_list(&steps_coq, |s| s.clone()));
    let mut desc = ctx.clone();
    desc["steps"] = json!(steps_json);
    HistOut { coq_case, desc, nontrivial }
}

fn dump_diff(a: &[(Vec<u8>, Vec<u8>)], b: &[(Vec<u8>, Vec<u8>)]) -> Value {
    let ma: BTreeMap<_, _> = a.iter().cloned().collect();
    let mb: BTreeMap<_, _> = b.iter().cloned().collect();
    let mut missing = vec![];
    let mut extra = vec![];
    let mut changed = vec![];
    for (k, v) in &ma {
        match mb.get(k) {
            None => missing.push(hex(k)),
            Some(v2) if v2 != v => changed.push(hex(k)),
            _ => {}
        }
    }
    for k in mb.keys() {
        if !ma.contains_key(k) {
            extra.push(hex(k));
        }
    }
    missing.truncate(5);
    extra.truncate(5);
    changed.truncate(5);
    json!({"rows_missing_after_rollback": missing, "rows_left_over_after_rollback": extra, "rows_with_changed_value": changed})
}

fn main() {
    std::panic::set_hook(Box::new(|_| {}));
    let out = out_dir("C18");
    if let Ok(p) = std::env::var("HX_REPLAY") {
        let v: Value = serde_json::from_str(&fs::read_to_string(&p).unwrap()).unwrap();
        let case = if let Some(vs) = v.get("violations") { vs[0]["detail"]["case"].clone() } else { v["cases"][0]["case"].clone() };
        let hseed = case["history_seed"].as_u64().expect("history_seed in the replay file");
        let scratch = scratch_dir("C18");
        let mut tot = Totals::default();
        if case["stream"].as_str() == Some("rich") {
            let rt = rich::runtime();
            let _ = rich::run_rich_history(&rt, hseed, tier_is_thorough(), &mut tot, true);
        } else {
            let _ = run_history(hseed, tier_is_thorough(), &scratch, &mut tot, true);
        }
        let _ = fs::remove_dir_all(&scratch);
        let mut bad = 0;
        for x in &tot.viol {
            println!("PROPERTY VIOLATED{}: {} :: {}", x.signature.as_ref().map(|s| format!(" [known {s}]")).unwrap_or_default(), x.what, x.detail);
            bad += 1;
        }
        println!("replayed history {hseed}: {} queries, {} violations", tot.evaluations, tot.viol.len());
        std::process::exit(if bad == 0 { 0 } else { 1 });
    }
    let seed = seed();
    let thorough = tier_is_thorough();
    for e in fs::read_dir(&out).unwrap().flatten() {
        let nm = e.file_name().to_string_lossy().to_string();
        if nm.starts_with("cases_") || nm == "summary.json" {
            let _ = fs::remove_file(e.path());
        }
    }
    let scratch = scratch_dir("C18");
    let mut rng = Rng::new(seed);
    let mut tot = Totals::default();
    let shards = 16usize;
    let n_hist = if thorough { 78 } else { 30 };
    let header = "From CKB Require Import Indexer.Query.";
    let mut files: Vec<CaseFile> = (0..shards)
        .map(|i| {
            let mut cf = CaseFile::new(&out, &format!("cases_{:02}", i), header);
            cf.group("hist", "hist_case", "check_hist");
            cf
        })
        .collect();
    let mut descs: Vec<BTreeMap<String, Vec<Value>>> = (0..shards).map(|_| BTreeMap::new()).collect();
    let mut samples: Vec<Value> = Vec::new();
    let mut distinct = 0u64;
    // corpus: fixed history seeds that always run first
    let mut hseeds: Vec<u64> = vec![1, 2];
    for _ in 0..n_hist {
        hseeds.push(rng.next());
    }
    for (hi, hs) in hseeds.iter().enumerate() {
        let h = run_history(*hs, thorough, &scratch, &mut tot, false);
        if h.nontrivial {
            distinct += 1;
        }
        let sh = hi % shards;
        files[sh].push(0, h.coq_case);
        let mut small = h.desc.clone();
        if samples.len() < 2 {
            // a sample: the first steps only
            if let Some(st) = small["steps"].as_array() {
                let cut: Vec<Value> = st.iter().take(2).cloned().collect();
                small["steps"] = json!(cut);
            }
            samples.push(small);
        }
        // the replay only needs the seed; keep the description small
        let d = json!({"history_seed": h.desc["history_seed"], "keep_num": h.desc["keep_num"], "prune_interval": h.desc["prune_interval"],
                       "steps": h.desc["steps"].as_array().map(|a| a.len())});
        descs[sh].entry("hist".into()).or_default().push(d);
    }
    for (i, cf) in files.iter().enumerate() {
        cf.write().unwrap();
        fs::write(out.join(format!("cases_{:02}.json", i)), serde_json::to_string(&descs[i]).unwrap()).unwrap();
    }
    let _ = fs::remove_dir_all(&scratch);
    // ---- second stream: the rich indexer (SQLite in memory), see rich.rs ----
    let n_rich = if thorough { 40 } else { 14 };
    let rshards = if thorough { 16usize } else { 8usize };
    let mut rfiles: Vec<CaseFile> = (0..rshards)
        .map(|i| {
            let mut cf = CaseFile::new(&out, &format!("cases_r{:02}", i), "From CKB Require Import Indexer.Rich.");
            cf.group("rich", "rich_hist_case", "check_rich_hist");
            cf
        })
        .collect();
    let mut rdescs: Vec<BTreeMap<String, Vec<Value>>> = (0..rshards).map(|_| BTreeMap::new()).collect();
    let mut rseeds: Vec<u64> = vec![1, 2];
    for _ in 0..n_rich {
        rseeds.push(rng.next());
    }
    let rt = rich::runtime();
    let mut rich_hist = 0u64;
    for (hi, hs) in rseeds.iter().enumerate() {
        let h = rich::run_rich_history(&rt, *hs, thorough, &mut tot, false);
        if h.nontrivial {
            distinct += 1;
        }
        rich_hist += 1;
        let sh = hi % rshards;
        rfiles[sh].push(0, h.coq_case);
        if samples.len() < 3 {
            let mut small = h.desc.clone();
            if let Some(st) = small["steps"].as_array() {
                let cut: Vec<Value> = st.iter().take(1).cloned().collect();
                small["steps"] = json!(cut);
            }
            samples.push(small);
        }
        let d = json!({"history_seed": h.desc["history_seed"], "stream": "rich", "steps": h.desc["steps"].as_array().map(|a| a.len())});
        rdescs[sh].entry("rich".into()).or_default().push(d);
    }
    drop(rt);
    for (i, cf) in rfiles.iter().enumerate() {
        cf.write().unwrap();
        fs::write(out.join(format!("cases_r{:02}.json", i)), serde_json::to_string(&rdescs[i]).unwrap()).unwrap();
    }
    tot.stats.insert("rich_histories".into(), rich_hist);
    for (k, v) in &tot.known_counts {
        tot.stats.insert(format!("known_finding_hits::{k}"), *v);
    }
    let summary = json!({
        "property": "C18",
        "seed": seed,
        "evaluations": tot.evaluations,
        "distinct_nontrivial": distinct,
        "rule": "evaluations = queries put to the real indexers after an append/rollback of a generated history (IndexerSync loop over a main chain with reorganisations); stream 1: ckb-indexer (RocksDB), one request per query; stream 2 (distribution keys rich_*): rich indexer (SQLite in memory), one evaluation = one search key put to one method with its pages walked to the end, compared with the direct filter over the replayed chain under the rich indexer's documented semantics (chain order, opaque cursor, partial mode, capacity null when nothing is selected, every cell filter on get_transactions, filter.script a prefix), and after every rollback the whole fixed battery compared with its answers before the append; distinct = histories with at least one rollback or one cell created and spent in the same block",
        "distribution": tot.stats,
        "samples": samples,
        "impl_violations": tot.viol.iter().map(|v| {
            let mut o = json!({"what": v.what, "detail": v.detail});
            if let Some(s) = &v.signature { o["signature"] = json!(s); }
            o
        }).collect::<Vec<_>>(),
    });
    fs::write(out.join("summary.json"), serde_json::to_string_pretty(&summary).unwrap()).unwrap();
    println!("hx-indexer: {} + {} histories, {} queries, {} implementation-side violations", hseeds.len(), rseeds.len(), tot.evaluations, tot.viol.len());
}

// ---------------------------------------------------------------------------
// the property predicate on one answer
fn check_answer(st: &ChainState, indexed: &[ABlock], q: &Q, a: &A, ctx: &Value, step: usize, tot: &mut Totals) {
    let mut fail = |what: String, expected: Value, sig: Option<&str>| {
        tot.violation(Violation {
            what,
            detail: json!({"case": ctx, "step": step, "query": q.json(), "answer": a.json(), "expected": expected}),
            signature: sig.map(|s| s.to_string()),
        });
    };
    if let A::Panic = a {
        fail("the query panicked".into(), json!(null), None);
        return;
    }
    match q {
        Q::Tip => {
            let want = indexed.last().map(|b| (b.num, b.id));
            if *a != A::Tip(want) {
                fail("tip differs from the tip of the indexed main chain".into(), json!(want), None);
            }
        }
        Q::Live(lock, s) => {
            let want = spec_live(st, *lock, s, false);
            if *a != A::Live(want.clone()) {
                let quirk = spec_live(st, *lock, s, true);
                if *a == A::Live(quirk) {
                    fail("live cells by script: cells of a shorter script are returned (prefix runs into the block-number bytes of the key)".into(), json!(want), Some(SIG_PREFIX_QUIRK));
                } else {
                    fail("live cells by script differ from the filter over the chain's live cells".into(), json!(want), None);
                }
            }
        }
        Q::Txs(lock, s) => {
            let want = spec_txs(st, *lock, s, false);
            if *a != A::Txs(want.clone()) {
                let quirk = spec_txs(st, *lock, s, true);
                if *a == A::Txs(quirk) {
                    fail("transactions by script: rows of a shorter script are returned".into(), json!(want), Some(SIG_PREFIX_QUIRK));
                } else {
                    fail("transactions by script differ from the filter over the chain's transactions".into(), json!(want), None);
                }
            }
        }
        Q::Cells(sq) => {
            if sq.mode == 3 || sq.limit == 0 {
                if !matches!(a, A::Err(_)) {
                    fail("get_cells accepted an unsupported request (partial script search / limit 0)".into(), json!("error"), None);
                }
                return;
            }
            let got = match a {
                A::Cells(v, c) => (v, c),
                _ => {
                    fail("get_cells failed".into(), json!(null), None);
                    return;
                }
            };
            let want = spec_cells(st, sq, false, false);
            let same = |w: &Vec<(Vec<u8>, LiveCell)>| {
                got.0.len() == w.len()
                    && got.0.iter().zip(w.iter()).all(|(g, (_, c))| {
                        g.tx == c.tx && g.idx == c.idx && g.bn == c.bn && g.txi == c.txi && g.cap == c.out.cap
                            && g.out_bytes == c.out.packed().as_slice().to_vec()
                            && g.data.as_deref() == Some(&c.out.data[..])
                    })
                    && *got.1 == w.last().map(|(k, _)| k.clone()).unwrap_or_default()
            };
            if !same(&want) {
                let quirk = spec_cells(st, sq, true, false);
                let wj = json!(want.iter().map(|(_, c)| json!([c.tx, c.idx, c.bn, c.txi, c.out.cap])).collect::<Vec<_>>());
                if same(&quirk) {
                    fail("get_cells (prefix mode): cells of a shorter script are returned".into(), wj, Some(SIG_PREFIX_QUIRK));
                } else {
                    fail("get_cells differs from the filter over the chain's live cells (objects in key order, cursor = key of the last object)".into(), wj, None);
                }
            }
        }
        Q::Cap(sq) => {
            if sq.mode == 3 {
                if !matches!(a, A::Err(_)) {
                    fail("get_cells_capacity accepted partial script search".into(), json!("error"), None);
                }
                return;
            }
            let got = match a {
                A::Cap(c) => c,
                _ => {
                    fail("get_cells_capacity failed".into(), json!(null), None);
                    return;
                }
            };
            let tip = indexed.last().map(|b| (b.num, b.id));
            let total = |quirk: bool, incl: bool| -> Option<(u64, u64, u64)> {
                let mut one = sq.clone();
                one.desc = false;
                one.limit = u32::MAX;
                one.after = None;
                let s: u64 = spec_cells(st, &one, quirk, incl).iter().map(|(_, c)| c.out.cap).sum();
                tip.map(|(n, i)| (s, n, i))
            };
            let want = total(false, false);
            if *got != want {
                if *got == total(true, false) {
                    fail("get_cells_capacity (prefix mode): cells of a shorter script are counted".into(), json!(want), Some(SIG_PREFIX_QUIRK));
                } else if *got == total(false, true) || *got == total(true, true) {
                    fail("get_cells_capacity: script_len_range upper bound is treated as inclusive (get_cells and the RPC documentation: exclusive)".into(), json!(want), Some(SIG_CAP_SLEN));
                } else {
                    fail("get_cells_capacity differs from the sum over the filtered live cells / the tip".into(), json!(want), None);
                }
            }
        }
        Q::Trans(sq) => {
            if sq.mode == 3 || sq.limit == 0 || sq.f.unsupported_for_tx() {
                if !matches!(a, A::Err(_)) {
                    fail("get_transactions accepted an unsupported request".into(), json!("error"), None);
                }
                return;
            }
            let got = match a {
                A::Trans(v, c) => (v, c),
                _ => {
                    fail("get_transactions failed".into(), json!(null), None);
                    return;
                }
            };
            let want = spec_trans(st, sq, false);
            let same = |w: &Vec<(Vec<u8>, TxRow)>| {
                got.0.len() == w.len()
                    && got.0.iter().zip(w.iter()).all(|(g, (_, r))| g.tx == r.tx && g.bn == r.bn && g.txi == r.txi && g.ioi == r.ioi && g.out == r.out)
                    && *got.1 == w.last().map(|(k, _)| k.clone()).unwrap_or_default()
            };
            if !same(&want) {
                let wj = json!(want.iter().map(|(_, r)| json!([r.tx, r.bn, r.txi, r.ioi, r.out])).collect::<Vec<_>>());
                if same(&spec_trans(st, sq, true)) {
                    fail("get_transactions (prefix mode): rows of a shorter script are returned".into(), wj, Some(SIG_PREFIX_QUIRK));
                } else {
                    fail("get_transactions differs from the filter over the chain's transaction history".into(), wj, None);
                }
            }
        }
        Q::Grouped(sq) => {
            if sq.mode == 3 || sq.limit == 0 || sq.f.unsupported_for_tx() {
                if !matches!(a, A::Err(_)) {
                    fail("get_transactions (grouped) accepted an unsupported request".into(), json!("error"), None);
                }
                return;
            }
            let got = match a {
                A::Grouped(v, _) => v,
                _ => {
                    fail("get_transactions (grouped) failed".into(), json!(null), None);
                    return;
                }
            };
            // the rows behind the page, flattened, must be the next rows of the filtered history
            // and cover whole transactions; at most `limit` groups
            let check = |quirk: bool| -> bool {
                let rows = spec_trans_all(st, sq, quirk);
                let flat: Vec<(u64, u64, u32, u32, bool)> = got.iter().flat_map(|g| g.cells.iter().map(move |(o, i)| (g.tx, g.bn, g.txi, *i, *o))).collect();
                if got.len() > sq.limit as usize {
                    return false;
                }
                if flat.len() > rows.len() {
                    return false;
                }
                for (f, (_, r)) in flat.iter().zip(rows.iter()) {
                    if *f != (r.tx, r.bn, r.txi, r.ioi, r.out) {
                        return false;
                    }
                }
                // groups are maximal runs of one transaction
                for w2 in got.windows(2) {
                    if w2[0].tx == w2[1].tx {
                        return false;
                    }
                }
                if got.iter().any(|g| g.cells.is_empty()) {
                    return false;
                }
                // complete: either everything was returned, or the page is full and the next row starts another transaction
                if flat.len() < rows.len() {
                    let next = &rows[flat.len()].1;
                    if got.len() < sq.limit as usize {
                        return false;
                    }
                    if let Some(last) = got.last() {
                        // the run may only be cut where a filtered-out row of another transaction interrupts it
                        if last.tx == next.tx && !spec_run_interrupted(st, sq, quirk, flat.len()) {
                            return false;
                        }
                    }
                }
                true
            };
            if !check(false) {
                if check(true) {
                    fail("get_transactions grouped (prefix mode): rows of a shorter script are returned".into(), json!(null), Some(SIG_PREFIX_QUIRK));
                } else {
                    fail("get_transactions (grouped) is not the grouping of the filtered transaction rows".into(), json!(spec_trans_all(st, sq, false).iter().map(|(_, r)| json!([r.tx, r.bn, r.txi, r.ioi, r.out])).collect::<Vec<_>>()), None);
                }
            }
        }
    }
}
