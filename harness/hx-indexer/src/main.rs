use ckb_indexer::service::VerifIndexer;
fn main() {
    let d = hx_common::scratch_dir("C18");
    let ix = VerifIndexer::open(d.join("a"), 5, 2);
    println!("{:?}", ix.tip().unwrap().is_none());
    let _ = std::fs::remove_dir_all(&d);
}
