//! Generated chains: scripts that share argument prefixes, transactions with
//! in-block chains, blocks, branches.  Everything is kept twice: as the real
//! ckb-types views handed to the indexer and as small abstract records (ids in
//! order of creation) used by the harness's own replay and printed for Coq.
use crate::spec::replay;
use ckb_types::{
    bytes::Bytes,
    core::{BlockBuilder, BlockView, HeaderBuilder, ScriptHashType, TransactionBuilder, TransactionView},
    packed::{self, Byte32, CellDep, CellInput, CellOutput, OutPoint, Script},
    prelude::*,
};
use hx_common::Rng;
use serde_json::{json, Value};
use std::collections::HashMap;

#[derive(Clone, PartialEq, Eq, Debug, PartialOrd, Ord)]
pub struct AScript {
    pub code: u8,
    pub ht: u8, // 0 data, 1 type, 2 data1, 4 data2
    pub args: Vec<u8>,
}
impl AScript {
    /// extract_raw_data: code_hash ++ hash_type ++ args
    pub fn raw(&self) -> Vec<u8> {
        let mut v = vec![self.code; 32];
        v.push(self.ht);
        v.extend_from_slice(&self.args);
        v
    }
    pub fn packed(&self) -> Script {
        let ht = match self.ht {
            0 => ScriptHashType::Data,
            1 => ScriptHashType::Type,
            2 => ScriptHashType::Data1,
            _ => ScriptHashType::Data2,
        };
        Script::new_builder()
            .code_hash(Byte32::from_slice(&[self.code; 32]).unwrap())
            .hash_type(ht)
            .args(Bytes::from(self.args.clone()))
            .build()
    }
    pub fn json(&self) -> Value {
        json!(format!("{:02x}/{}/{}", self.code, self.ht, hx_common::hex(&self.args)))
    }
}

#[derive(Clone, PartialEq, Eq, Debug)]
pub struct AOut {
    pub lock: AScript,
    pub typ: Option<AScript>,
    pub cap: u64,
    pub data: Vec<u8>,
}
impl AOut {
    pub fn packed(&self) -> CellOutput {
        CellOutput::new_builder()
            .capacity(self.cap)
            .lock(self.lock.packed())
            .type_(self.typ.as_ref().map(|t| t.packed()))
            .build()
    }
}

#[derive(Clone)]
pub struct ATx {
    pub id: u64,
    pub inputs: Vec<(u64, u32)>, // (tx id, index); the cellbase input is (0, u32::MAX)
    pub outputs: Vec<AOut>,
    pub view: TransactionView,
}
#[derive(Clone)]
pub struct ABlock {
    pub num: u64,
    pub id: u64,
    pub txs: Vec<ATx>,
    pub view: BlockView,
    pub in_block_spends: u64,
}
impl ABlock {
    pub fn json(&self) -> Value {
        json!({"number": self.num, "id": self.id, "txs": self.txs.iter().map(|t| json!({
            "id": t.id,
            "inputs": t.inputs,
            "outputs": t.outputs.iter().map(|o| json!({"lock": o.lock.json(), "type": o.typ.as_ref().map(|t| t.json()), "capacity": o.cap, "data": hx_common::hex(&o.data)})).collect::<Vec<_>>()
        })).collect::<Vec<_>>()})
    }
}

pub struct World {
    pub locks: Vec<AScript>,
    pub types: Vec<AScript>,
    tx_ids: HashMap<Byte32, u64>,
    tx_hash: HashMap<u64, Byte32>,
    block_ids: HashMap<Byte32, u64>,
    next_tx: u64,
    next_block: u64,
    uniq: u64,
    orphans: Vec<ATx>,
}

pub const UNKNOWN_ID: u64 = 999_999;

impl World {
    pub fn new(rng: &mut Rng) -> World {
        let a = 0xa1;
        let b = 0xb2;
        let c = 0xc3;
        let s = |code, ht, args: &[u8]| AScript { code, ht, args: args.to_vec() };
        let mut locks = vec![
            s(a, 1, &[1, 2]),
            s(a, 1, &[1, 2, 3]),
            s(a, 1, &[1]),
            s(a, 0, &[1, 2]),
            s(b, 1, &[]),
            s(b, 1, &[0, 0]),
        ];
        // a script whose args are the big-endian bytes of a small block number:
        // in prefix mode its key prefix equals the key of a [b,1,[]] cell of that block
        let k = rng.range(1, 6);
        locks.push(s(b, 1, &k.to_be_bytes()));
        // args that continue a searched prefix with a long run of 0xff (burn-address style): in a descending prefix scan
        // their keys sort after any start key padded with fewer 0xff bytes than the args may be long
        let ff = |head: &[u8], n: usize| { let mut v = head.to_vec(); v.extend(std::iter::repeat(0xffu8).take(n)); v };
        locks.push(s(a, 1, &ff(&[1], 20)));
        locks.push(s(a, 1, &ff(&[1, 2], 17)));
        locks.push(s(a, 1, &ff(&[1, 2], 16)));
        locks.push(s(b, 1, &ff(&[], 32)));
        let mut types = vec![s(c, 1, &[9]), s(c, 1, &[9, 9]), s(a, 1, &[1, 2]), s(c, 2, &[])];
        types.push(s(c, 1, &ff(&[9], 40)));
        World {
            locks,
            types,
            tx_ids: HashMap::new(),
            tx_hash: HashMap::new(),
            block_ids: HashMap::new(),
            next_tx: 1,
            next_block: 1,
            uniq: 0,
            orphans: vec![],
        }
    }
    pub fn tx_id(&self, h: &Byte32) -> u64 {
        if h.as_slice().iter().all(|b| *b == 0) {
            return 0;
        }
        self.tx_ids.get(h).copied().unwrap_or(UNKNOWN_ID)
    }
    pub fn block_id(&self, h: &Byte32) -> u64 {
        self.block_ids.get(h).copied().unwrap_or(UNKNOWN_ID)
    }
    pub fn orphan(&mut self, blocks: &[ABlock]) {
        for b in blocks {
            for t in b.txs.iter().skip(1) {
                self.orphans.push(t.clone());
            }
        }
    }

    fn gen_out(&self, rng: &mut Rng) -> AOut {
        let lock = rng.pick(&self.locks).clone();
        let typ = if rng.chance(2, 5) { Some(rng.pick(&self.types).clone()) } else { None };
        let cap = *rng.pick(&[61u64, 100, 100, 142, 200, 1000]);
        let dl = *rng.pick(&[0u64, 0, 1, 2, 3, 4]);
        let data = (0..dl).map(|_| rng.below(3) as u8).collect();
        AOut { lock, typ, cap, data }
    }

    fn build_tx(&mut self, cellbase: Option<u64>, inputs: &[(u64, u32)], outputs: Vec<AOut>) -> ATx {
        self.uniq += 1;
        let mut uh = [0u8; 32];
        uh[0] = 0xee;
        uh[24..32].copy_from_slice(&self.uniq.to_be_bytes());
        let mut b = TransactionBuilder::default()
            .cell_dep(CellDep::new_builder().out_point(OutPoint::new(Byte32::from_slice(&uh).unwrap(), 0)).build());
        let mut ains = Vec::new();
        if let Some(n) = cellbase {
            b = b.input(CellInput::new_cellbase_input(n));
            ains.push((0u64, u32::MAX));
        }
        for (t, i) in inputs {
            let h = self.tx_hash.get(t).expect("known tx").clone();
            b = b.input(CellInput::new(OutPoint::new(h, *i), 0));
            ains.push((*t, *i));
        }
        for o in &outputs {
            b = b.output(o.packed()).output_data(Bytes::from(o.data.clone()));
        }
        let view = b.build();
        let id = self.next_tx;
        self.next_tx += 1;
        self.tx_ids.insert(view.hash(), id);
        self.tx_hash.insert(id, view.hash());
        ATx { id, inputs: ains, outputs, view }
    }

    /// the next block on top of `chain`
    pub fn gen_block(&mut self, rng: &mut Rng, chain: &[ABlock], genesis: bool) -> ABlock {
        let num = chain.len() as u64;
        let st = replay(chain);
        // spendable out points (tx id, index)
        let mut avail: Vec<(u64, u32)> = st.live.iter().map(|c| (c.tx, c.idx)).collect();
        let mut fresh: Vec<(u64, u32)> = Vec::new(); // created in this block, unspent
        let mut txs: Vec<ATx> = Vec::new();
        let mut in_block_spends = 0u64;
        // cellbase
        let ncb = if genesis { rng.range(4, 7) } else { *rng.pick(&[0u64, 0, 1, 1, 2]) };
        let outs: Vec<AOut> = (0..ncb).map(|_| self.gen_out(rng)).collect();
        let cb = self.build_tx(Some(num), &[], outs);
        for i in 0..cb.outputs.len() {
            fresh.push((cb.id, i as u32));
        }
        txs.push(cb);
        // transactions orphaned by a reorganisation come back when their inputs are live here
        let pool = std::mem::take(&mut self.orphans);
        let mut keep_pool = Vec::new();
        let chain_ids: std::collections::HashSet<u64> = chain.iter().flat_map(|b| b.txs.iter().map(|t| t.id)).collect();
        for t in pool {
            if chain_ids.contains(&t.id) || txs.iter().any(|x| x.id == t.id) {
                continue;
            }
            let all_avail = t.inputs.iter().all(|i| avail.contains(i) || fresh.contains(i));
            if all_avail && rng.chance(1, 2) && txs.len() < 6 {
                for i in &t.inputs {
                    if let Some(p) = fresh.iter().position(|x| x == i) {
                        fresh.remove(p);
                        in_block_spends += 1;
                    } else if let Some(p) = avail.iter().position(|x| x == i) {
                        avail.remove(p);
                    }
                }
                for i in 0..t.outputs.len() {
                    fresh.push((t.id, i as u32));
                }
                txs.push(t);
            } else if keep_pool.len() < 12 {
                keep_pool.push(t);
            }
        }
        self.orphans = keep_pool;
        // new transactions
        let ntx = if genesis { rng.range(1, 2) } else { *rng.pick(&[0u64, 1, 1, 2, 2, 3, 4]) };
        for _ in 0..ntx {
            let nin = *rng.pick(&[0u64, 1, 1, 1, 2, 3]);
            let mut ins = Vec::new();
            for _ in 0..nin {
                let from_fresh = !fresh.is_empty() && (avail.is_empty() || rng.chance(2, 5));
                if from_fresh {
                    let p = rng.below(fresh.len() as u64) as usize;
                    ins.push(fresh.remove(p));
                    in_block_spends += 1;
                } else if !avail.is_empty() {
                    let p = rng.below(avail.len() as u64) as usize;
                    ins.push(avail.remove(p));
                }
            }
            let nout = *rng.pick(&[0u64, 1, 1, 2, 2, 3]);
            let outs: Vec<AOut> = (0..nout).map(|_| self.gen_out(rng)).collect();
            let t = self.build_tx(None, &ins, outs);
            for i in 0..t.outputs.len() {
                fresh.push((t.id, i as u32));
            }
            txs.push(t);
        }
        let parent = chain.last().map(|b| b.view.hash()).unwrap_or_else(|| Byte32::zero());
        let header = HeaderBuilder::default().number(num).parent_hash(parent).build();
        let mut bb = BlockBuilder::default().header(header);
        for t in &txs {
            bb = bb.transaction(t.view.clone());
        }
        let view = bb.build();
        let id = self.next_block;
        self.next_block += 1;
        self.block_ids.insert(view.hash(), id);
        let _ = packed::Uint32::default();
        ABlock { num, id, txs, view, in_block_spends }
    }
}
