//! SYSTEM_CELL stream: `resolve_transaction` (and `ResolvedTransaction::check`) on the
//! same transactions before and after `setup_system_cell_cache`, on a synthetic genesis
//! with the layout that function expects.  The cache is a process-wide OnceLock, so this
//! stream runs last: first every transaction cold, then the cache is set, then warm.
use ckb_types::{
    bytes::Bytes,
    core::{
        cell::{
            resolve_transaction, setup_system_cell_cache, CellMetaBuilder, CellProvider, CellStatus, HeaderChecker,
            ResolvedTransaction,
        },
        error::OutPointError,
        BlockBuilder, BlockView, Capacity, DepType, TransactionBuilder, TransactionView,
    },
    packed::{Byte32, CellDep, CellInput, CellOutput, OutPoint, OutPointVec},
    prelude::*,
};
use hx_common::*;
use serde_json::{json, Value};
use std::collections::{BTreeMap, HashMap, HashSet};

struct Prov {
    cells: HashMap<OutPoint, (CellOutput, Bytes)>,
    dead: HashSet<OutPoint>,
}
impl CellProvider for Prov {
    fn cell(&self, op: &OutPoint, _eager: bool) -> CellStatus {
        if self.dead.contains(op) {
            return CellStatus::Dead;
        }
        match self.cells.get(op) {
            Some((o, d)) => CellStatus::live_cell(CellMetaBuilder::from_cell_output(o.clone(), d.clone()).out_point(op.clone()).build()),
            None => CellStatus::Unknown,
        }
    }
}
impl ckb_types::core::cell::CellChecker for Prov {
    fn is_live(&self, op: &OutPoint) -> Option<bool> {
        if self.dead.contains(op) { Some(false) } else if self.cells.contains_key(op) { Some(true) } else { None }
    }
}
struct AnyHeader;
impl HeaderChecker for AnyHeader {
    fn check_valid(&self, _h: &Byte32) -> Result<(), OutPointError> {
        Ok(())
    }
}

fn output() -> CellOutput {
    CellOutput::new_builder().capacity(Capacity::shannons(100_000_000_000)).build()
}
fn group_data(ops: &[OutPoint]) -> Bytes {
    OutPointVec::new_builder().set(ops.to_vec()).build().as_bytes()
}

/// numbering of out points for the Coq cases (fixed before any case is rendered: the
/// user dep groups are defined once in the case files' header)
struct Ids(HashMap<OutPoint, u64>);
impl Ids {
    fn id(&self, op: &OutPoint) -> u64 {
        *self.0.get(op).expect("every out point of the stream is numbered")
    }
}

#[derive(Clone, PartialEq, Eq, Debug)]
enum Outcome {
    Ok(Vec<OutPoint>, Vec<OutPoint>),
    Err(u8, Option<OutPoint>),
}
fn outcome(r: &Result<ResolvedTransaction, OutPointError>) -> Outcome {
    match r {
        Ok(rtx) => Outcome::Ok(rtx.resolved_cell_deps.iter().map(|m| m.out_point.clone()).collect(), rtx.resolved_dep_groups.iter().map(|m| m.out_point.clone()).collect()),
        Err(OutPointError::Dead(o)) => Outcome::Err(1, Some(o.clone())),
        Err(OutPointError::Unknown(o)) => Outcome::Err(2, Some(o.clone())),
        Err(OutPointError::InvalidDepGroup(o)) => Outcome::Err(3, Some(o.clone())),
        Err(OutPointError::OverMaxDepExpansionLimit) => Outcome::Err(4, None),
        Err(_) => Outcome::Err(9, None),
    }
}
fn outcome_coq(o: &Outcome, ids: &Ids) -> String {
    match o {
        Outcome::Ok(c, g) => format!("OOk {} {}", render_ids(c, ids), render_ids(g, ids)),
        Outcome::Err(k, o) => format!("OErr {} {}", coq_n(*k as u128), coq_n(o.as_ref().map(|o| ids.id(o)).unwrap_or(0) as u128)),
    }
}
/// a list of out-point numbers, runs of consecutive filler cells as [hx_fill_from a n]
fn render_ids(l: &[OutPoint], ids: &Ids) -> String {
    let v: Vec<u64> = l.iter().map(|x| ids.id(x)).collect();
    let mut parts: Vec<String> = vec![];
    let mut i = 0;
    while i < v.len() {
        let mut j = i;
        while j + 1 < v.len() && v[j + 1] == v[j] + 1 && v[i] >= 1000 { j += 1; }
        if j - i >= 8 { parts.push(format!("map (fun i => N.of_nat ({} + i)) (seq 0 {})", v[i], j - i + 1)); i = j + 1; }
        else { parts.push(format!("[{}]", coq_n(v[i] as u128))); i += 1; }
    }
    if parts.is_empty() { "[]".into() } else { format!("({})", parts.join(" ++ ")) }
}
fn outcome_json(o: &Outcome) -> Value {
    match o {
        Outcome::Ok(c, g) => json!({"ok": {"cell_deps": c.len(), "dep_groups": g.len()}}),
        Outcome::Err(k, o) => {
            let name = ["", "dead", "unknown", "invalid dep group", "over the dep expansion limit", "", "", "", "", "other"][*k as usize];
            json!({"err": name, "out_point": o.as_ref().map(|o| format!("{o}"))})
        }
    }
}

pub struct SysOut {
    /// Coq definitions (the user dep groups' member lists) for the case files' header
    pub header: String,
    pub viol: Vec<Value>,
    pub cases: Vec<(String, Value)>,
    pub stats: BTreeMap<String, u64>,
}

pub fn run(seed: u64, thorough: bool) -> SysOut {
    let mut rng = Rng::new(seed ^ 0x5157_CE11);
    let mut out = SysOut { header: String::new(), viol: vec![], cases: vec![], stats: BTreeMap::new() };
    // ---- a genesis with the layout setup_system_cell_cache expects -------------------
    let tx0 = TransactionBuilder::default()
        .input(CellInput::new_cellbase_input(0))
        .outputs((0..6).map(|_| output()))
        .outputs_data((0..6u8).map(|i| Bytes::from(vec![i; 3 + i as usize]).pack()))
        .build();
    let sys = |i: u32| OutPoint::new(tx0.hash(), i);
    let tx1 = TransactionBuilder::default()
        .input(CellInput::new(OutPoint::new(Byte32::zero(), 7), 0))
        .outputs((0..2).map(|_| output()))
        .outputs_data(vec![group_data(&[sys(1), sys(3)]).pack(), group_data(&[sys(4), sys(3)]).pack()])
        .build();
    let genesis: BlockView = BlockBuilder::default().transaction(tx0.clone()).transaction(tx1.clone()).build();
    let mut prov = Prov { cells: HashMap::new(), dead: HashSet::new() };
    for tx in [&tx0, &tx1] {
        for (i, (o, d)) in tx.outputs_with_data_iter().enumerate() {
            prov.cells.insert(OutPoint::new(tx.hash(), i as u32), (o, d));
        }
    }
    let sys_deps: Vec<CellDep> = vec![
        CellDep::new_builder().out_point(sys(1)).dep_type(DepType::Code).build(),
        CellDep::new_builder().out_point(sys(2)).dep_type(DepType::Code).build(),
        CellDep::new_builder().out_point(sys(3)).dep_type(DepType::Code).build(),
        CellDep::new_builder().out_point(OutPoint::new(tx1.hash(), 0)).dep_type(DepType::DepGroup).build(),
        CellDep::new_builder().out_point(OutPoint::new(tx1.hash(), 1)).dep_type(DepType::DepGroup).build(),
    ];
    // ---- other cells: plain ones, user dep groups of several sizes, a broken group, a dead cell
    let filler: Vec<OutPoint> = (0..2100u32).map(|i| OutPoint::new(Byte32::new({ let mut b = [0x11u8; 32]; b[..4].copy_from_slice(&i.to_le_bytes()); b }), 0)).collect();
    for f in &filler {
        prov.cells.insert(f.clone(), (output(), Bytes::from(vec![7u8; 2])));
    }
    let mut user_groups: Vec<(OutPoint, usize)> = vec![];
    for (gi, size) in [0usize, 1, 2, 5, 40, 300, 700, 1020, 2040, 2047, 2048].iter().enumerate() {
        let op = OutPoint::new(Byte32::new([0x22; 32]), gi as u32);
        prov.cells.insert(op.clone(), (output(), group_data(&filler[..*size])));
        user_groups.push((op, *size));
    }
    let broken_group = OutPoint::new(Byte32::new([0x33; 32]), 0);
    prov.cells.insert(broken_group.clone(), (output(), Bytes::from(vec![1u8, 2, 3])));
    let dead_cell = OutPoint::new(Byte32::new([0x44; 32]), 0);
    prov.dead.insert(dead_cell.clone());
    let unknown_cell = OutPoint::new(Byte32::new([0x55; 32]), 0);
    let input_cell = filler[2099].clone();

    // ---- transactions -------------------------------------------------------------------
    let n_tx = shard_share(if thorough { 4000 } else { 400 });
    let mut txs: Vec<(TransactionView, Value)> = vec![];
    for ti in 0..n_tx {
        let mut deps: Vec<CellDep> = vec![];
        let mut total: i64 = 0;
        // system deps (the cached ones), sometimes twice, sometimes with the other dep type
        for (si, d) in sys_deps.iter().enumerate() {
            if rng.chance(1, 2) {
                let reps = if rng.chance(1, 8) { 2 } else { 1 };
                for _ in 0..reps {
                    if rng.chance(1, 30) {
                        let flipped = CellDep::new_builder().out_point(d.out_point()).dep_type(if si < 3 { DepType::DepGroup } else { DepType::Code }).build();
                        deps.push(flipped);
                        total += 1;
                    } else {
                        deps.push(d.clone());
                        total += if si < 3 { 1 } else { 2 };
                    }
                }
            }
        }
        // aim the total expansion at the limit
        let target: i64 = match rng.below(8) { 0 => rng.range(0, 30) as i64, 1 => 2048 + rng.range(3, 60) as i64, _ => 2048 + rng.range(0, 6) as i64 - 3 };
        let mut guard = 0;
        while total < target && guard < 40 {
            guard += 1;
            let need = (target - total) as usize;
            let fits: Vec<&(OutPoint, usize)> = user_groups.iter().filter(|(_, s)| *s <= need && *s > 0).collect();
            if !fits.is_empty() && (need > 12 || rng.chance(1, 3)) {
                let g = fits[fits.len() - 1 - rng.below(std::cmp::min(2, fits.len() as u64)) as usize];
                deps.push(CellDep::new_builder().out_point(g.0.clone()).dep_type(DepType::DepGroup).build());
                total += g.1 as i64;
            } else {
                deps.push(CellDep::new_builder().out_point(filler[2050 + rng.below(40) as usize].clone()).dep_type(DepType::Code).build());
                total += 1;
            }
        }
        if rng.chance(1, 30) { deps.push(CellDep::new_builder().out_point(user_groups[0].0.clone()).dep_type(DepType::DepGroup).build()); }
        let mut flavour = "plain";
        match rng.below(14) {
            0 => { deps.push(CellDep::new_builder().out_point(broken_group.clone()).dep_type(DepType::DepGroup).build()); flavour = "broken group"; }
            1 => { deps.push(CellDep::new_builder().out_point(dead_cell.clone()).dep_type(DepType::Code).build()); flavour = "dead dep"; }
            2 => { deps.push(CellDep::new_builder().out_point(unknown_cell.clone()).dep_type(DepType::Code).build()); flavour = "unknown dep"; }
            _ => {}
        }
        // order matters for which error comes first
        for i in (1..deps.len()).rev() {
            let j = rng.below(i as u64 + 1) as usize;
            deps.swap(i, j);
        }
        let tx = TransactionBuilder::default()
            .input(CellInput::new(input_cell.clone(), 0))
            .output(output())
            .output_data(Bytes::new().pack())
            .cell_deps(deps.clone())
            .build();
        let n_sys = deps.iter().filter(|d| sys_deps.contains(d)).count();
        txs.push((tx, json!({"stream": "system-cell-cache", "index": ti, "deps": deps.len(), "cached_system_deps": n_sys, "expansion_aimed_at": total, "flavour": flavour})));
    }
    let hc = AnyHeader;
    let resolve = |tx: &TransactionView, prov: &Prov| {
        let mut seen = HashSet::new();
        let r = resolve_transaction(tx.clone(), &mut seen, prov, &hc);
        let chk = r.as_ref().ok().map(|rtx| { let mut s = HashSet::new(); format!("{:?}", rtx.check(&mut s, prov, &hc)) });
        (outcome(&r), chk)
    };
    // ---- cold, then set the cache, then warm ---------------------------------------------
    let cold: Vec<_> = txs.iter().map(|(tx, _)| resolve(tx, &prov)).collect();
    let set = setup_system_cell_cache(&genesis, &prov);
    if set.is_err() {
        out.viol.push(json!({"what": "SYSTEM_CELL was already set in this process; the system-cell stream needs a fresh process", "detail": {"stream": "system-cell-cache"}}));
        return out;
    }
    let warm: Vec<_> = txs.iter().map(|(tx, _)| resolve(tx, &prov)).collect();
    // Coq: the cache map and the provider as numbers
    let mut ids = Ids(HashMap::new());
    for i in 0..6 { ids.0.insert(sys(i), 1 + i as u64); }
    ids.0.insert(OutPoint::new(tx1.hash(), 0), 10);
    ids.0.insert(OutPoint::new(tx1.hash(), 1), 11);
    ids.0.insert(broken_group.clone(), 50);
    ids.0.insert(dead_cell.clone(), 51);
    ids.0.insert(unknown_cell.clone(), 52);
    for (gi, (op, _)) in user_groups.iter().enumerate() { ids.0.insert(op.clone(), 100 + gi as u64); }
    for (i, f) in filler.iter().enumerate() { ids.0.insert(f.clone(), 1000 + i as u64); }
    out.header = format!("Definition hx_fill (n : nat) : list N := map (fun i => N.of_nat (1000 + i)) (seq 0 n).\n");
    let cache_coq = {
        let mut e = vec![];
        for (si, d) in sys_deps.iter().enumerate() {
            let op = ids.id(&d.out_point());
            if si < 3 { e.push(format!("(mkDep {} false, CCell)", coq_n(op as u128))); }
            else {
                let subs: Vec<OutPoint> = if si == 3 { vec![sys(1), sys(3)] } else { vec![sys(4), sys(3)] };
                e.push(format!("(mkDep {} true, CGroup {})", coq_n(op as u128), coq_list(&subs, |x| coq_n(ids.id(x) as u128))));
            }
        }
        coq_list(&e, |x| x.clone())
    };
    for (i, (tx, desc)) in txs.iter().enumerate() {
        let (c, cchk) = &cold[i];
        let (w, wchk) = &warm[i];
        *out.stats.entry(format!("syscell_{}", match c { Outcome::Ok(..) => "ok", Outcome::Err(4, _) => "over_limit", Outcome::Err(..) => "other_error" })).or_default() += 1;
        if c != w || cchk != wchk {
            out.viol.push(json!({"what": format!("with the SYSTEM_CELL cache set resolve_transaction answers differently: cold {} / check {:?}, warm {} / check {:?}", outcome_json(c), cchk, outcome_json(w), wchk),
                                 "detail": desc}));
        }
        // the provider: every out point that is not listed is a live cell whose data is no out-point vector
        // (the filler cells); listed: the dep cells of this transaction that are groups, dead or unknown
        let mut seen_ops = HashSet::new();
        let mut pentries = vec![];
        for d in tx.cell_deps_iter() {
            let op = d.out_point();
            if !seen_ops.insert(op.clone()) { continue; }
            let st = if prov.dead.contains(&op) { "SDead".to_string() } else {
                match prov.cells.get(&op) {
                    None => "SUnknown".to_string(),
                    Some((_, data)) => match OutPointVec::from_slice(data) {
                        Ok(v) if !v.is_empty() => {
                            if let Some((_, size)) = user_groups.iter().find(|(g, _)| *g == op) { format!("SLive (Some (hx_fill {}))", coq_nat(*size as u64)) }
                            else { format!("SLive (Some {})", coq_list(&v.into_iter().collect::<Vec<_>>(), |x| coq_n(ids.id(&x) as u128))) }
                        }
                        _ => continue,
                    },
                }
            };
            pentries.push(format!("({}, {})", coq_n(ids.id(&op) as u128), st));
        }
        let deps_coq = coq_list(&tx.cell_deps_iter().collect::<Vec<_>>(), |d| format!("mkDep {} {}", coq_n(ids.id(&d.out_point()) as u128), coq_bool(d.dep_type() == DepType::DepGroup.into())));
        let case = format!("mkSC {} {} {} ({}) ({})", coq_list(&pentries, |x| x.clone()), cache_coq, deps_coq, outcome_coq(c, &ids), outcome_coq(w, &ids));
        let mut d = desc.clone();
        d["cold"] = outcome_json(c);
        d["warm"] = outcome_json(w);
        out.cases.push((case, d));
    }
    out
}
