//! DAO lock-size stream (RFC0044 `DaoScriptSizeVerifier`): the one check next to
//! since/maturity whose answer for the SAME (transaction, witnesses) depends on the
//! branch — it is waived when the deposit cell was committed below
//! `consensus.starting_block_limiting_dao_withdrawing_lock`.
//!
//! Every history has a trunk and two competing branches A and B.  A deposit D and a
//! phase-1 withdraw W (deposit cell -> withdrawing cell, possibly with a lock of another
//! size) are committed on both branches at heights chosen around the limiting block
//! number, so that the rule is waived / applies on A and on B in all four combinations.
//! A is delivered first (W verified and cached where it is valid), then B, which is
//! longer.  All blocks are fully valid blocks built from a node's own snapshot (reward,
//! DAO field, epoch, chain root, two-phase commit) and are processed with FULL
//! verification; scripts are executed.  The only stand-in: the cell at genesis tx0
//! output #2 — which `consensus.dao_type_hash()` designates as the Nervos DAO — holds
//! the always-success binary, so the DAO script's own deposit/withdraw arithmetic is
//! not exercised (phase 2 is never attempted).
//!
//! The same deliveries are replayed on nodes that differ only in caching (all caches
//! 0 = reference; defaults; verification cache cleared before branch B; restarted
//! before branch B).  Verdicts, tips and verification records must be equal, and
//! must be what the generator's own reading of the rule predicts.
//!
//! Pool part: after the deliveries the loose W is offered to the tx-pool
//! (`test_accept_tx`, `submit_local_tx`) of a node that kept its cache and of one whose
//! cache was cleared just before.
use crate::node::*;
use crate::run::{ext_obs, ExtObs};
use ckb_app_config::StoreConfig;
use ckb_chain_spec::consensus::{build_genesis_epoch_ext, Consensus, ConsensusBuilder, ProposalWindow};
use ckb_dao_utils::genesis_dao_data;
use ckb_store::ChainStore;
use ckb_test_chain_utils::always_success_cell;
use ckb_types::{
    bytes::Bytes,
    core::{
        cell::{CellProvider, CellStatus},
        BlockBuilder, BlockView, Capacity, EpochNumberWithFraction, ScriptHashType, TransactionBuilder, TransactionView,
    },
    packed::{Byte32, CellDep, CellInput, CellOutput, OutPoint, Script},
    prelude::*,
    utilities::difficulty_to_compact,
    U256,
};
use hx_common::*;
use serde_json::{json, Value};
use std::collections::{BTreeMap, HashMap};
use std::path::Path;

pub const SIG_POOL: &str = "C14-pool-cache-hit-skips-dao-lock-size";

#[derive(Clone, Copy, PartialEq, Eq, Debug)]
enum Flavour {
    /// input 0 = deposit cell, output 0 = withdrawing cell: the rule pairs them
    Paired,
    /// output 0 carries no type script: not a DAO pair
    OutputUntyped,
    /// outputs = [plain, withdrawing cell]: input 0 is paired with the plain output
    TypedAtIndex1,
}

struct Delivery {
    block: u64,
    expect_valid: bool,
    what: String,
}

struct Hist {
    index: u64,
    consensus: Consensus,
    limit: u64,
    fork: u64,
    d_a: u64,
    w_a: u64,
    d_b: u64,
    w_b: u64,
    flavour: Flavour,
    dep_lock_size: usize,
    wd_lock_size: usize,
    dep: TransactionView,
    wd: TransactionView,
    other: Option<TransactionView>,
    blocks: Vec<BlockView>,
    /// per block id: which branch's deposit height its W (if any) is judged with
    block_deposit_height: HashMap<u64, u64>,
    deliveries: Vec<Delivery>,
    /// number of deliveries before branch B starts
    marker: usize,
    /// W is loose (not committed) on the final chain
    w_loose_at_end: bool,
}

impl Hist {
    fn mismatch(&self) -> bool {
        self.dep_lock_size != self.wd_lock_size
    }
    /// the generator's own reading of RFC0044 / DaoScriptSizeVerifier for W with its deposit
    /// committed at height `d` of the branch in question
    fn rule_violated(&self, d: u64) -> bool {
        self.flavour == Flavour::Paired && self.mismatch() && d >= self.limit
    }
    fn block(&self, id: u64) -> &BlockView {
        &self.blocks[id as usize - 1]
    }
    fn describe(&self) -> Value {
        json!({
            "stream": "dao-lock-size", "history_index": self.index,
            "starting_block_limiting_dao_withdrawing_lock": self.limit, "fork_height": self.fork,
            "branch_A": {"deposit_at": self.d_a, "withdraw_at": self.w_a, "rule": if self.d_a < self.limit { "waived" } else { "applies" }},
            "branch_B": {"deposit_at": self.d_b, "withdraw_at": self.w_b, "rule": if self.d_b < self.limit { "waived" } else { "applies" }},
            "deposit_lock_size": self.dep_lock_size, "withdrawing_lock_size": self.wd_lock_size, "flavour": format!("{:?}", self.flavour),
            "with_ordinary_tx": self.other.is_some(),
            "deliveries": self.deliveries.iter().map(|d| json!({"block": d.block, "height": self.block(d.block).number(), "what": d.what, "expected": if d.expect_valid { "accepted" } else { "rejected" }})).collect::<Vec<_>>(),
            "branch_B_starts_at_delivery": self.marker,
        })
    }
}

/// genesis: tx0 = [#0 always-success code cell, #1 plain cell, #2 the "DAO" code cell (always-success
/// binary under a type script, so that `dao_type_hash` designates it)], then fund transactions
fn dao_consensus(limit: u64) -> (Consensus, TransactionView, Vec<TransactionView>) {
    let (cell, data, script) = always_success_cell();
    let dao_code_type = Script::new_builder().code_hash(Byte32::new([0xda; 32])).hash_type(ScriptHashType::Type).build();
    let tx0 = TransactionBuilder::default()
        .input(CellInput::new(OutPoint::null(), 0))
        .witness(script.clone().into_witness())
        .output(cell.clone())
        .output_data(data.clone())
        .output(CellOutput::new_builder().capacity(Capacity::bytes(100_000).unwrap()).lock(script.clone()).build())
        .output_data(Bytes::new())
        .output(CellOutput::new_builder().capacity(Capacity::bytes(1_000_000).unwrap()).lock(script.clone()).type_(Some(dao_code_type.clone())).build())
        .output_data(data.clone())
        .build();
    let funds: Vec<TransactionView> = (0..3u64)
        .map(|i| {
            TransactionBuilder::default()
                .input(CellInput::new(OutPoint::null(), 0))
                .output(CellOutput::new_builder().capacity(Capacity::bytes(50_000 + i as usize).unwrap()).lock(script.clone()).build())
                .output_data(Bytes::from(i.to_le_bytes().to_vec()))
                .build()
        })
        .collect();
    let mut all: Vec<&TransactionView> = vec![&tx0];
    all.extend(funds.iter());
    let dao = genesis_dao_data(all).unwrap();
    let compact = difficulty_to_compact(U256::from(1000u64));
    let genesis = BlockBuilder::default()
        .timestamp(GENESIS_TS)
        .compact_target(compact)
        .dao(dao)
        .transaction(tx0.clone())
        .transactions(funds.clone())
        .build();
    let epoch_ext = build_genesis_epoch_ext(Capacity::shannons(1_917_808_21917808), compact, 1000, 4 * 60 * 60, (1, 40));
    let consensus = ConsensusBuilder::new(genesis, epoch_ext)
        .cellbase_maturity(EpochNumberWithFraction::new(0, 0, 1))
        .tx_proposal_window(ProposalWindow(1, 10))
        .starting_block_limiting_dao_withdrawing_lock(limit)
        .build();
    assert_eq!(consensus.dao_type_hash(), dao_code_type.calc_script_hash());
    (consensus, tx0, funds)
}

fn lock_with_args(n: usize, fill: u8) -> Script {
    let (_, _, script) = always_success_cell();
    script.clone().as_builder().args(Bytes::from(vec![fill; n])).build()
}

fn gen_history(seed: u64, hi: u64) -> Result<Hist, String> {
    let mut rng = Rng::new(seed ^ 0xDA0_51CE ^ hi.wrapping_mul(0x9E37_79B9_7F4A_7C15));
    let limit = rng.range(3, 7);
    // which side of the limiting block number the deposit is committed on, per branch; the first four
    // histories of a run cover the four combinations
    let class = if hi < 4 { hi } else { rng.below(6) };
    let (waived_a, waived_b) = match class {
        0 => (true, false),
        1 => (false, false),
        2 => (true, true),
        3 => (false, true),
        _ => (rng.chance(2, 3), rng.chance(1, 3)),
    };
    let pick_d = |rng: &mut Rng, waived: bool| -> u64 {
        if waived {
            if rng.chance(1, 2) { limit - 1 } else { rng.range(2, limit - 1) }
        } else if rng.chance(1, 2) { limit } else { rng.range(limit, limit + 2) }
    };
    let d_a = pick_d(&mut rng, waived_a);
    let mut d_b = pick_d(&mut rng, waived_b);
    let fork = rng.range(0, std::cmp::min(d_a, d_b) - 1);
    let w_a = d_a + *rng.pick(&[0u64, 1, 1, 2]);
    let end_a = w_a + rng.range(0, 1);
    // the withdraw on B is committed in the block with which B overtakes A, or later: its verdict
    // is the verdict of that delivery
    let mut w_b = std::cmp::max(d_b + rng.range(0, 2), end_a + 1 + rng.range(0, 1));
    if !waived_b && rng.chance(1, 5) {
        // deposit and withdraw in the same block
        d_b = w_b;
    }
    if d_b < limit && !waived_b { d_b = limit; if w_b < d_b { w_b = d_b; } }
    let end_b = w_b + rng.range(0, 1);
    let flavour = if hi < 4 { Flavour::Paired } else { match rng.below(8) { 0 => Flavour::OutputUntyped, 1 => Flavour::TypedAtIndex1, _ => Flavour::Paired } };
    let dep_args = *rng.pick(&[0usize, 20, 32]);
    let wd_args = if hi < 4 { dep_args + 20 } else {
        match rng.below(8) {
            0 | 1 => dep_args,
            2 => dep_args + 1,
            3 if dep_args > 0 => dep_args - 1,
            4 if dep_args > 0 => 0,
            _ => dep_args + 20,
        }
    };
    let with_other = rng.chance(1, 2);
    let other_first = rng.chance(1, 2);

    let (consensus, tx0, funds) = dao_consensus(limit);
    let code_deps = vec![
        CellDep::new_builder().out_point(OutPoint::new(tx0.hash(), 0)).build(),
        CellDep::new_builder().out_point(OutPoint::new(tx0.hash(), 2)).build(),
    ];
    let dao_type = Script::new_builder().code_hash(consensus.dao_type_hash()).hash_type(ScriptHashType::Type).build();
    let fund_cap = |i: usize| -> u64 { funds[i].outputs().get(0).unwrap().capacity().into() };
    let dep_lock = lock_with_args(dep_args, 0x11);
    let wd_lock = lock_with_args(wd_args, 0x22);
    let dep = TransactionBuilder::default()
        .input(CellInput::new(OutPoint::new(funds[0].hash(), 0), 0))
        .output(CellOutput::new_builder().capacity(Capacity::shannons(fund_cap(0) - 2000)).lock(dep_lock.clone()).type_(Some(dao_type.clone())).build())
        .output_data(Bytes::from(vec![0u8; 8]))
        .cell_deps(code_deps.clone())
        .build();
    let dep_cap = fund_cap(0) - 2000;
    let withdrawing_data = Bytes::from(9u64.to_le_bytes().to_vec());
    let wd = {
        let b = TransactionBuilder::default().input(CellInput::new(OutPoint::new(dep.hash(), 0), 0)).cell_deps(code_deps.clone());
        match flavour {
            Flavour::Paired => b
                .output(CellOutput::new_builder().capacity(Capacity::shannons(dep_cap - 3000)).lock(wd_lock.clone()).type_(Some(dao_type.clone())).build())
                .output_data(withdrawing_data.clone()),
            Flavour::OutputUntyped => b
                .output(CellOutput::new_builder().capacity(Capacity::shannons(dep_cap - 3000)).lock(wd_lock.clone()).build())
                .output_data(withdrawing_data.clone()),
            Flavour::TypedAtIndex1 => b
                .output(CellOutput::new_builder().capacity(Capacity::shannons(dep_cap / 2)).lock(dep_lock.clone()).build())
                .output_data(Bytes::new())
                .output(CellOutput::new_builder().capacity(Capacity::shannons(dep_cap - dep_cap / 2 - 3000)).lock(wd_lock.clone()).type_(Some(dao_type.clone())).build())
                .output_data(withdrawing_data.clone()),
        }
        .build()
    };
    let other = if with_other {
        Some(
            TransactionBuilder::default()
                .input(CellInput::new(OutPoint::new(funds[1].hash(), 0), 0))
                .output(CellOutput::new_builder().capacity(Capacity::shannons(fund_cap(1) - 1000)).lock(lock_with_args(0, 0)).build())
                .output_data(Bytes::from(hi.to_le_bytes().to_vec()))
                .cell_dep(code_deps[0].clone())
                .build(),
        )
    } else {
        None
    };
    let mut proposals = vec![dep.proposal_short_id(), wd.proposal_short_id()];
    if let Some(t) = &other { proposals.push(t.proposal_short_id()); }

    let mut h = Hist {
        index: hi, consensus: consensus.clone(), limit, fork, d_a, w_a, d_b, w_b, flavour,
        dep_lock_size: dep_lock.total_size(), wd_lock_size: wd_lock.total_size(),
        dep: dep.clone(), wd: wd.clone(), other: other.clone(), blocks: vec![], block_deposit_height: HashMap::new(),
        deliveries: vec![], marker: 0, w_loose_at_end: true,
    };
    let mut nonce: u128 = 1;
    let ts = |rng: &mut Rng| -> u64 { *rng.pick(&[1u64, 20, 900, 15_000, 700_000]) };
    // one branch on its builder: heights from+1 ..= end
    let mut build_branch = |h: &mut Hist, rng: &mut Rng, builder: &Node, name: &str, end: u64, d: u64, w: u64| -> Result<bool, String> {
        let mut w_committed = false;
        while builder.tip().number() < end {
            let number = builder.tip().number() + 1;
            let mut txs: Vec<TransactionView> = vec![];
            if number == d { txs.push(dep.clone()); }
            let mut with_w = txs.clone();
            if number == w {
                if let (Some(t), true) = (&other, other_first) { txs.push(t.clone()); with_w.push(t.clone()); }
                with_w.push(wd.clone());
                if let (Some(t), false) = (&other, other_first) { txs.push(t.clone()); with_w.push(t.clone()); }
            }
            nonce += 1;
            let mut plan = BlockPlan { proposals: proposals.clone(), txs: with_w.clone(), uncles: vec![], extra_unresolvable: vec![], ts_delta: ts(rng), nonce };
            if number == w && h.rule_violated(d) {
                // the block committing W is invalid here; a sibling without W carries the branch on
                let bad = build_block(builder, &plan);
                h.blocks.push(bad.clone());
                let id = h.blocks.len() as u64;
                h.block_deposit_height.insert(id, d);
                h.deliveries.push(Delivery { block: id, expect_valid: false, what: format!("{name}{number}: commits the withdraw, deposit committed at {d} >= {}: lock sizes {} / {} must match", h.limit, h.dep_lock_size, h.wd_lock_size) });
                if builder.process(&bad).is_ok() {
                    return Err(format!("the building node accepted block {id} ({name}{number}), which commits a DAO withdraw whose lock size differs from its deposit's (committed at {d}, limiting block {})", h.limit));
                }
                nonce += 1;
                plan = BlockPlan { proposals: proposals.clone(), txs: txs.clone(), uncles: vec![], extra_unresolvable: vec![], ts_delta: ts(rng), nonce };
            } else if number == w {
                w_committed = true;
            }
            let b = build_block(builder, &plan);
            h.blocks.push(b.clone());
            let id = h.blocks.len() as u64;
            h.block_deposit_height.insert(id, d);
            let what = if number == w && w_committed && number == d { format!("{name}{number}: deposit and withdraw") }
                else if number == w && w_committed { format!("{name}{number}: withdraw (deposit at {d})") }
                else if number == d { format!("{name}{number}: deposit") } else { format!("{name}{number}") };
            h.deliveries.push(Delivery { block: id, expect_valid: true, what });
            builder.process(&b).map_err(|e| format!("the building node rejected block {id} ({name}{number}), which the generator expects to be valid: {e}"))?;
        }
        Ok(w_committed)
    };
    // trunk + A
    let builder_a = Node::temp(&consensus);
    let r = (|| -> Result<(), String> {
        build_branch(&mut h, &mut rng, &builder_a, "T", fork, u64::MAX, u64::MAX)?;
        build_branch(&mut h, &mut rng, &builder_a, "A", end_a, d_a, w_a)?;
        Ok(())
    })();
    builder_a.stop();
    r?;
    h.marker = h.deliveries.len();
    // trunk + B
    let builder_b = Node::temp(&consensus);
    let r = (|| -> Result<bool, String> {
        for id in 1..=fork {
            builder_b.process(&h.blocks[id as usize - 1]).map_err(|e| format!("trunk replay: {e}"))?;
        }
        build_branch(&mut h, &mut rng, &builder_b, "B", end_b, d_b, w_b)
    })();
    builder_b.stop();
    h.w_loose_at_end = !r?;
    Ok(h)
}

#[derive(Clone, Copy, PartialEq, Eq, Debug)]
enum Forget { Never, ClearBeforeB, RestartBeforeB }

#[derive(Clone, Copy, Debug)]
struct DCfg {
    name: &'static str,
    caches_off: bool,
    forget: Forget,
    pool: bool,
    /// pool nodes: clear the verification cache right before the loose transaction is offered
    clear_before_pool: bool,
}

const DCONFIGS: [DCfg; 4] = [
    DCfg { name: "B0 all caches disabled (reference)", caches_off: true, forget: Forget::Never, pool: false, clear_before_pool: false },
    DCfg { name: "A default caches, never cleared", caches_off: false, forget: Forget::Never, pool: false, clear_before_pool: false },
    DCfg { name: "E default caches, verification cache cleared before the competing branch", caches_off: false, forget: Forget::ClearBeforeB, pool: false, clear_before_pool: false },
    DCfg { name: "F default caches, node restarted before the competing branch", caches_off: false, forget: Forget::RestartBeforeB, pool: false, clear_before_pool: false },
];
const PCONFIGS: [DCfg; 2] = [
    DCfg { name: "P1 tx-pool started, verification cache cleared before the loose transaction is offered (reference)", caches_off: false, forget: Forget::Never, pool: true, clear_before_pool: true },
    DCfg { name: "P0 tx-pool started, default caches, never cleared", caches_off: false, forget: Forget::Never, pool: true, clear_before_pool: false },
];

fn cfg_json(c: &DCfg) -> Value {
    json!({"name": c.name, "all_caches_disabled": c.caches_off, "forget": format!("{:?}", c.forget), "tx_pool": c.pool, "clear_before_pool": c.clear_before_pool})
}

fn store_cfg(c: &DCfg) -> StoreConfig {
    if c.caches_off {
        StoreConfig { header_cache_size: 0, cell_data_cache_size: 0, block_proposals_cache_size: 0, block_tx_hashes_cache_size: 0, block_uncles_cache_size: 0, block_extensions_cache_size: 0, freezer_enable: false }
    } else {
        StoreConfig::default()
    }
}

fn open(h: &Hist, c: &DCfg, dir: &Path) -> Node {
    let node = if c.pool { Node::on_disk_with_pool(&h.consensus, dir, store_cfg(c)) } else { Node::on_disk(&h.consensus, dir, store_cfg(c)) };
    if c.caches_off {
        node.shared.txs_verify_cache().blocking_write().resize(0);
    }
    node
}

#[derive(Clone, PartialEq, Eq, Debug, Default)]
struct DStep {
    verdict: &'static str,
    tip: u64,
    verified_now: Vec<(u64, ExtObs)>,
}

#[derive(Default)]
struct DRun {
    steps: Vec<DStep>,
    fin: BTreeMap<String, String>,
    /// (query, accepted, reject reason for the report)
    pool: Vec<(&'static str, bool, String)>,
    w_in_pool_before: bool,
    cache_had_w_before_pool: bool,
    cache_waits_timed_out: u64,
    stuck: Option<String>,
}

fn wait_cached(node: &Node, keys: &[Byte32]) -> bool {
    for _ in 0..1500 {
        {
            let cache = node.shared.txs_verify_cache();
            let g = cache.blocking_read();
            if keys.iter().all(|k| g.peek(k).is_some()) {
                return true;
            }
        }
        std::thread::sleep(std::time::Duration::from_millis(4));
    }
    false
}

fn replay(h: &Hist, c: &DCfg, dir: &Path) -> DRun {
    let _ = std::fs::remove_dir_all(dir);
    let mut node = open(h, c, dir);
    let mut run = DRun::default();
    let mut known: HashMap<u64, Option<bool>> = HashMap::new();
    let block_id: HashMap<Byte32, u64> = h.blocks.iter().enumerate().map(|(i, b)| (b.hash(), i as u64 + 1)).collect();
    for (si, d) in h.deliveries.iter().enumerate() {
        if si == h.marker {
            match c.forget {
                Forget::Never => {}
                Forget::ClearBeforeB => node.shared.txs_verify_cache().blocking_write().clear(),
                Forget::RestartBeforeB => {
                    node.stop();
                    node = open(h, c, dir);
                }
            }
        }
        let mut o = DStep::default();
        o.verdict = match node.process_timed(h.block(d.block)) {
            Some(Ok(_)) => "accepted",
            Some(Err(_)) => "rejected",
            None => {
                run.stuck = Some(format!("the node stopped answering at delivery {si} (block {})", d.block));
                run.steps.push(o);
                node.abandon();
                return run;
            }
        };
        let snap = node.shared.snapshot();
        o.tip = if snap.tip_number() == 0 { 0 } else { *block_id.get(&snap.tip_hash()).unwrap_or(&9_000_000) };
        let mut changed: Vec<(u64, u64, ExtObs)> = vec![];
        for id in 1..=h.blocks.len() as u64 {
            let b = h.block(id);
            if let Some(e) = ext_obs(node.shared.store(), &b.hash()) {
                if known.get(&id) != Some(&e.verified) {
                    known.insert(id, e.verified);
                    changed.push((b.number(), id, e));
                }
            }
        }
        changed.sort_by_key(|x| (x.0, x.1));
        o.verified_now = changed.into_iter().map(|(_, id, e)| (id, e)).collect();
        // BlockTxsVerifier::update_cache is a spawned task: let the entries of the blocks verified in
        // this step land, so that what a later block finds in the cache does not depend on scheduling
        if !c.caches_off {
            let keys: Vec<Byte32> = o.verified_now.iter().filter(|(_, e)| e.verified == Some(true))
                .flat_map(|(id, _)| h.block(*id).transactions().into_iter().skip(1).map(|t| t.witness_hash()).collect::<Vec<_>>()).collect();
            if !keys.is_empty() && !wait_cached(&node, &keys) {
                run.cache_waits_timed_out += 1;
            }
        }
        run.steps.push(o);
    }
    // final state
    {
        let snap = node.shared.snapshot();
        let store = node.shared.store();
        run.fin.insert("tip".into(), format!("{:?}", block_id.get(&snap.tip_hash())));
        for id in 1..=h.blocks.len() as u64 {
            let hash = h.block(id).hash();
            run.fin.insert(format!("b{id}.ext"), format!("{:?}", ext_obs(store, &hash)));
            run.fin.insert(format!("b{id}.main"), format!("{}", store.is_main_chain(&hash)));
        }
        for (name, tx) in [("deposit", &h.dep), ("withdraw", &h.wd)] {
            run.fin.insert(format!("{name}.info"), format!("{:?}", store.get_transaction_info(&tx.hash()).map(|i| (block_id.get(&i.block_hash).cloned(), i.block_number, i.index))));
            let live = matches!(snap.cell(&OutPoint::new(tx.hash(), 0), false), CellStatus::Live(_));
            run.fin.insert(format!("{name}.out0.live"), live.to_string());
        }
    }
    if c.pool {
        let pool = node.shared.tx_pool_controller();
        // the pool follows the chain through notifications: wait until it stands on the node's tip
        let tip = node.shared.snapshot().tip_hash();
        let mut synced = false;
        for _ in 0..2000 {
            if pool.get_tx_pool_info().map(|i| i.tip_hash == tip).unwrap_or(false) { synced = true; break; }
            std::thread::sleep(std::time::Duration::from_millis(5));
        }
        if !synced {
            run.stuck = Some("the tx-pool did not reach the node's tip within 10 s".into());
        }
        run.w_in_pool_before = pool.get_all_ids().map(|ids| ids.pending.contains(&h.wd.hash()) || ids.proposed.contains(&h.wd.hash())).unwrap_or(false);
        if c.clear_before_pool {
            node.shared.txs_verify_cache().blocking_write().clear();
        }
        run.cache_had_w_before_pool = node.shared.txs_verify_cache().blocking_read().peek(&h.wd.witness_hash()).is_some();
        match pool.test_accept_tx(h.wd.clone()) {
            Ok(Ok(_)) => run.pool.push(("test_accept_tx", true, String::new())),
            Ok(Err(e)) => run.pool.push(("test_accept_tx", false, format!("{e}"))),
            Err(e) => run.stuck = Some(format!("test_accept_tx: {e}")),
        }
        match pool.submit_local_tx(h.wd.clone()) {
            Ok(Ok(_)) => run.pool.push(("submit_local_tx", true, String::new())),
            Ok(Err(e)) => run.pool.push(("submit_local_tx", false, format!("{e}"))),
            Err(e) => run.stuck = Some(format!("submit_local_tx: {e}")),
        }
        let in_pool = pool.get_all_ids().map(|ids| ids.pending.contains(&h.wd.hash()) || ids.proposed.contains(&h.wd.hash())).unwrap_or(false);
        run.fin.insert("withdraw.in_pool_after_submit".into(), in_pool.to_string());
    }
    node.stop();
    let _ = std::fs::remove_dir_all(dir);
    run
}

fn first_difference(a: &DRun, b: &DRun) -> Option<String> {
    for (i, (x, y)) in a.steps.iter().zip(b.steps.iter()).enumerate() {
        if x.verdict != y.verdict { return Some(format!("delivery {i}: verdict {} vs reference {}", x.verdict, y.verdict)); }
        if x.tip != y.tip { return Some(format!("delivery {i}: tip is block {} vs reference block {}", x.tip, y.tip)); }
        if x.verified_now != y.verified_now { return Some(format!("delivery {i}: verification records {:?} vs reference {:?}", x.verified_now, y.verified_now)); }
    }
    if a.steps.len() != b.steps.len() { return Some("different number of deliveries processed".into()); }
    for (k, v) in &a.fin {
        if b.fin.get(k) != Some(v) { return Some(format!("final state, {k}: {v} vs reference {:?}", b.fin.get(k))); }
    }
    None
}

fn coq_completed(cycles: u64, fee: u64) -> String {
    format!("mkC {} {}", coq_n(cycles as u128), coq_n(fee as u128))
}

/// one (history, configuration) as a case of the model (Tx/Cache.v check_dcase)
fn coq_case(h: &Hist, c: &DCfg, r: &DRun, content: &HashMap<Byte32, (u64, u64)>, keys: &HashMap<Byte32, u64>) -> String {
    let dotx = |tx: &TransactionView, dao_ok: bool| -> String {
        let cont = match content.get(&tx.witness_hash()) { Some((cy, fee)) => format!("(Some ({}))", coq_completed(*cy, *fee)), None => "(Some (mkC 0 0))".to_string() };
        format!("mkDO {} {} true {}", coq_n(keys[&tx.witness_hash()] as u128), cont, coq_bool(dao_ok))
    };
    let block_txs = |id: u64| -> String {
        let d = h.block_deposit_height[&id];
        let l: Vec<String> = h.block(id).transactions().iter().skip(1).map(|tx| dotx(tx, !(tx.hash() == h.wd.hash() && h.rule_violated(d)))).collect();
        format!("[{}]", l.join("; "))
    };
    let mut items: Vec<String> = vec![];
    for (si, (d, o)) in h.deliveries.iter().zip(r.steps.iter()).enumerate() {
        if si == h.marker && c.forget != Forget::Never { items.push("DForget".into()); }
        for (vid, e) in &o.verified_now {
            if e.verified != Some(true) { continue; }
            let cyc = e.cycles.clone().unwrap_or_default();
            let rec: Vec<String> = e.fees.iter().enumerate().map(|(i, f)| coq_completed(*cyc.get(i).unwrap_or(&u64::MAX), *f)).collect();
            items.push(format!("DBlk {} true [{}]", block_txs(*vid), rec.join("; ")));
        }
        if o.verdict == "rejected" {
            items.push(format!("DBlk {} false []", block_txs(d.block)));
        }
    }
    if c.pool && h.w_loose_at_end && !r.w_in_pool_before {
        if c.clear_before_pool { items.push("DForget".into()); }
        if let Some((_, acc, _)) = r.pool.iter().find(|(q, _, _)| *q == "submit_local_tx") {
            items.push(format!("DPool ({}) {}", dotx(&h.wd, !h.rule_violated(h.d_b)), coq_bool(*acc)));
        }
    }
    format!("mkDCase {} {} [{}]", coq_n(h.consensus.max_block_cycles() as u128), if c.caches_off { "(Some 0%nat)" } else { "None" }, items.join("; "))
}

struct Guard(std::time::Instant, &'static str, u64);
impl Drop for Guard {
    fn drop(&mut self) {
        if std::env::var("HX_TIMING").is_ok() { eprintln!("dao {}: [{}] {:?}", self.2, self.1, self.0.elapsed()); }
    }
}

pub struct DaoOut {
    pub viol: Vec<Value>,
    pub cases: Vec<(String, Value)>,
    pub stats: BTreeMap<String, u64>,
    pub distinct: Vec<String>,
    pub samples: Vec<Value>,
    pub pool_examples: Vec<Value>,
}

fn bump(stats: &mut BTreeMap<String, u64>, k: &str, n: u64) {
    *stats.entry(format!("dao_{k}")).or_default() += n;
}

fn run_one(seed: u64, hi: u64, with_pool: bool, scratch: &Path, out: &mut DaoOut) {
    let t0 = std::time::Instant::now();
    let h = match gen_history(seed, hi) {
        Ok(h) => h,
        Err(e) => {
            out.viol.push(json!({"what": e, "detail": {"stream": "dao-lock-size", "history_index": hi, "seed": seed}}));
            return;
        }
    };
    let desc = h.describe();
    let detail = |extra: Value| -> Value { let mut d = desc.clone(); d["seed"] = json!(seed); d["more"] = extra; d };
    bump(&mut out.stats, "histories", 1);
    bump(&mut out.stats, &format!("rule_on_A_{}_on_B_{}", if h.d_a < h.limit { "waived" } else { "applies" }, if h.d_b < h.limit { "waived" } else { "applies" }), 1);
    bump(&mut out.stats, if h.mismatch() { "lock_sizes_differ" } else { "lock_sizes_equal" }, 1);
    bump(&mut out.stats, &format!("flavour_{:?}", h.flavour), 1);
    if h.d_a == h.limit || h.d_b == h.limit || h.d_a + 1 == h.limit || h.d_b + 1 == h.limit { bump(&mut out.stats, "deposit_at_limit_or_one_below", 1); }
    if h.d_a == h.w_a || h.d_b == h.w_b { bump(&mut out.stats, "deposit_and_withdraw_in_one_block", 1); }
    bump(&mut out.stats, "blocks_expected_invalid", h.deliveries.iter().filter(|d| !d.expect_valid).count() as u64);
    bump(&mut out.stats, "deliveries", h.deliveries.len() as u64);
    let target = h.flavour == Flavour::Paired && h.mismatch() && h.d_a < h.limit && h.d_b >= h.limit;
    if target { bump(&mut out.stats, "withdraw_cached_where_waived_then_committed_where_rule_applies", 1); }

    if std::env::var("HX_TIMING").is_ok() { eprintln!("dao {hi}: generated in {:?}", t0.elapsed()); }
    let mut runs: Vec<(DCfg, DRun)> = vec![];
    for c in DCONFIGS.iter() {
        let t1 = std::time::Instant::now();
        let _g = Guard(t1, c.name, hi);
        let r = replay(&h, c, &scratch.join(format!("d{hi}")));
        runs.push((*c, r));
    }
    let reference = &runs[0].1;
    // the generator's reading of the rule, on every node
    for (c, r) in &runs {
        if let Some(s) = &r.stuck {
            out.viol.push(json!({"what": format!("[{}] {s}", c.name), "detail": detail(json!({"config": cfg_json(c)}))}));
        }
        for (d, o) in h.deliveries.iter().zip(r.steps.iter()) {
            if d.expect_valid != (o.verdict == "accepted") {
                out.viol.push(json!({
                    "what": format!("[{}] answered '{}' to block {} ({}); by the DAO lock-size rule (RFC0044: lock sizes of deposit and withdrawing cell must match unless the deposit was committed below block {}) it must be {}",
                                    c.name, o.verdict, d.block, d.what, h.limit, if d.expect_valid { "accepted" } else { "rejected" }),
                    "detail": detail(json!({"config": cfg_json(c), "block": d.block}))}));
                break;
            }
        }
        bump(&mut out.stats, "cache_waits_timed_out", r.cache_waits_timed_out);
    }
    for (c, r) in runs.iter().skip(1) {
        if let Some(msg) = first_difference(r, reference) {
            out.viol.push(json!({
                "what": format!("[{}] differs from the node without caches: {msg}", c.name),
                "detail": detail(json!({"config": cfg_json(c)}))}));
        }
    }
    // W was answered from the cache at least once on the never-cleared node?
    let w_accepted_on_a = h.deliveries[..h.marker].iter().zip(reference.steps.iter()).any(|(d, o)| o.verdict == "accepted" && h.block(d.block).transactions().iter().any(|t| t.hash() == h.wd.hash()));
    let w_on_b = h.deliveries[h.marker..].iter().any(|d| h.block(d.block).transactions().iter().any(|t| t.hash() == h.wd.hash()));
    if w_accepted_on_a && w_on_b { bump(&mut out.stats, "withdraw_verified_on_both_branches_second_time_from_cache", 1); }

    // content of every (transaction, witnesses): what some node recorded for it
    let mut content: HashMap<Byte32, (u64, u64)> = HashMap::new();
    let mut pool_runs: Vec<(DCfg, DRun)> = vec![];
    if with_pool {
        for c in PCONFIGS.iter() {
            // the tx-pool service keeps the database open after the node was stopped: a directory of its own
            let r = replay(&h, c, &scratch.join(format!("p{hi}-{}", pool_runs.len())));
            pool_runs.push((*c, r));
        }
    }
    for (_, r) in runs.iter().chain(pool_runs.iter()) {
        for o in &r.steps {
            for (id, e) in &o.verified_now {
                if e.verified != Some(true) { continue; }
                if let Some(cy) = &e.cycles {
                    for (i, tx) in h.block(*id).transactions().iter().skip(1).enumerate() {
                        if i < cy.len() && i < e.fees.len() { content.entry(tx.witness_hash()).or_insert((cy[i], e.fees[i])); }
                    }
                }
            }
        }
    }
    let mut keys: HashMap<Byte32, u64> = HashMap::new();
    for (i, tx) in [Some(&h.dep), Some(&h.wd), h.other.as_ref()].into_iter().flatten().enumerate() {
        keys.insert(tx.witness_hash(), i as u64 + 1);
    }
    if with_pool {
        bump(&mut out.stats, "pool_histories", 1);
        let (cold_c, cold) = (&pool_runs[0].0, &pool_runs[0].1);
        let (warm_c, warm) = (&pool_runs[1].0, &pool_runs[1].1);
        for (c, r) in &pool_runs {
            if let Some(s) = &r.stuck {
                out.viol.push(json!({"what": format!("[{}] {s}", c.name), "detail": detail(json!({"config": cfg_json(c)}))}));
            }
            // block side of the pool nodes against the cache-less reference too
            let mut r2 = DRun { steps: r.steps.clone(), fin: r.fin.clone(), ..Default::default() };
            r2.fin.remove("withdraw.in_pool_after_submit");
            if let Some(msg) = first_difference(&r2, reference) {
                out.viol.push(json!({"what": format!("[{}] differs from the node without caches: {msg}", c.name), "detail": detail(json!({"config": cfg_json(c)}))}));
            }
        }
        if warm.cache_had_w_before_pool { bump(&mut out.stats, "pool_withdraw_offered_with_cache_entry", 1); }
        let violated_at_pool = h.rule_violated(h.d_b);
        for ((q, acc_c, why_c), (_, acc_w, why_w)) in cold.pool.iter().zip(warm.pool.iter()) {
            bump(&mut out.stats, &format!("pool_{q}_{}", if *acc_c { "accepted_cold" } else { "rejected_cold" }), 1);
            // the generator's reading, on the node that verifies afresh
            if h.w_loose_at_end && !cold.w_in_pool_before && *acc_c == violated_at_pool {
                out.viol.push(json!({
                    "what": format!("[{}] {q} of the loose withdraw answered {}; its deposit is committed at {} on the node's chain (limiting block {}), lock sizes {} / {}: it must be {}",
                                    cold_c.name, if *acc_c { "accepted".to_string() } else { format!("rejected ({why_c})") }, h.d_b, h.limit, h.dep_lock_size, h.wd_lock_size, if violated_at_pool { "rejected" } else { "accepted" }),
                    "detail": detail(json!({"config": cfg_json(cold_c)}))}));
            }
            if acc_c != acc_w {
                let known = *acc_w && !*acc_c && violated_at_pool && warm.cache_had_w_before_pool && h.w_loose_at_end;
                let mut v = json!({
                    "what": format!("[{}] {q} of the withdraw transaction: {} — the node whose verification cache was cleared just before answers: {}. The deposit is committed at height {} of the node's chain (limiting block {}), lock sizes {} / {}; the cache entry stems from the block on branch A, where the deposit was committed at height {}",
                                    warm_c.name, if *acc_w { "ACCEPTED".to_string() } else { format!("rejected ({why_w})") }, if *acc_c { "accepted".to_string() } else { format!("rejected ({why_c})") },
                                    h.d_b, h.limit, h.dep_lock_size, h.wd_lock_size, h.d_a),
                    "detail": detail(json!({"config": cfg_json(warm_c), "query": q}))});
                if known {
                    v["signature"] = json!(SIG_POOL);
                    bump(&mut out.stats, "pool_accepts_from_cache_what_it_rejects_cold", 1);
                    if out.pool_examples.len() < 2 {
                        out.pool_examples.push(json!({"history": desc, "query": q, "with_cache_entry": "accepted", "cache_cleared": format!("rejected ({why_c})"), "in_pool_after_submit": warm.fin.get("withdraw.in_pool_after_submit")}));
                    }
                }
                out.viol.push(v);
            }
        }
        if warm.fin.get("withdraw.in_pool_after_submit") != cold.fin.get("withdraw.in_pool_after_submit") && !(violated_at_pool && warm.cache_had_w_before_pool) {
            out.viol.push(json!({"what": format!("[{}] after submit_local_tx the withdraw is in the pool: {:?}; on the node whose cache was cleared: {:?}", warm_c.name, warm.fin.get("withdraw.in_pool_after_submit"), cold.fin.get("withdraw.in_pool_after_submit")),
                                 "detail": detail(json!({"config": cfg_json(warm_c)}))}));
        }
    }
    for (c, r) in runs.iter().chain(pool_runs.iter()) {
        let mut d = desc.clone();
        d["seed"] = json!(seed);
        d["config"] = cfg_json(c);
        d["verdicts"] = json!(r.steps.iter().map(|s| s.verdict).collect::<Vec<_>>());
        if c.pool {
            d["pool"] = json!(r.pool.iter().map(|(q, a, w)| json!({"query": q, "accepted": a, "reject": w})).collect::<Vec<_>>());
            // the model takes the pool's hit path as it is (no lock-size check): a case that only
            // differs from the implementation there is the known finding
            d["known_signature"] = json!(SIG_POOL);
        }
        out.cases.push((coq_case(&h, c, r, &content, &keys), d));
    }
    out.distinct.push(format!("{}", desc));
    if out.samples.len() < 2 {
        out.samples.push(json!({"history": desc, "verdicts_reference": reference.steps.iter().map(|s| s.verdict).collect::<Vec<_>>(), "configs": DCONFIGS.iter().map(|c| c.name).collect::<Vec<_>>()}));
    }
}

/// `only`: replay of a single history
pub fn run(seed: u64, thorough: bool, scratch: &Path, only: Option<u64>) -> DaoOut {
    let mut out = DaoOut { viol: vec![], cases: vec![], stats: BTreeMap::new(), distinct: vec![], samples: vec![], pool_examples: vec![] };
    let n_hist = shard_share(if thorough { 160 } else { 14 });
    let n_pool = shard_share(if thorough { 24 } else { 3 });
    let mut pools_done = 0u64;
    for hi in 0..n_hist {
        if let Some(o) = only { if o != hi { continue; } }
        // pool part: the first history (rule waived on A, applies on B, sizes differ) and then every fourth
        let with_pool = only.is_some() || (pools_done < n_pool && (hi == 0 || hi % 4 == 2));
        if with_pool { pools_done += 1; }
        let before = out.viol.len();
        let r = std::panic::catch_unwind(std::panic::AssertUnwindSafe(|| {
            let mut o = DaoOut { viol: vec![], cases: vec![], stats: BTreeMap::new(), distinct: vec![], samples: vec![], pool_examples: vec![] };
            run_one(seed, hi, with_pool, scratch, &mut o);
            o
        }));
        match r {
            Ok(o) => {
                out.viol.extend(o.viol);
                out.cases.extend(o.cases);
                for (k, v) in o.stats { *out.stats.entry(k).or_default() += v; }
                out.distinct.extend(o.distinct);
                for s in o.samples { if out.samples.len() < 2 { out.samples.push(s); } }
                for s in o.pool_examples { if out.pool_examples.len() < 2 { out.pool_examples.push(s); } }
            }
            Err(p) => {
                let msg = p.downcast_ref::<String>().cloned().or_else(|| p.downcast_ref::<&str>().map(|s| s.to_string())).unwrap_or_default();
                out.viol.push(json!({"what": format!("a node panicked in the DAO lock-size stream: {msg}"), "detail": {"stream": "dao-lock-size", "history_index": hi, "seed": seed}}));
            }
        }
        let _ = before;
    }
    out
}
