//! Replay of a recorded history on nodes that differ only in caching, the
//! observations taken, their comparison with the cache-less reference node
//! (property predicate), and the Coq cases.
use crate::gen::*;
use crate::node::*;
use ckb_app_config::StoreConfig;
use ckb_db_schema::{COLUMN_BLOCK_HEADER, COLUMN_CELL_DATA};
use ckb_store::ChainStore;
use ckb_types::core::cell::{CellProvider, CellStatus};
use ckb_types::core::{BlockView, Capacity};
use ckb_types::packed::Byte32;
use ckb_types::prelude::*;
use ckb_verification::cache::Completed;
use hx_common::*;
use serde_json::{json, Value};
use std::collections::{BTreeMap, HashMap};
use std::path::Path;

#[derive(Clone, Copy, PartialEq, Eq, Debug)]
pub enum Policy {
    Cold,
    /// correct entries for every (transaction, witnesses) of the history: what the pool would have inserted
    Warm,
    /// bogus entries under keys a correct node never looks up: transaction hashes, and witness
    /// hashes of same-transaction/different-witness variants
    Poison,
}

#[derive(Clone, Copy, Debug)]
pub struct Config {
    pub name: &'static str,
    /// size of every store LRU (None = defaults)
    pub store_size: Option<usize>,
    /// capacity of the verification cache (None = default 30000)
    pub vcap: Option<usize>,
    pub policy: Policy,
}

pub const CONFIGS: [Config; 5] = [
    Config { name: "B0 all caches disabled (reference)", store_size: Some(0), vcap: Some(0), policy: Policy::Cold },
    Config { name: "A default caches, cold", store_size: None, vcap: None, policy: Policy::Cold },
    Config { name: "B1 every cache of size 1", store_size: Some(1), vcap: Some(1), policy: Policy::Cold },
    Config { name: "C verification cache pre-warmed with every transaction", store_size: None, vcap: None, policy: Policy::Warm },
    Config { name: "D verification cache poisoned under tx-hash / other-witness keys", store_size: None, vcap: None, policy: Policy::Poison },
];

pub const BOGUS: Completed = Completed { cycles: 7, fee: Capacity::shannons(123_456_789) };

pub fn store_config(c: &Config) -> StoreConfig {
    match c.store_size {
        None => StoreConfig::default(),
        Some(n) => StoreConfig {
            header_cache_size: n,
            cell_data_cache_size: n,
            block_proposals_cache_size: n,
            block_tx_hashes_cache_size: n,
            block_uncles_cache_size: n,
            block_extensions_cache_size: n,
            freezer_enable: false,
        },
    }
}

/// (key, entry) list a node's verification cache starts with (and is given again after a restart)
pub fn initial_entries(c: &Config, g: &Gen, content: &HashMap<Byte32, Completed>) -> Vec<(Byte32, Completed)> {
    match c.policy {
        Policy::Cold => vec![],
        Policy::Warm => {
            let mut v: Vec<(Byte32, Completed)> = content.iter().map(|(k, e)| (k.clone(), *e)).collect();
            v.sort_by(|a, b| a.0.as_slice().cmp(b.0.as_slice()));
            v
        }
        Policy::Poison => {
            let mut v = vec![];
            for tx in g.txs.iter() {
                if tx.is_cellbase() { continue; }
                v.push((tx.hash(), BOGUS));
                v.push((rewitness(tx, 0xdead_beef).witness_hash(), BOGUS));
            }
            v
        }
    }
}

pub fn apply_policy(node: &Node, c: &Config, init: &[(Byte32, Completed)]) {
    let cache = node.shared.txs_verify_cache();
    let mut guard = cache.blocking_write();
    if let Some(cap) = c.vcap {
        guard.resize(cap);
    }
    for (k, e) in init {
        guard.put(k.clone(), *e);
    }
}

#[derive(Clone, PartialEq, Eq, Debug, Default)]
pub struct ExtObs {
    pub verified: Option<bool>,
    pub fees: Vec<u64>,
    pub cycles: Option<Vec<u64>>,
    pub sizes: Option<Vec<u64>>,
    pub td: String,
    pub uncles: u64,
}

#[derive(Clone, PartialEq, Eq, Debug, Default)]
pub struct StepObs {
    pub verdict: &'static str,
    pub tip: u64,
    /// blocks whose verification record changed in this step, lowest first
    pub verified_now: Vec<(u64, ExtObs)>,
    /// query battery (only at checkpoints)
    pub battery: Option<BTreeMap<String, String>>,
}

pub struct NodeRun {
    pub obs: Vec<StepObs>,
    /// direct predicate failures (an answer differs from the stored content)
    pub direct: Vec<String>,
    /// unguarded reads answered from a cache although the columns say "absent" (after the last step)
    pub ghost_headers: Vec<u64>,
    pub ghost_blocks_without_body: Vec<u64>,
    /// get_block panicked ("block uncles must be stored"): header still cached, uncle entry evicted
    pub ghost_get_block_panics: Vec<u64>,
    pub ghost_cell_data: usize,
    pub guarded_reads: u64,
}

pub fn ext_obs<S: ChainStore>(s: &S, h: &Byte32) -> Option<ExtObs> {
    s.get_block_ext(h).map(|e| ExtObs {
        verified: e.verified,
        fees: e.txs_fees.iter().map(|c| c.as_u64()).collect(),
        cycles: e.cycles.clone(),
        sizes: e.txs_sizes.clone(),
        td: u256_dec(&e.total_difficulty),
        uncles: e.total_uncles_count,
    })
}

fn battery(g: &Gen, node: &Node, direct: &mut Vec<String>, reads: &mut u64) -> BTreeMap<String, String> {
    let store = node.shared.store();
    let snap = node.shared.snapshot();
    let mut d = BTreeMap::new();
    d.insert("tip".into(), format!("{:?}", g.block_id.get(&snap.tip_hash())));
    d.insert("store_tip".into(), format!("{:?}", store.get_tip_header().map(|t| g.block_id.get(&t.hash()).cloned())));
    for id in 0..=g.blocks.len() as u64 {
        let b = g.block_by_id(id);
        let h = b.hash();
        let stored = store.get(COLUMN_BLOCK_HEADER, h.as_slice()).is_some();
        d.insert(format!("b{id}.stored"), stored.to_string());
        d.insert(format!("b{id}.ext"), format!("{:?}", ext_obs(store, &h)));
        d.insert(format!("b{id}.number"), format!("{:?}/{}", store.get_block_number(&h), store.is_main_chain(&h)));
        if !stored {
            continue;
        }
        // guarded reads: the block is in the columns; twice (second answer comes from the cache, when there is one),
        // alternately through the store and through the published snapshot
        for round in 0..2 {
            *reads += 7;
            let (hdr, unc, pro, ext, txh, blk) = if (id + round) % 2 == 0 {
                (store.get_block_header(&h), store.get_block_uncles(&h), store.get_block_proposal_txs_ids(&h),
                 store.get_block_extension(&h), store.get_block_txs_hashes(&h), store.get_block(&h))
            } else {
                (snap.get_block_header(&h), snap.get_block_uncles(&h), snap.get_block_proposal_txs_ids(&h),
                 snap.get_block_extension(&h), snap.get_block_txs_hashes(&h), snap.get_block(&h))
            };
            let hdr_s = format!("{:?}", hdr.as_ref().map(|x| (g.block_id.get(&x.hash()).cloned(), x.number(), hex(x.data().as_slice()))));
            let unc_s = format!("{:?}", unc.as_ref().map(|u| u.hashes().into_iter().map(|x| hex(x.as_slice())).collect::<Vec<_>>()));
            let pro_s = format!("{:?}", pro.as_ref().map(|p| hex(p.as_slice())));
            let ext_s = format!("{:?}", ext.as_ref().map(|e| hex(e.as_slice())));
            let txh_s = format!("{:?}", txh.iter().map(|t| g.tx_id.get(t).cloned()).collect::<Vec<_>>());
            let blk_s = format!("{:?}", blk.as_ref().map(|x| hex(&ckb_hash::blake2b_256(x.data().as_slice())[..8])));
            d.insert(format!("b{id}.r{round}.header"), hdr_s);
            d.insert(format!("b{id}.r{round}.uncles"), unc_s);
            d.insert(format!("b{id}.r{round}.proposals"), pro_s);
            d.insert(format!("b{id}.r{round}.extension"), ext_s);
            d.insert(format!("b{id}.r{round}.tx_hashes"), txh_s);
            d.insert(format!("b{id}.r{round}.block"), blk_s);
            // direct predicate: the answers are the stored block's content
            if hdr.as_ref().map(|x| x.data().as_slice() == b.header().data().as_slice()) != Some(true) {
                direct.push(format!("get_block_header of stored block {id} is not the block's header"));
            }
            if unc.as_ref().map(|u| u.data().as_slice() == b.uncles().data().as_slice()) != Some(true) {
                direct.push(format!("get_block_uncles of stored block {id} is not the block's uncle section"));
            }
            if pro.as_ref().map(|p| p.as_slice() == b.data().proposals().as_slice()) != Some(true) {
                direct.push(format!("get_block_proposal_txs_ids of stored block {id} is not the block's proposal section"));
            }
            if ext.as_ref().map(|e| e.as_slice().to_vec()) != b.extension().map(|e| e.as_slice().to_vec()) {
                direct.push(format!("get_block_extension of stored block {id} is not the block's extension"));
            }
            if txh != b.tx_hashes().to_vec() {
                direct.push(format!("get_block_txs_hashes of stored block {id} is not the block's transaction hash list"));
            }
            if blk.as_ref().map(|x| x.data().as_slice() == b.data().as_slice()) != Some(true) {
                direct.push(format!("get_block of stored block {id} is not the block that was stored"));
            }
        }
    }
    // the included-uncle index (COLUMN_UNCLES is written by attach_block and deleted by detach_block):
    // get_uncle_header answers for exactly the uncles embedded in main-chain blocks, twice, alternately
    // through the store and the snapshot
    {
        let mut embedded: std::collections::HashSet<Byte32> = std::collections::HashSet::new();
        for n in 0..=snap.tip_number() {
            if let Some(b) = snap.get_block_hash(n).and_then(|h| snap.get_block(&h)) {
                for u in b.uncles().into_iter() { embedded.insert(u.hash()); }
            }
        }
        let mut seen: std::collections::HashSet<Byte32> = std::collections::HashSet::new();
        let mut k = 0u64;
        for id in 1..=g.blocks.len() as u64 {
            for u in g.block_by_id(id).uncles().into_iter() {
                if !seen.insert(u.hash()) { continue; }
                k += 1;
                for round in 0..2 {
                    *reads += 1;
                    let got = if (k + round) % 2 == 0 { store.get_uncle_header(&u.hash()) } else { snap.get_uncle_header(&u.hash()) };
                    d.insert(format!("uncle{k}.r{round}"), format!("{:?}", got.as_ref().map(|h| hex(h.hash().as_slice()))));
                    if got.is_some() != embedded.contains(&u.hash()) {
                        direct.push(format!("get_uncle_header answers {} for an uncle that is {}embedded in a main-chain block", if got.is_some() { "Some" } else { "None" }, if embedded.contains(&u.hash()) { "" } else { "not " }));
                    }
                }
            }
        }
    }
    for (i, tx) in g.txs.iter().enumerate() {
        let info = store.get_transaction_info(&tx.hash());
        d.insert(format!("t{}.info", i + 1), format!("{:?}", info.map(|x| (g.block_id.get(&x.block_hash).cloned(), x.index, x.block_number))));
    }
    for (k, (op, _)) in g.outs.iter().enumerate() {
        let live = matches!(snap.cell(op, false), CellStatus::Live(_)) && store.get_cell(op).is_some();
        d.insert(format!("o{k}.live"), live.to_string());
        if live {
            let want = g.tx_id.get(&op.tx_hash()).map(|t| {
                let i: u32 = op.index().into();
                g.txs[*t as usize - 1].outputs_data().get(i as usize).map(|x| x.raw_data().to_vec())
            });
            for round in 0..2 {
                *reads += 2;
                let (dat, dh) = if (k as u64 + round) % 2 == 0 {
                    (store.get_cell_data(op), store.get_cell_data_hash(op))
                } else {
                    (snap.get_cell_data(op), snap.get_cell_data_hash(op))
                };
                d.insert(format!("o{k}.r{round}.data"), format!("{:?}", dat.as_ref().map(|(x, y)| (hex(x), hex(y.as_slice())))));
                d.insert(format!("o{k}.r{round}.data_hash"), format!("{:?}", dh.as_ref().map(|y| hex(y.as_slice()))));
                if let Some(Some(w)) = &want {
                    if dat.as_ref().map(|(x, _)| x.to_vec()) != Some(w.clone()) {
                        direct.push(format!("get_cell_data of live cell {k} is not the output's data"));
                    }
                    let wh = if w.is_empty() { [0u8; 32] } else { ckb_hash::blake2b_256(w) };
                    if dh.as_ref().map(|y| y.as_slice().to_vec()) != Some(wh.to_vec()) {
                        direct.push(format!("get_cell_data_hash of live cell {k} is not the hash of the output's data"));
                    }
                }
            }
        }
    }
    d
}

/// replays `g.steps` on a fresh node with the given configuration
pub fn replay(g: &Gen, c: &Config, dir: &Path, content: &HashMap<Byte32, Completed>) -> NodeRun {
    let _ = std::fs::remove_dir_all(dir);
    let init = initial_entries(c, g, content);
    let mut node = Node::on_disk(&g.consensus, dir, store_config(c));
    apply_policy(&node, c, &init);
    let mut run = NodeRun { obs: vec![], direct: vec![], ghost_headers: vec![], ghost_blocks_without_body: vec![], ghost_get_block_panics: vec![], ghost_cell_data: 0, guarded_reads: 0 };
    let mut known: HashMap<u64, Option<bool>> = HashMap::new();
    let mut last_main: Vec<Byte32> = vec![];
    let nsteps = g.steps.len();
    for (si, step) in g.steps.iter().enumerate() {
        let mut o = StepObs::default();
        let mut checkpoint = si + 1 == nsteps;
        match step {
            Step::Block { id, .. } => {
                let b = g.block_by_id(*id);
                o.verdict = match node.process_timed(&b) {
                    Some(Ok(true)) => "accepted:true",
                    Some(Ok(false)) => "accepted:false",
                    Some(Err(_)) => "rejected",
                    None => "no answer within 40 s (a service thread panicked?)",
                };
                if o.verdict.starts_with("no answer") {
                    run.obs.push(o);
                    run.direct.push(format!("the node stopped answering at step {si} (delivery of block {id})"));
                    node.abandon();
                    return run;
                }
            }
            Step::Restart => {
                node.stop();
                node = Node::on_disk(&g.consensus, dir, store_config(c));
                apply_policy(&node, c, &init);
                o.verdict = "restarted";
                checkpoint = true;
            }
            Step::Truncate { to_block } => {
                let h = g.block_by_id(*to_block).hash();
                o.verdict = if node.chain().truncate(h).is_ok() { "truncated" } else { "truncate failed" };
                checkpoint = true;
            }
        }
        let snap = node.shared.snapshot();
        o.tip = *g.block_id.get(&snap.tip_hash()).unwrap_or(&9_000_000);
        let mut changed: Vec<(u64, u64, ExtObs)> = vec![];
        for id in 1..=g.blocks.len() as u64 {
            let b = &g.blocks[id as usize - 1];
            if let Some(e) = ext_obs(node.shared.store(), &b.hash()) {
                if known.get(&id) != Some(&e.verified) {
                    known.insert(id, e.verified);
                    changed.push((b.number(), id, e));
                }
            }
        }
        changed.sort_by_key(|x| (x.0, x.1));
        o.verified_now = changed.into_iter().map(|(_, id, e)| (id, e)).collect();
        // a reorganisation (the old tip is not an ancestor of the new one) is a checkpoint too
        let main: Vec<Byte32> = (0..=snap.tip_number()).map(|n| snap.get_block_hash(n).unwrap()).collect();
        if !last_main.is_empty() && !(main.len() >= last_main.len() && main[..last_main.len()] == last_main[..]) {
            checkpoint = true;
        }
        last_main = main;
        if checkpoint {
            o.battery = Some(battery(g, &node, &mut run.direct, &mut run.guarded_reads));
        }
        run.obs.push(o);
    }
    // unguarded reads, after everything else: blocks that were rejected (deleted), cells that are dead
    {
        let store = node.shared.store();
        for (id, b) in g.blocks.iter().enumerate() {
            let id = id as u64 + 1;
            let h = b.hash();
            if store.get(COLUMN_BLOCK_HEADER, h.as_slice()).is_none() {
                if store.get_block_header(&h).is_some() || store.block_exists(&h) {
                    run.ghost_headers.push(id);
                }
                // get_block of a deleted block: guarded by the cached header only
                match std::panic::catch_unwind(std::panic::AssertUnwindSafe(|| store.get_block(&h))) {
                    Ok(Some(x)) => {
                        if x.transactions().is_empty() {
                            run.ghost_blocks_without_body.push(id);
                        }
                    }
                    Ok(None) => {}
                    Err(_) => run.ghost_get_block_panics.push(id),
                }
            }
        }
        for (op, _) in g.outs.iter() {
            if store.get(COLUMN_CELL_DATA, &op.to_cell_key()).is_none() && store.get_cell_data(op).is_some() {
                run.ghost_cell_data += 1;
            }
        }
    }
    node.stop();
    let _ = std::fs::remove_dir_all(dir);
    run
}

/// what the cache-less node recorded for every (transaction, witnesses) it accepted in a block
pub fn reference_content(g: &Gen, r: &NodeRun) -> (HashMap<Byte32, Completed>, Option<u64>) {
    let mut m = HashMap::new();
    let mut cyc: BTreeMap<u64, u64> = BTreeMap::new();
    for o in &r.obs {
        for (id, e) in &o.verified_now {
            if e.verified != Some(true) { continue; }
            let b = &g.blocks[*id as usize - 1];
            if let Some(cycles) = &e.cycles {
                for (i, tx) in b.transactions().iter().skip(1).enumerate() {
                    if i < e.fees.len() && i < cycles.len() {
                        m.insert(tx.witness_hash(), Completed { cycles: cycles[i], fee: Capacity::shannons(e.fees[i]) });
                        *cyc.entry(cycles[i]).or_default() += 1;
                    }
                }
            }
        }
    }
    let modal = cyc.iter().max_by_key(|(_, n)| **n).map(|(c, _)| *c);
    // transactions that never made it into an accepted block: fee as generated, cycles as every other
    // transaction of the same shape (one always-success lock group)
    if let Some(c) = modal {
        let all: Vec<(Byte32, Byte32)> = g.wtxs.iter().map(|(w, tx)| (w.clone(), tx.hash())).collect();
        for (w, th) in all {
            if !m.contains_key(&w) {
                if let Some(fee) = g.tx_fee.get(&th) {
                    m.insert(w, Completed { cycles: c, fee: Capacity::shannons(*fee) });
                }
            }
        }
    }
    (m, modal)
}

pub fn first_difference(a: &NodeRun, b: &NodeRun) -> Option<(usize, String)> {
    for (i, (x, y)) in a.obs.iter().zip(b.obs.iter()).enumerate() {
        if x.verdict != y.verdict {
            return Some((i, format!("verdict {} vs reference {}", x.verdict, y.verdict)));
        }
        if x.tip != y.tip {
            return Some((i, format!("tip is block {} vs reference block {}", x.tip, y.tip)));
        }
        if x.verified_now != y.verified_now {
            for ((ia, ea), (ib, eb)) in x.verified_now.iter().zip(y.verified_now.iter()) {
                if ia != ib || ea != eb {
                    return Some((i, format!("verification record of block {ia}: {:?} vs reference (block {ib}) {:?}", ea, eb)));
                }
            }
            return Some((i, "different sets of blocks verified in this step".into()));
        }
        match (&x.battery, &y.battery) {
            (Some(p), Some(q)) => {
                for (k, v) in p {
                    if q.get(k) != Some(v) {
                        return Some((i, format!("query {k}: {v} vs reference {:?}", q.get(k))));
                    }
                }
                if p.len() != q.len() {
                    return Some((i, "different sets of queries answered".into()));
                }
            }
            (None, None) => {}
            _ => return Some((i, "a reorganisation happened on one node only".into())),
        }
    }
    if a.obs.len() != b.obs.len() {
        return Some((a.obs.len().min(b.obs.len()), "different number of steps".into()));
    }
    None
}

// ---- Coq cases ---------------------------------------------------------------
pub struct KeyIds(pub HashMap<Byte32, u64>);
impl KeyIds {
    pub fn id(&mut self, k: &Byte32) -> u64 {
        let n = self.0.len() as u64 + 1;
        *self.0.entry(k.clone()).or_insert(n)
    }
}

fn coq_completed(e: &Completed) -> String {
    format!("mkC {} {}", coq_n(e.cycles as u128), coq_n(e.fee.as_u64() as u128))
}

pub fn coq_case(g: &Gen, c: &Config, r: &NodeRun, content: &HashMap<Byte32, Completed>, keys: &mut KeyIds, maxc: u64) -> String {
    let init = initial_entries(c, g, content);
    // LruCache::put makes the entry the most recent one: the model's list has the most recent first
    let init_coq: Vec<String> = init.iter().rev().map(|(k, e)| format!("({}, {})", coq_n(keys.id(k) as u128), coq_completed(e))).collect();
    let otx = |keys: &mut KeyIds, tx: &ckb_types::core::TransactionView, tr: bool| -> String {
        let cont = content.get(&tx.witness_hash());
        format!("mkOT {} {} {} {}", coq_n(keys.id(&tx.witness_hash()) as u128), coq_n(keys.id(&tx.hash()) as u128),
            match cont { Some(e) => format!("(Some ({}))", coq_completed(e)), None => "None".into() }, coq_bool(tr))
    };
    let mut items: Vec<String> = vec![];
    for (step, o) in g.steps.iter().zip(r.obs.iter()) {
        match step {
            Step::Restart => items.push("VRestart".into()),
            Step::Truncate { .. } => {}
            Step::Block { id, valid, .. } => {
                if !*valid {
                    let b: BlockView = g.block_by_id(*id);
                    let bits = &g.tr_bits[id];
                    let txs: Vec<String> = b.transactions().iter().skip(1).enumerate().map(|(i, tx)| otx(keys, tx, bits[i])).collect();
                    items.push(format!("VEv (mkVE {} false [{}] {} [])", coq_bool(g.resolves[id]), txs.join("; "), coq_bool(o.verdict != "rejected")));
                }
                for (vid, e) in &o.verified_now {
                    if e.verified != Some(true) { continue; }
                    let b: BlockView = g.block_by_id(*vid);
                    let bits = g.tr_bits.get(vid).cloned().unwrap_or_else(|| vec![true; b.transactions().len() - 1]);
                    let txs: Vec<String> = b.transactions().iter().skip(1).enumerate().map(|(i, tx)| otx(keys, tx, bits[i])).collect();
                    let cyc = e.cycles.clone().unwrap_or_default();
                    let rec: Vec<String> = e.fees.iter().enumerate().map(|(i, f)| format!("mkC {} {}", coq_n(*cyc.get(i).unwrap_or(&u64::MAX) as u128), coq_n(*f as u128))).collect();
                    items.push(format!("VEv (mkVE true false [{}] true [{}])", txs.join("; "), rec.join("; ")));
                }
            }
        }
    }
    format!("mkVCase {} {} [{}] [{}]", coq_n(maxc as u128),
        match c.vcap { Some(n) => format!("(Some {})", coq_nat(n as u64)), None => "None".into() },
        init_coq.join("; "), items.join("; "))
}

pub fn config_json(c: &Config) -> Value {
    json!({"name": c.name, "store_cache_sizes": c.store_size, "verification_cache_capacity": c.vcap, "policy": format!("{:?}", c.policy)})
}
