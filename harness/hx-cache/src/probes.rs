//! Directed scenarios for the three places where the model says a cache CAN
//! change an answer (Tx/CacheProofs.v: skip_script_poisons_refuted,
//! negative_cache_refuted, ghost_then_negative_refuted).  Each is run on a real
//! node next to a node without caches; a difference is reported with a
//! signature (known_findings.json).
use crate::node::*;
use crate::run::{store_config, Config, Policy};
use ckb_store::ChainStore;
use ckb_types::core::{BlockView, TransactionView};
use ckb_types::packed::OutPoint;
use ckb_types::prelude::*;
use ckb_verification_traits::Switch;
use serde_json::{json, Value};
use std::path::Path;

fn cfg(name: &'static str, size: Option<usize>) -> Config {
    Config { name, store_size: size, vcap: if size == Some(0) { Some(0) } else { None }, policy: Policy::Cold }
}

fn fund_tx(funds: &[TransactionView], k: usize, fee: u64, tag: u64) -> TransactionView {
    let f = &funds[k];
    let cap: u64 = f.outputs().get(0).unwrap().capacity().into();
    spend(&[(OutPoint::new(f.hash(), 0), cap)], 1, fee, tag)
}

fn plan(proposals: Vec<ckb_types::packed::ProposalShortId>, txs: Vec<TransactionView>, nonce: u128) -> BlockPlan {
    BlockPlan { proposals, txs, uncles: vec![], extra_unresolvable: vec![], ts_delta: 1000, nonce }
}

/// A transaction committed in a block processed with Switch::DISABLE_SCRIPT
/// (what the chain service uses below an assume-valid target) and committed
/// again, with full verification, on a competing branch.
pub fn probe_assume_valid(scratch: &Path) -> (Vec<Value>, Value) {
    let ccfg = ChainCfg { window: (2, 10), ..Default::default() };
    let (consensus, funds) = make_consensus(&ccfg);
    let mut viol = vec![];
    let mut results = vec![];
    for (name, size) in [("default caches", None), ("all caches disabled", Some(0usize))] {
        let c = cfg(name, size);
        let dir = scratch.join(format!("probe-av-{}", size.map(|x| x.to_string()).unwrap_or("d".into())));
        let _ = std::fs::remove_dir_all(&dir);
        let x = Node::on_disk(&consensus, &dir, store_config(&c));
        crate::run::apply_policy(&x, &c, &[]);
        let bd = Node::temp(&consensus);
        let t = fund_tx(&funds, 0, 1234, 77);
        let b1 = build_block(&bd, &plan(vec![t.proposal_short_id()], vec![], 1));
        bd.process(&b1).expect("b1"); x.process(&b1).expect("b1");
        let b2 = build_block(&bd, &plan(vec![], vec![], 2));
        bd.process(&b2).expect("b2"); x.process(&b2).expect("b2");
        let b3 = build_block(&bd, &plan(vec![], vec![t.clone()], 3));
        let r3 = x.process_with_switch(&b3, Switch::DISABLE_SCRIPT);
        let b3p = build_block(&bd, &plan(vec![], vec![t.clone()], 4));
        bd.process(&b3p).expect("b3'");
        let b4p = build_block(&bd, &plan(vec![], vec![], 5));
        bd.process(&b4p).expect("b4'");
        let r3p = x.process(&b3p);
        let r4p = x.process(&b4p);
        let on_x = x.shared.store().get_block_ext(&b3p.hash()).and_then(|e| e.cycles);
        let on_ref = bd.shared.store().get_block_ext(&b3p.hash()).and_then(|e| e.cycles);
        let tip_ok = x.tip().hash() == b4p.hash();
        results.push(json!({"node": name, "assume_valid_block": format!("{:?}", r3.is_ok()), "fork_blocks": [r3p.is_ok(), r4p.is_ok()], "switched_to_fork": tip_ok,
            "recorded_cycles_of_fully_verified_fork_block": on_x, "recorded_by_a_node_that_never_skipped_scripts": on_ref}));
        if tip_ok && on_x != on_ref {
            viol.push(json!({
                "what": format!("[{name}] a block verified with full script verification records cycles {:?} for a transaction whose scripts cost {:?}: the result cached while an earlier block was processed with Switch::DISABLE_SCRIPT (assume-valid) is reused, and the scripts are not run", on_x, on_ref),
                "signature": "C14-assume-valid-zero-cycles-cached",
                "detail": {"stream": "probe", "probe": "assume_valid", "steps": ["b1 proposes T", "b2", "b3 commits T, processed with Switch::DISABLE_SCRIPT", "b3' (sibling of b3) commits T", "b4' on b3' (reorganisation; b3' fully verified)"]}}));
        }
        x.stop(); bd.stop();
        let _ = std::fs::remove_dir_all(&dir);
    }
    (viol, json!(results))
}

/// get_block_extension / get_block_txs_hashes asked for a block hash before
/// the block is stored; then the block arrives.
pub fn probe_negative(scratch: &Path) -> (Vec<Value>, Value) {
    let ccfg = ChainCfg { window: (2, 10), ..Default::default() };
    let (consensus, _funds) = make_consensus(&ccfg);
    let mut viol = vec![];
    let mut results = vec![];
    for (name, size) in [("default caches", None), ("all caches disabled", Some(0usize))] {
        let c = cfg(name, size);
        let dir = scratch.join(format!("probe-neg-{}", size.map(|x| x.to_string()).unwrap_or("d".into())));
        let _ = std::fs::remove_dir_all(&dir);
        let x = Node::on_disk(&consensus, &dir, store_config(&c));
        crate::run::apply_policy(&x, &c, &[]);
        let bd = Node::temp(&consensus);
        let b1 = build_block(&bd, &plan(vec![], vec![], 1));
        bd.process(&b1).expect("b1"); x.process(&b1).expect("b1");
        let b2: BlockView = build_block(&bd, &plan(vec![], vec![], 2));
        let has_ext = b2.extension().is_some();
        // the unguarded reads
        let e0 = x.shared.store().get_block_extension(&b2.hash());
        let t0 = x.shared.store().get_block_txs_hashes(&b2.hash());
        let verdict = x.process(&b2);
        let stored = x.shared.store().get(ckb_db_schema::COLUMN_BLOCK_HEADER, b2.hash().as_slice()).is_some();
        let e1 = x.shared.store().get_block_extension(&b2.hash());
        let e_col = x.shared.store().get(ckb_db_schema::COLUMN_BLOCK_EXTENSION, b2.hash().as_slice()).is_some();
        let t1 = x.shared.store().get_block_txs_hashes(&b2.hash());
        results.push(json!({"node": name, "block_has_extension": has_ext, "asked_before_arrival": [e0.is_some(), t0.len()],
            "verdict_of_the_valid_block": format!("{}", match &verdict { Ok(b) => format!("accepted:{b}"), Err(e) => format!("rejected: {e}") }),
            "stored_afterwards": stored, "extension_getter_afterwards": e1.is_some(), "extension_column_afterwards": e_col, "tx_hashes_getter_afterwards": t1.len()}));
        if verdict.is_err() {
            viol.push(json!({
                "what": format!("[{name}] a valid block is rejected after get_block_extension / get_block_txs_hashes had been asked for its hash before it arrived: the getters cached the negative answer, and the chain service verifies the block as re-assembled through those getters"),
                "signature": "C14-negative-answer-cached-before-block-stored",
                "detail": {"stream": "probe", "probe": "negative", "error": format!("{}", verdict.as_ref().unwrap_err())}}));
        } else if stored && (e1.is_some() != e_col || t1.len() != b2.transactions().len()) {
            viol.push(json!({
                "what": format!("[{name}] get_block_extension / get_block_txs_hashes keep answering 'nothing' for a stored block because they were asked before the block was stored"),
                "signature": "C14-negative-answer-cached-before-block-stored",
                "detail": {"stream": "probe", "probe": "negative"}}));
        }
        x.stop(); bd.stop();
        let _ = std::fs::remove_dir_all(&dir);
    }
    (viol, json!(results))
}

/// Store-level replay of the model's `ghost_then_negative_refuted`, with the calls the chain service
/// makes: insert_block; delete_unverified_block (get_block, delete_block); the extension LRU (30
/// entries) turns over; somebody asks get_block(hash); the block is stored again (a re-delivered
/// orphan); get_block(hash) — what the chain service would verify.
pub fn probe_ghost_chain(scratch: &Path) -> (Vec<Value>, Value) {
    let ccfg = ChainCfg { window: (2, 10), ..Default::default() };
    let (consensus, _funds) = make_consensus(&ccfg);
    let mut viol = vec![];
    let mut results = vec![];
    for (name, size) in [("default caches", None), ("all caches disabled", Some(0usize))] {
        let c = cfg(name, size);
        let dir = scratch.join(format!("probe-gc-{}", size.map(|x| x.to_string()).unwrap_or("d".into())));
        let _ = std::fs::remove_dir_all(&dir);
        let x = Node::on_disk(&consensus, &dir, store_config(&c));
        let bd = Node::temp(&consensus);
        let b1 = build_block(&bd, &plan(vec![], vec![], 1));
        bd.process(&b1).expect("b1"); x.process(&b1).expect("b1");
        let b2: BlockView = build_block(&bd, &plan(vec![], vec![], 2));
        let store = x.shared.store();
        let h = b2.hash();
        {
            let txn = store.begin_transaction();
            txn.insert_block(&b2).unwrap();
            txn.commit().unwrap();
        }
        // chain::delete_unverified_block
        {
            let txn = store.begin_transaction();
            let loaded = txn.get_block(&h).expect("stored");
            txn.delete_block(&loaded).unwrap();
            txn.commit().unwrap();
        }
        // other traffic on the extension cache
        for i in 0..40u8 {
            let other = ckb_types::packed::Byte32::new([i.wrapping_add(1); 32]);
            let _ = store.get_block_extension(&other);
        }
        let ghost = std::panic::catch_unwind(std::panic::AssertUnwindSafe(|| store.get_block(&h)));
        let ghost_desc = match &ghost { Ok(Some(b)) => format!("Some(block with {} transactions, extension {})", b.transactions().len(), b.extension().is_some()), Ok(None) => "None".into(), Err(_) => "panic".into() };
        {
            let txn = store.begin_transaction();
            txn.insert_block(&b2).unwrap();
            txn.commit().unwrap();
        }
        let again = store.get_block(&h);
        let same = again.as_ref().map(|b| b.data().as_slice() == b2.data().as_slice());
        results.push(json!({"node": name, "get_block_of_deleted_block": ghost_desc, "get_block_after_storing_it_again_equals_the_block": same,
            "extension_after_storing_again": again.as_ref().map(|b| b.extension().is_some()), "block_has_extension": b2.extension().is_some()}));
        if same != Some(true) || ghost_desc != "None" {
            viol.push(json!({
                "what": format!("[{name}] store-level: after insert_block, delete_unverified_block's get_block+delete_block and 40 other extension reads, get_block(hash) of the deleted block answers {ghost_desc}; after the block is stored again get_block(hash) {} the stored block (extension present: {:?}, the block has one: {})",
                    if same == Some(true) { "equals" } else { "DIFFERS from" }, again.as_ref().map(|b| b.extension().is_some()), b2.extension().is_some()),
                "signature": "C14-deleted-block-served-from-cache",
                "detail": {"stream": "probe", "probe": "ghost_chain"}}));
        }
        x.stop(); bd.stop();
        let _ = std::fs::remove_dir_all(&dir);
    }
    (viol, json!(results))
}
