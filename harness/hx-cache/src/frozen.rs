//! Read caches in front of a store with a freezer: the same history of block writes, freezing
//! (Freezer::freeze), wiping of the frozen blocks' part rows (StoreWriteBatch::delete_block_body, what
//! Shared::wipe_out_frozen_data does) and reads is applied to three ChainDBs that differ only in their
//! StoreConfig (defaults; every read cache one entry; every read cache disabled).  Every read is on a
//! block that is stored (header row present, parts in the columns or in the freezer).  Predicate: every
//! answer is the block's content and the three stores answer alike.  Every (history, configuration) is
//! also recomputed by the Coq model (Tx/FrozenCache.v check_fzcase).
use ckb_app_config::StoreConfig;
use ckb_db::RocksDB;
use ckb_db_schema::COLUMNS;
use ckb_freezer::Freezer;
use ckb_store::{ChainDB, ChainStore};
use ckb_types::{
    bytes::Bytes,
    core::{BlockBuilder, BlockView, Capacity, HeaderBuilder, TransactionBuilder},
    packed::{Byte32, CellInput, CellOutput, OutPoint, ProposalShortId},
    prelude::*,
};
use hx_common::*;
use serde_json::{json, Value};
use std::collections::{BTreeMap, HashMap};
use std::path::Path;

#[derive(Default)]
pub struct FzOut {
    pub viol: Vec<Value>,
    pub stats: BTreeMap<String, u64>,
    pub cases: Vec<(String, Value)>,
    pub samples: Vec<Value>,
    pub distinct: Vec<String>,
}

#[derive(Clone, Copy, Debug, PartialEq)]
enum Getter { Header, Uncles, Proposals, Ext, Txs, Body, Block, Packed }
#[derive(Clone, Copy, Debug, PartialEq)]
enum Via { Store, Snapshot, Txn }
#[derive(Clone, Debug)]
enum Op { Insert(usize), Freeze(usize), Wipe(usize), Read(usize, Getter, Via) }

fn configs() -> Vec<(&'static str, StoreConfig)> {
    let sized = |n: usize| StoreConfig {
        header_cache_size: n,
        cell_data_cache_size: n,
        block_proposals_cache_size: n,
        block_tx_hashes_cache_size: n,
        block_uncles_cache_size: n,
        block_extensions_cache_size: n,
        freezer_enable: true,
        ..Default::default()
    };
    vec![("defaults", StoreConfig { freezer_enable: true, ..Default::default() }), ("one-entry", sized(1)), ("disabled", sized(0))]
}

fn gen_chain(rng: &mut Rng, len: usize, salt: u64) -> Vec<BlockView> {
    let mut blocks: Vec<BlockView> = vec![];
    let mut parent: Byte32 = { let mut h = [0u8; 32]; h[..8].copy_from_slice(&salt.to_le_bytes()); h.pack() };
    for k in 1..=len as u64 {
        let ntx = rng.range(1, 3);
        let txs: Vec<_> = (0..ntx).map(|t| {
            let mut b = TransactionBuilder::default();
            if t == 0 { b = b.input(CellInput::new_cellbase_input(k)); } else {
                let mut h = [0u8; 32]; h[..8].copy_from_slice(&rng.next().to_le_bytes());
                b = b.input(CellInput::new(OutPoint::new(h.pack(), t as u32), 0));
            }
            b.output(CellOutput::new_builder().capacity(Capacity::shannons(salt * 1000 + k * 10 + t)).build())
                .output_data(Bytes::from(vec![t as u8; (rng.below(4)) as usize]).pack())
                .witness(Bytes::from(rng.next().to_le_bytes().to_vec()).pack())
                .build()
        }).collect();
        let nunc = rng.below(3);
        let uncles: Vec<_> = (0..nunc).map(|u| {
            BlockBuilder::default().header(HeaderBuilder::default().number(k).nonce(rng.next() as u128 + u as u128).build())
                .proposal(ProposalShortId::new([u as u8 + 1; 10])).build().as_uncle()
        }).collect();
        let nprop = rng.below(4);
        let props: Vec<ProposalShortId> = (0..nprop).map(|_| { let mut p = [0u8; 10]; p[..8].copy_from_slice(&rng.next().to_le_bytes()); ProposalShortId::new(p) }).collect();
        let mut bb = BlockBuilder::default()
            .header(HeaderBuilder::default().number(k).parent_hash(parent.clone()).timestamp(salt * 100 + k).build())
            .transactions(txs).uncles(uncles).proposals(props);
        // three shapes: no extension field, a present extension, a present but short extension
        match rng.below(5) {
            0 | 1 => {}
            2 => bb = bb.extension(Some(Bytes::from(vec![k as u8; 1]).pack())),
            _ => bb = bb.extension(Some(Bytes::from((0..rng.range(32, 96)).map(|i| (i as u64 ^ k ^ salt) as u8).collect::<Vec<u8>>()).pack())),
        }
        let b = bb.build();
        parent = b.hash();
        blocks.push(b);
    }
    blocks
}

fn gen_ops(rng: &mut Rng, len: usize) -> Vec<Op> {
    let mut ops = vec![];
    let (mut inserted, mut frozen) = (0usize, 0usize); // blocks [0, inserted) stored, [0, frozen) in the freezer
    let mut wiped = vec![false; len];
    let getters = [Getter::Header, Getter::Uncles, Getter::Proposals, Getter::Ext, Getter::Txs, Getter::Body, Getter::Block, Getter::Packed];
    let vias = [Via::Store, Via::Store, Via::Snapshot, Via::Txn];
    let mut steps = 0;
    loop {
        steps += 1;
        let all_done = inserted == len && frozen == len && wiped.iter().all(|w| *w);
        if all_done && steps > 8 * len { break; }
        match rng.below(10) {
            0 | 1 if inserted < len => { ops.push(Op::Insert(inserted)); inserted += 1; }
            2 if frozen < inserted => { let upto = rng.range(frozen as u64 + 1, inserted as u64) as usize; ops.push(Op::Freeze(upto)); frozen = upto; }
            3 | 4 => {
                let cands: Vec<usize> = (0..frozen).filter(|i| !wiped[*i]).collect();
                if !cands.is_empty() { let i = *rng.pick(&cands); ops.push(Op::Wipe(i)); wiped[i] = true; }
            }
            _ if inserted > 0 => {
                // reads favour the blocks whose placement changed last; an extension is often asked twice in a row
                let i = if rng.chance(1, 2) && frozen > 0 { rng.below(frozen as u64) as usize } else { rng.below(inserted as u64) as usize };
                let g = *rng.pick(&getters);
                let v = *rng.pick(&vias);
                ops.push(Op::Read(i, g, v));
                if rng.chance(1, 2) { ops.push(Op::Read(i, g, *rng.pick(&vias))); }
            }
            _ => {}
        }
        if steps > 40 * len + 200 { break; }
    }
    // a closing battery: every getter on every block twice
    for i in 0..inserted { for g in getters { ops.push(Op::Read(i, g, Via::Store)); ops.push(Op::Read(i, g, Via::Snapshot)); } }
    ops
}

struct Ids(HashMap<String, u64>);
impl Ids {
    fn id(&mut self, s: String) -> u64 { let n = self.0.len() as u64 + 1; *self.0.entry(s).or_insert(n) }
}

/// the answer of one read, as comparable strings: what the getter returned, rendered for the model
struct Ans { shown: String, coq: String }

fn ids_list(ids: &mut Ids, xs: Vec<String>) -> String { let v: Vec<u64> = xs.into_iter().map(|x| ids.id(x)).collect(); coq_list(&v, |x| coq_n(*x as u128)) }

fn block_parts(ids: &mut Ids, b: &BlockView) -> (u64, String, String, String, String) {
    let h = ids.id(format!("hdr:{}", hex(b.header().data().as_slice())));
    let u = ids_list(ids, b.uncles().data().into_iter().map(|u| format!("unc:{}", hex(u.as_slice()))).collect());
    let p = ids_list(ids, b.data().proposals().into_iter().map(|p| format!("prop:{}", hex(p.as_slice()))).collect());
    let e = match b.extension() { Some(e) => format!("(Some {})", coq_n(ids.id(format!("ext:{}", hex(e.as_slice()))) as u128)), None => "None".into() };
    let t = ids_list(ids, b.transactions().iter().map(|t| format!("tx:{}", hex(t.data().as_slice()))).collect());
    (h, u, p, e, t)
}

fn read<S: ChainStore>(s: &S, ids: &mut Ids, hnum: u64, hash: &Byte32, g: Getter) -> Ans {
    let n = coq_n(hnum as u128);
    match g {
        Getter::Header => {
            let a = s.get_block_header(hash);
            let shown = format!("{:?}", a.as_ref().map(|h| hex(h.data().as_slice())));
            let c = match a { Some(h) => format!("(Some {})", coq_n(ids.id(format!("hdr:{}", hex(h.data().as_slice()))) as u128)), None => "None".into() };
            Ans { shown, coq: format!("ZHeader {n} {c}") }
        }
        Getter::Uncles => {
            let a = s.get_block_uncles(hash);
            let shown = format!("{:?}", a.as_ref().map(|u| hex(u.data().as_slice())));
            let c = match a { Some(u) => format!("(Some {})", ids_list(ids, u.data().into_iter().map(|u| format!("unc:{}", hex(u.as_slice()))).collect())), None => "None".into() };
            Ans { shown, coq: format!("ZUncles {n} {c}") }
        }
        Getter::Proposals => {
            let a = s.get_block_proposal_txs_ids(hash);
            let shown = format!("{:?}", a.as_ref().map(|p| hex(p.as_slice())));
            let c = match a { Some(p) => format!("(Some {})", ids_list(ids, p.into_iter().map(|p| format!("prop:{}", hex(p.as_slice()))).collect())), None => "None".into() };
            Ans { shown, coq: format!("ZProposals {n} {c}") }
        }
        Getter::Ext => {
            let a = s.get_block_extension(hash);
            let shown = format!("{:?}", a.as_ref().map(|e| hex(e.as_slice())));
            let c = match a { Some(e) => format!("(Some {})", coq_n(ids.id(format!("ext:{}", hex(e.as_slice()))) as u128)), None => "None".into() };
            Ans { shown, coq: format!("ZExt {n} {c}") }
        }
        Getter::Txs => {
            // tx hashes: rendered through the transactions they are the hashes of (the content side interns
            // transactions by their bytes; a hash that is none of the block's gets a fresh id)
            let a = s.get_block_txs_hashes(hash);
            let shown = format!("{:?}", a.iter().map(|h| format!("{:x}", h)).collect::<Vec<_>>());
            Ans { shown, coq: format!("ZTxs {n} {}", ids_list(ids, a.into_iter().map(|h| format!("txhash:{:x}", h)).collect())) }
        }
        Getter::Body => {
            let a = s.get_block_body(hash);
            let shown = format!("{:?}", a.iter().map(|t| hex(t.data().as_slice())).collect::<Vec<_>>());
            Ans { shown, coq: format!("ZBody {n} {}", ids_list(ids, a.iter().map(|t| format!("txhash:{:x}", t.hash())).collect())) }
        }
        Getter::Block | Getter::Packed => {
            let a: Option<BlockView> = if g == Getter::Block { s.get_block(hash) } else { s.get_packed_block(hash).map(|b| b.into_view_without_reset_header()) };
            let shown = format!("{:?}", a.as_ref().map(|b| hex(b.data().as_slice())));
            let c = match a {
                Some(b) => {
                    let (h, u, p, e, _) = block_parts(ids, &b);
                    let t = ids_list(ids, b.transactions().iter().map(|t| format!("txhash:{:x}", t.hash())).collect());
                    format!("(Some (mkBA {} (Some {u}) (Some {p}) {e} {t}))", coq_n(h as u128))
                }
                None => "None".into(),
            };
            Ans { shown, coq: format!("ZBlock {n} {c}") }
        }
    }
}

fn expected(b: &BlockView, g: Getter) -> String {
    match g {
        Getter::Header => format!("{:?}", Some(hex(b.header().data().as_slice()))),
        Getter::Uncles => format!("{:?}", Some(hex(b.uncles().data().as_slice()))),
        Getter::Proposals => format!("{:?}", Some(hex(b.data().proposals().as_slice()))),
        Getter::Ext => format!("{:?}", b.extension().map(|e| hex(e.as_slice()))),
        Getter::Txs => format!("{:?}", b.tx_hashes().iter().map(|h| format!("{:x}", h)).collect::<Vec<_>>()),
        Getter::Body => format!("{:?}", b.transactions().iter().map(|t| hex(t.data().as_slice())).collect::<Vec<_>>()),
        Getter::Block | Getter::Packed => format!("{:?}", Some(hex(b.data().as_slice()))),
    }
}

pub fn run(seed: u64, thorough: bool, scratch: &Path, only: Option<u64>) -> FzOut {
    let mut out = FzOut::default();
    let n_hist = match only { Some(i) => i + 1, None => shard_share(if thorough { 600 } else { 40 }) };
    for hi in 0..n_hist {
        if let Some(o) = only { if o != hi { continue; } }
        let mut rng = Rng::new(seed ^ 0xf70c_e000 ^ (hi.wrapping_mul(0x9e37_79b9_7f4a_7c15)));
        let len = rng.range(2, 9) as usize;
        let blocks = gen_chain(&mut rng, len, hi + 1);
        let ops = gen_ops(&mut rng, len);
        let n_reads = ops.iter().filter(|o| matches!(o, Op::Read(..))).count();
        out.distinct.push(format!("fz:{}:{}:{}", len, ops.len(), blocks.last().map(|b| format!("{:x}", b.hash())).unwrap_or_default()));
        let mut shown_by_cfg: Vec<Vec<String>> = vec![];
        for (cname, cfg) in configs() {
            let desc = json!({"stream": "frozen-cache", "history_index": hi, "seed": seed, "configuration": cname, "blocks": len, "ops": ops.len(), "reads": n_reads,
                              "with_extension": blocks.iter().filter(|b| b.extension().is_some()).count()});
            let dir = scratch.join(format!("fz-{hi}-{cname}"));
            let _ = std::fs::remove_dir_all(&dir);
            std::fs::create_dir_all(dir.join("db")).unwrap();
            std::fs::create_dir_all(dir.join("freezer")).unwrap();
            let r = std::panic::catch_unwind(std::panic::AssertUnwindSafe(|| {
                let db = RocksDB::open_in(dir.join("db"), COLUMNS);
                let freezer = Freezer::open_in(dir.join("freezer")).expect("freezer");
                let store = ChainDB::new_with_freezer(db, freezer.clone(), cfg);
                let mut ids = Ids(HashMap::new());
                // content first, so that its ids are the small ones; tx hashes are interned as the transactions
                let mut bds = vec![];
                for (i, b) in blocks.iter().enumerate() {
                    for t in b.transactions() { let id = ids.id(format!("tx:{}", hex(t.data().as_slice()))); ids.0.insert(format!("txhash:{:x}", t.hash()), id); }
                    let (h, u, p, e, t) = block_parts(&mut ids, b);
                    bds.push(format!("({}, mkBD {} {u} {p} {e} {t})", coq_n(i as u128 + 1), coq_n(h as u128)));
                }
                let mut zops: Vec<String> = vec![];
                let mut shown: Vec<String> = vec![];
                let mut bad: Vec<String> = vec![];
                for (oi, op) in ops.iter().enumerate() {
                    match op {
                        Op::Insert(i) => {
                            let txn = store.begin_transaction();
                            txn.insert_block(&blocks[*i]).unwrap();
                            txn.commit().unwrap();
                            zops.push(format!("ZInsert {}", coq_n(*i as u128 + 1)));
                        }
                        Op::Freeze(upto) => {
                            let from = freezer.number() as usize; // next number to freeze
                            let res = freezer.freeze(*upto as u64 + 1, |n| blocks.get(n as usize - 1).cloned()).expect("freeze");
                            if freezer.number() as usize != *upto + 1 || res.len() != *upto + 1 - from { bad.push(format!("op {oi}: freeze up to {upto} left the freezer at {}", freezer.number())); }
                            for i in from - 1..*upto { zops.push(format!("ZFreeze {}", coq_n(i as u128 + 1))); }
                        }
                        Op::Wipe(i) => {
                            let b = &blocks[*i];
                            let mut batch = store.new_write_batch();
                            batch.delete_block_body(b.number(), &b.hash(), b.transactions().len() as u32).unwrap();
                            store.write_sync(&batch).unwrap();
                            zops.push(format!("ZWipe {}", coq_n(*i as u128 + 1)));
                        }
                        Op::Read(i, g, via) => {
                            let b = &blocks[*i];
                            let a = match via {
                                Via::Store => read(&store, &mut ids, *i as u64 + 1, &b.hash(), *g),
                                Via::Snapshot => read(&store.get_snapshot(), &mut ids, *i as u64 + 1, &b.hash(), *g),
                                Via::Txn => read(&store.begin_transaction(), &mut ids, *i as u64 + 1, &b.hash(), *g),
                            };
                            let want = expected(b, *g);
                            if a.shown != want {
                                bad.push(format!("op {oi}: {:?} of block #{} via {:?} answers {} but the stored block says {}", g, i + 1, via, trunc(&a.shown), trunc(&want)));
                            }
                            shown.push(a.shown);
                            zops.push(a.coq);
                        }
                    }
                }
                drop(store);
                (format!("mkFZ [{}] [{}]", bds.join("; "), zops.join("; ")), shown, bad)
            }));
            let _ = std::fs::remove_dir_all(&dir);
            *out.stats.entry("frozen_cache_cases".into()).or_default() += 1;
            *out.stats.entry("frozen_cache_reads".into()).or_default() += n_reads as u64;
            match r {
                Err(p) => {
                    let msg = p.downcast_ref::<String>().cloned().or_else(|| p.downcast_ref::<&str>().map(|s| s.to_string())).unwrap_or_default();
                    out.viol.push(json!({"what": format!("a store getter panicked on a store with a freezer ({cname} read caches): {msg}"), "detail": desc}));
                    shown_by_cfg.push(vec![]);
                }
                Ok((case, shown, bad)) => {
                    if let Some(first) = bad.first() {
                        out.viol.push(json!({"what": format!("store with a freezer, {cname} read caches: {first}"), "detail": {"case": desc, "differences": bad.len(), "all": bad.iter().take(6).collect::<Vec<_>>()}}));
                    }
                    shown_by_cfg.push(shown);
                    out.cases.push((case, desc.clone()));
                    if out.samples.len() < 2 && cname == "defaults" { out.samples.push(desc); }
                }
            }
        }
        // the three configurations against each other (the node with caches disabled is the reference)
        if shown_by_cfg.len() == 3 {
            for c in 0..2 {
                if !shown_by_cfg[c].is_empty() && !shown_by_cfg[2].is_empty() && shown_by_cfg[c] != shown_by_cfg[2] {
                    let k = shown_by_cfg[c].iter().zip(shown_by_cfg[2].iter()).position(|(a, b)| a != b).unwrap_or(0);
                    out.viol.push(json!({"what": format!("read #{k} of the history is answered differently with {} read caches than with the read caches disabled", configs()[c].0),
                                         "detail": {"stream": "frozen-cache", "history_index": hi, "seed": seed}}));
                }
            }
        }
    }
    out
}

fn trunc(s: &str) -> String { if s.len() > 90 { format!("{}…", &s[..90]) } else { s.to_string() } }
