//! History generation.  A real on-disk node (default caches, cold verification
//! cache) is driven the way hx-chain's history driver does — extensions with
//! fee-paying transactions, competing branches that take over, truncations,
//! restarts — and every delivery is recorded as a step, so that the very same
//! step list can be replayed on nodes that differ only in caching.
//!
//! On top of hx-chain's generator:
//!  * transactions with absolute / relative block-number `since`; when such a
//!    transaction is proposed, inside the window, spendable but NOT yet mature
//!    at the commit position, an otherwise valid block committing it is
//!    delivered (must be rejected, also when its script result is cached);
//!  * blocks committing a proposed transaction one of whose inputs is dead on
//!    that branch (must be rejected);
//!  * on competing branches a pending transaction may be committed with
//!    different witnesses (same transaction hash, different witness hash).
use crate::node::*;
use ckb_app_config::StoreConfig;
use ckb_chain_spec::consensus::Consensus;
use ckb_store::ChainStore;
use ckb_types::bytes::Bytes;
use ckb_types::core::cell::{CellProvider, CellStatus};
use ckb_types::core::{BlockView, TransactionView, UncleBlockView};
use ckb_types::packed::{Byte32, OutPoint};
use ckb_types::prelude::*;
use hx_common::Rng;
use serde_json::{json, Value};
use std::collections::{BTreeMap, HashMap, HashSet};
use std::path::PathBuf;

pub const SINCE_REL: u64 = 1 << 63;

#[derive(Clone)]
pub struct PendingTx {
    pub tx: TransactionView,
    pub proposed_at: u64,
}

#[derive(Clone, Debug)]
pub enum Step {
    /// deliver block `id`; `valid`: what the generator expects; `why`: kind of block
    Block { id: u64, valid: bool, why: &'static str },
    Restart,
    Truncate { to_block: u64 },
}

pub struct Gen {
    pub cfg: ChainCfg,
    pub consensus: Consensus,
    pub dir: PathBuf,
    pub node: Option<Node>,
    /// every block ever built (all branches, also the invalid ones), id = index + 1; genesis is id 0
    pub blocks: Vec<BlockView>,
    pub block_id: HashMap<Byte32, u64>,
    /// every transaction (by hash) ever built or in genesis, id = index + 1
    pub txs: Vec<TransactionView>,
    pub tx_id: HashMap<Byte32, u64>,
    /// fee of every generated transaction, by transaction hash
    pub tx_fee: HashMap<Byte32, u64>,
    /// every (transaction, witnesses) ever put into a block, by witness hash
    pub wtxs: HashMap<Byte32, TransactionView>,
    pub pending: HashMap<Byte32, Vec<PendingTx>>,
    pub outs: Vec<(OutPoint, u64)>,
    pub used_uncles: HashSet<Byte32>,
    pub stash: Vec<BlockView>,
    pub steps: Vec<Step>,
    pub jops: Vec<Value>,
    pub stats: BTreeMap<String, u64>,
    pub next_tag: u64,
    /// per (block id): for each non-cellbase transaction, did the generator's own since evaluation pass
    pub tr_bits: HashMap<u64, Vec<bool>>,
    /// per (block id): do all transactions resolve (inputs live / created earlier in the block)
    pub resolves: HashMap<u64, bool>,
}

fn bump(stats: &mut BTreeMap<String, u64>, k: &str) {
    *stats.entry(k.to_string()).or_default() += 1;
}

/// the generator's own reading of the block-number `since` rule (RFC 17):
/// absolute: number >= value; relative: number >= creating block's number + value.
/// `None`: cannot tell (an input created in the same block carries a relative since).
pub fn since_mature(snap: &ckb_snapshot::Snapshot, tx: &TransactionView, number: u64, created_here: &HashSet<OutPoint>) -> Option<bool> {
    for input in tx.inputs().into_iter() {
        let since: u64 = input.since().into();
        if since == 0 {
            continue;
        }
        let value = since & 0x00ff_ffff_ffff_ffff;
        if since & SINCE_REL == 0 {
            if number < value {
                return Some(false);
            }
        } else {
            let op = input.previous_output();
            if created_here.contains(&op) {
                return None;
            }
            match snap.cell(&op, false) {
                CellStatus::Live(meta) => {
                    let created = meta.transaction_info.as_ref().map(|i| i.block_number)?;
                    if number < created + value {
                        return Some(false);
                    }
                }
                _ => return None,
            }
        }
    }
    Some(true)
}

pub fn rewitness(tx: &TransactionView, salt: u64) -> TransactionView {
    let w = Bytes::from(format!("hx-cache witness {salt}").into_bytes());
    tx.as_advanced_builder().set_witnesses(vec![w.pack()]).build()
}

impl Gen {
    pub fn new(cfg: ChainCfg, dir: PathBuf) -> Gen {
        let (consensus, funds) = make_consensus(&cfg);
        let _ = std::fs::remove_dir_all(&dir);
        let node = Node::on_disk(&consensus, &dir, StoreConfig::default());
        let mut h = Gen {
            cfg, consensus, dir, node: Some(node),
            blocks: vec![], block_id: HashMap::new(), txs: vec![], tx_id: HashMap::new(), tx_fee: HashMap::new(),
            wtxs: HashMap::new(), pending: HashMap::new(), outs: vec![], used_uncles: HashSet::new(), stash: vec![],
            steps: vec![], jops: vec![], stats: BTreeMap::new(), next_tag: 1, tr_bits: HashMap::new(), resolves: HashMap::new(),
        };
        let genesis = h.consensus.genesis_block().clone();
        h.block_id.insert(genesis.hash(), 0);
        for tx in genesis.transactions() {
            h.register_tx(&tx);
        }
        for f in &funds {
            for (i, o) in f.outputs().into_iter().enumerate() {
                let cap: u64 = o.capacity().into();
                h.outs.push((OutPoint::new(f.hash(), i as u32), cap));
            }
        }
        h.pending.insert(genesis.hash(), vec![]);
        h
    }

    pub fn node(&self) -> &Node {
        self.node.as_ref().unwrap()
    }

    fn proc(&self, b: &BlockView) -> Result<bool, String> {
        match self.node().process_timed(b) {
            Some(r) => r.map_err(|e| format!("{e}")),
            None => panic!("the generating node stopped answering (a service thread panicked?)"),
        }
    }

    fn register_tx(&mut self, tx: &TransactionView) -> u64 {
        self.wtxs.entry(tx.witness_hash()).or_insert_with(|| tx.clone());
        if let Some(i) = self.tx_id.get(&tx.hash()) {
            return *i;
        }
        self.txs.push(tx.clone());
        let id = self.txs.len() as u64;
        self.tx_id.insert(tx.hash(), id);
        id
    }

    fn register_block(&mut self, b: &BlockView) -> u64 {
        if let Some(i) = self.block_id.get(&b.hash()) {
            return *i;
        }
        self.blocks.push(b.clone());
        let id = self.blocks.len() as u64;
        self.block_id.insert(b.hash(), id);
        for tx in b.transactions() {
            self.register_tx(&tx);
        }
        id
    }

    pub fn block_by_id(&self, id: u64) -> BlockView {
        if id == 0 { self.consensus.genesis_block().clone() } else { self.blocks[id as usize - 1].clone() }
    }

    pub fn main_chain(&self) -> Vec<u64> {
        let snap = self.node().shared.snapshot();
        (0..=snap.tip_number())
            .map(|n| *self.block_id.get(&snap.get_block_hash(n).expect("main hash")).expect("known block"))
            .collect()
    }

    /// Plans the next block on `builder`'s tip.  Returns the valid block and, sometimes, invalid
    /// siblings (built on the same parent) that commit an immature / dead-input transaction.
    pub fn build_next(&mut self, rng: &mut Rng, builder: &Node, allow_uncles: bool, on_fork: bool, want_invalid: bool) -> (BlockView, Vec<(BlockView, &'static str)>) {
        let snap = builder.shared.snapshot();
        let parent = snap.tip_header().clone();
        let number = parent.number() + 1;
        let (wc, wf) = self.cfg.window;
        let mut pend = self.pending.get(&parent.hash()).cloned().unwrap_or_default();
        pend.retain(|p| number <= p.proposed_at + wf);
        let mut commit: Vec<TransactionView> = vec![];
        let mut created: HashSet<OutPoint> = HashSet::new();
        let mut spent: HashSet<OutPoint> = HashSet::new();
        let mut keep: Vec<PendingTx> = vec![];
        let mut immature: Vec<TransactionView> = vec![];
        let mut dead: Vec<TransactionView> = vec![];
        for p in pend.into_iter() {
            let in_window = number >= p.proposed_at + wc && number <= p.proposed_at + wf;
            let live = p.tx.input_pts_iter().all(|op| {
                !spent.contains(&op) && (created.contains(&op) || matches!(snap.cell(&op, false), CellStatus::Live(_)))
            });
            let mature = since_mature(&snap, &p.tx, number, &created);
            if in_window && live && mature == Some(false) {
                immature.push(p.tx.clone());
            }
            if in_window && !live && p.tx.input_pts_iter().any(|op| matches!(snap.cell(&op, false), CellStatus::Dead | CellStatus::Unknown) && !created.contains(&op))
                && p.tx.input_pts_iter().all(|op| !created.contains(&op)) {
                dead.push(p.tx.clone());
            }
            let want = in_window && rng.chance(3, 4) && commit.len() < 6;
            if want && live && mature == Some(true) {
                for op in p.tx.input_pts_iter() { spent.insert(op); }
                for op in p.tx.output_pts_iter() { created.insert(op); }
                // on a competing branch: sometimes the same transaction with other witnesses
                let txc = if on_fork && rng.chance(1, 3) {
                    bump(&mut self.stats, "txs_committed_with_other_witnesses");
                    rewitness(&p.tx, rng.next())
                } else {
                    p.tx.clone()
                };
                commit.push(txc);
            } else {
                keep.push(p);
            }
        }
        // ---- propose
        let mut proposals = vec![];
        let n_new = rng.below(4);
        for _ in 0..n_new {
            let mut cands: Vec<(OutPoint, u64)> = self
                .outs
                .iter()
                .filter(|(op, _)| !spent.contains(op) && (created.contains(op) || matches!(snap.cell(op, false), CellStatus::Live(_))))
                .cloned()
                .collect();
            if rng.chance(1, 3) {
                for p in &keep {
                    for (i, o) in p.tx.outputs().into_iter().enumerate() {
                        let cap: u64 = o.capacity().into();
                        cands.push((OutPoint::new(p.tx.hash(), i as u32), cap));
                    }
                }
            }
            if cands.is_empty() { break; }
            let k = std::cmp::min(cands.len() as u64, rng.range(1, 2)) as usize;
            let mut ins = vec![];
            for _ in 0..k {
                let c = rng.pick(&cands).clone();
                if !ins.iter().any(|(o, _): &(OutPoint, u64)| *o == c.0) { ins.push(c); }
            }
            let total: u64 = ins.iter().map(|(_, c)| *c).sum();
            let n_out = rng.range(1, 3) as usize;
            let fee = rng.range(0, 5000);
            if (total - fee) / (n_out as u64) < 70_00000000 { continue; }
            self.next_tag += 1;
            // since: none / absolute block number around the first possible commit position / relative
            let first_live_in_store = matches!(snap.cell(&ins[0].0, false), CellStatus::Live(_)) && !created.contains(&ins[0].0);
            let since = match rng.below(10) {
                0..=2 => { bump(&mut self.stats, "txs_with_absolute_since"); number + wc + rng.range(0, 3) }
                3..=4 if first_live_in_store => { bump(&mut self.stats, "txs_with_relative_since"); SINCE_REL | rng.range(1, 6) }
                _ => 0,
            };
            let tx = spend_since(&ins, n_out, fee, self.next_tag, since);
            self.register_tx(&tx);
            self.tx_fee.insert(tx.hash(), fee);
            for (i, o) in tx.outputs().into_iter().enumerate() {
                let cap: u64 = o.capacity().into();
                self.outs.push((OutPoint::new(tx.hash(), i as u32), cap));
            }
            proposals.push(tx.proposal_short_id());
            keep.push(PendingTx { tx, proposed_at: number });
            bump(&mut self.stats, "txs_proposed");
        }
        if !keep.is_empty() && rng.chance(1, 4) {
            let i = rng.below(keep.len() as u64) as usize;
            let id = keep[i].tx.proposal_short_id();
            if !proposals.contains(&id) { proposals.push(id); keep[i].proposed_at = number; }
        }
        // ---- uncles
        let mut uncles: Vec<UncleBlockView> = vec![];
        if allow_uncles && rng.chance(1, 3) {
            for u in self.stash.iter() {
                if uncles.len() < 2
                    && !self.used_uncles.contains(&u.hash())
                    && u.number() < number
                    && snap.get_block_number(&u.hash()).is_none()
                    && snap.get_block_number(&u.parent_hash()).is_some()
                    && !snap.is_uncle(&u.hash())
                    && u.epoch().number() == self.consensus.next_epoch_ext(&parent, &snap.borrow_as_data_loader()).unwrap().epoch().number()
                {
                    uncles.push(u.as_uncle());
                }
            }
        }
        let ts_delta = *rng.pick(&[1u64, 20, 900, 15_000, 700_000, 3_000_000]);
        let plan = BlockPlan {
            proposals: proposals.clone(),
            txs: commit.clone(),
            uncles: uncles.clone(),
            extra_unresolvable: vec![],
            ts_delta,
            nonce: self.blocks.len() as u128 + 1,
        };
        let b = build_block(builder, &plan);
        self.stats.entry("txs_committed".into()).and_modify(|v| *v += commit.len() as u64).or_insert(commit.len() as u64);
        if !uncles.is_empty() { bump(&mut self.stats, "blocks_with_uncles"); }
        let id = self.register_block(&b);
        self.tr_bits.insert(id, vec![true; commit.len()]);
        self.resolves.insert(id, true);
        self.pending.insert(b.hash(), keep);
        // ---- invalid siblings
        let mut invalid = vec![];
        if want_invalid {
            // still spendable after the transactions committed in this block
            immature.retain(|t| t.input_pts_iter().all(|op| !spent.contains(&op)));
            if !immature.is_empty() && rng.chance(2, 3) {
                let t = rng.pick(&immature).clone();
                let mut txs = commit.clone();
                txs.push(t);
                let plan = BlockPlan { proposals: vec![], txs: txs.clone(), uncles: vec![], extra_unresolvable: vec![], ts_delta, nonce: self.blocks.len() as u128 + 1 };
                let bad = build_block(builder, &plan);
                let bid = self.register_block(&bad);
                let mut bits = vec![true; commit.len()];
                bits.push(false);
                self.tr_bits.insert(bid, bits);
                self.resolves.insert(bid, true);
                bump(&mut self.stats, "invalid_blocks_immature_since");
                invalid.push((bad, "commits a transaction whose since is not yet met"));
            }
            if !dead.is_empty() && rng.chance(2, 3) {
                let t = rng.pick(&dead).clone();
                let plan = BlockPlan { proposals: vec![], txs: commit.clone(), uncles: vec![], extra_unresolvable: vec![t], ts_delta, nonce: self.blocks.len() as u128 + 1 };
                let bad = build_block(builder, &plan);
                let bid = self.register_block(&bad);
                self.tr_bits.insert(bid, vec![true; commit.len() + 1]);
                self.resolves.insert(bid, false);
                bump(&mut self.stats, "invalid_blocks_dead_input");
                invalid.push((bad, "commits a transaction with an input that is dead on this branch"));
            }
        }
        (b, invalid)
    }

    fn deliver_invalid(&mut self, invalid: Vec<(BlockView, &'static str)>) -> Result<(), String> {
        for (bad, why) in invalid {
            let id = self.block_id[&bad.hash()];
            self.steps.push(Step::Block { id, valid: false, why });
            self.jops.push(json!({"invalid_block": {"block": id, "height": bad.number(), "why": why}}));
            note_history(&self.jops);
            if self.proc(&bad).is_ok() {
                return Err(format!("the generating node accepted a block that {why}"));
            }
        }
        Ok(())
    }

    pub fn extend(&mut self, rng: &mut Rng) -> Result<(), String> {
        let node = self.node.take().unwrap();
        let (b, invalid) = self.build_next(rng, &node, true, false, true);
        self.node = Some(node);
        // invalid siblings first: their parent is the verified tip, so they are verified at once
        // (delivered after the valid block they would be stored as an unverified side branch)
        self.deliver_invalid(invalid)?;
        for u in b.uncles().into_iter() { self.used_uncles.insert(u.hash()); }
        let id = self.block_id[&b.hash()];
        self.steps.push(Step::Block { id, valid: true, why: "extension" });
        self.jops.push(json!({"extend": {"block": id, "height": b.number(), "txs": b.transactions().len() - 1, "uncles": b.uncles().into_iter().count()}}));
        note_history(&self.jops);
        self.proc(&b).map_err(|e| format!("a block built from the node's own snapshot was rejected: {e}"))?;
        bump(&mut self.stats, "blocks_extended");
        Ok(())
    }

    pub fn fork(&mut self, rng: &mut Rng, from: u64, max_len: u64) -> Result<(), String> {
        let main = self.main_chain();
        let builder = Node::temp(&self.consensus);
        for id in main.iter().skip(1).take(from as usize) {
            builder.process(&self.block_by_id(*id)).map_err(|e| format!("replay on builder: {e}"))?;
        }
        let old_above: Vec<BlockView> = main.iter().skip(from as usize + 1).map(|id| self.block_by_id(*id)).collect();
        let mut switched = false;
        for _ in 0..max_len {
            // invalid siblings only once the node follows this branch (their parent is then the node's verified tip)
            let (b, invalid) = self.build_next(rng, &builder, false, true, switched);
            builder.process(&b).map_err(|e| format!("builder rejected its own block: {e}"))?;
            let before = self.main_chain();
            let id = self.block_id[&b.hash()];
            if switched && rng.chance(1, 2) { self.deliver_invalid(invalid)?; }
            self.steps.push(Step::Block { id, valid: true, why: "fork" });
            self.jops.push(json!({"fork_block": {"block": id, "from_height": from, "height": b.number(), "txs": b.transactions().len() - 1}}));
            note_history(&self.jops);
            self.proc(&b).map_err(|e| format!("a valid fork block was rejected: {e}"))?;
            if self.main_chain() != before && !switched {
                switched = true;
                bump(&mut self.stats, "reorgs");
            }
            if switched && rng.chance(1, 2) { break; }
        }
        builder.stop();
        if switched { self.stash.extend(old_above); }
        Ok(())
    }

    pub fn restart(&mut self) {
        let node = self.node.take().unwrap();
        node.stop();
        self.node = Some(Node::on_disk(&self.consensus, &self.dir, StoreConfig::default()));
        self.steps.push(Step::Restart);
        self.jops.push(json!("restart"));
        note_history(&self.jops);
        bump(&mut self.stats, "restarts");
    }

    pub fn truncate(&mut self, to: u64) -> Result<(), String> {
        let target = self.node().shared.snapshot().get_block_hash(to).unwrap();
        let to_block = self.block_id[&target];
        self.steps.push(Step::Truncate { to_block });
        self.jops.push(json!({"truncate_to": to}));
        note_history(&self.jops);
        self.node().chain().truncate(target).map_err(|e| format!("truncate failed: {e}"))?;
        bump(&mut self.stats, "truncations");
        Ok(())
    }

    pub fn random_step(&mut self, rng: &mut Rng) -> Result<(), String> {
        let tip = self.node().tip().number();
        match rng.below(12) {
            0..=5 => {
                for _ in 0..rng.range(1, 4) { self.extend(rng)?; }
                Ok(())
            }
            6..=8 if tip >= 1 => {
                let back = rng.range(1, 7);
                let from = if rng.chance(1, 8) { 0 } else { rng.range(tip.saturating_sub(back), tip - 1) };
                let extra = rng.range(1, 3);
                self.fork(rng, from, tip - from + extra)
            }
            9 => { self.restart(); Ok(()) }
            10 if tip >= 2 => {
                let back = rng.range(1, 4);
                let to = rng.range(tip.saturating_sub(back), tip - 1);
                self.truncate(to)
            }
            _ => self.extend(rng),
        }
    }

    pub fn stop_node(&mut self) {
        if let Some(n) = self.node.take() { n.stop(); }
    }
}
