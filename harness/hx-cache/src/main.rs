//! hx-cache: differential harness of property C14.  The same generated history
//! is run on real nodes that differ only in caching; verdicts, recorded fees /
//! cycles / sizes, tips and a battery of chain-store queries must be identical
//! to those of the node whose caches are all disabled.
mod dao;
mod frozen;
mod gen;
mod maturity;
mod node;
mod probes;
mod run;
mod syscell;

use ckb_types::prelude::*;
use gen::*;
use hx_common::*;
use node::*;
use run::*;
use serde_json::{json, Value};
use std::collections::{BTreeMap, BTreeSet, HashMap};
use std::fs;

struct HistOut {
    viol: Vec<Value>,
    cases: Vec<(String, Value)>,
    stats: BTreeMap<String, u64>,
    key: String,
    sample: Value,
}

fn hist_rng(seed: u64, hi: u64) -> Rng {
    Rng::new(seed ^ 0xC14_0000 ^ hi.wrapping_mul(0x9E37_79B9_7F4A_7C15))
}

fn run_history(seed: u64, hi: u64, thorough: bool, scratch: &std::path::Path) -> HistOut {
    let mut rng = hist_rng(seed, hi);
    let cfg = ChainCfg {
        window: *rng.pick(&[(1u64, 2u64), (1, 3), (2, 4), (2, 10)]),
        genesis_epoch_length: *rng.pick(&[4u64, 7, 1000]),
        ..Default::default()
    };
    let mut g = Gen::new(cfg.clone(), scratch.join(format!("g{hi}")));
    let mut viol: Vec<Value> = vec![];
    let nsteps = rng.range(5, if thorough { 14 } else { 9 });
    for _ in 0..nsteps {
        if let Err(e) = g.random_step(&mut rng) {
            viol.push(json!({"what": e, "detail": {"stream": "history", "seed": seed, "history_index": hi, "history": g.jops}}));
            break;
        }
    }
    g.stop_node();
    let _ = fs::remove_dir_all(&g.dir);
    let maxc = g.consensus.max_block_cycles();
    let detail = |g: &Gen, extra: Value| -> Value {
        json!({"stream": "history", "seed": seed, "history_index": hi, "window": [g.cfg.window.0, g.cfg.window.1],
               "genesis_epoch_length": g.cfg.genesis_epoch_length, "history": g.jops, "more": extra})
    };
    // the reference first: its records are the content every other node must reproduce
    let rdir = scratch.join(format!("r{hi}"));
    let empty = HashMap::new();
    let reference = replay(&g, &CONFIGS[0], &rdir, &empty);
    let (content, modal) = reference_content(&g, &reference);
    let mut stats = g.stats.clone();
    let mut keys = KeyIds(HashMap::new());
    let mut cases = vec![];
    // what the generator expected
    for (step, o) in g.steps.iter().zip(reference.obs.iter()) {
        if let Step::Block { id, valid, why } = step {
            if *valid == (o.verdict == "rejected") {
                viol.push(json!({"what": format!("the node without caches answered '{}' to block {id} ({why}), the generator expected it to be {}", o.verdict, if *valid { "accepted" } else { "rejected" }),
                                 "detail": detail(&g, json!({"block": id}))}));
            }
        }
    }
    for d in reference.direct.iter().take(3) {
        viol.push(json!({"what": format!("[{}] {d}", CONFIGS[0].name), "detail": detail(&g, json!({}))}));
    }
    if !reference.ghost_headers.is_empty() || reference.ghost_cell_data > 0 {
        viol.push(json!({"what": "a node with every cache disabled answers a read of a deleted block / dead cell", "detail": detail(&g, json!({"blocks": reference.ghost_headers}))}));
    }
    cases.push((coq_case(&g, &CONFIGS[0], &reference, &content, &mut keys, maxc), json!({"seed": seed, "history_index": hi, "config": config_json(&CONFIGS[0]), "history": g.jops})));
    *stats.entry("guarded_reads".into()).or_default() += reference.guarded_reads;
    for c in CONFIGS.iter().skip(1) {
        let dir = scratch.join(format!("n{hi}"));
        let r = replay(&g, c, &dir, &content);
        *stats.entry("guarded_reads".into()).or_default() += r.guarded_reads;
        if let Some((step, msg)) = first_difference(&r, &reference) {
            viol.push(json!({
                "what": format!("[{}] differs from the node without caches at step {step} ({:?}): {msg}", c.name, g.steps.get(step)),
                "detail": detail(&g, json!({"config": config_json(c), "step": step}))}));
        }
        for d in r.direct.iter().take(3) {
            viol.push(json!({"what": format!("[{}] {d}", c.name), "detail": detail(&g, json!({"config": config_json(c)}))}));
        }
        // the generator's expectation on this node too (rejected although cached)
        for (step, o) in g.steps.iter().zip(r.obs.iter()) {
            if let Step::Block { id, valid: false, why } = step {
                if o.verdict != "rejected" {
                    viol.push(json!({"what": format!("[{}] accepted block {id}, which {why}", c.name), "detail": detail(&g, json!({"config": config_json(c), "block": id}))}));
                }
            }
        }
        if !r.ghost_headers.is_empty() {
            *stats.entry("deleted_blocks_still_answered".into()).or_default() += r.ghost_headers.len() as u64;
            *stats.entry("get_block_of_deleted_block_panics".into()).or_default() += r.ghost_get_block_panics.len() as u64;
            viol.push(json!({
                "what": format!("[{}] get_block_header / block_exists answer for {} block(s) that were rejected and deleted from the store (get_block returns {} of them as blocks without transactions and panics on {} of them: header still cached, uncle entry evicted); a node without caches answers None",
                                c.name, r.ghost_headers.len(), r.ghost_blocks_without_body.len(), r.ghost_get_block_panics.len()),
                "signature": "C14-deleted-block-served-from-cache",
                "detail": detail(&g, json!({"config": config_json(c), "blocks": r.ghost_headers}))}));
        }
        if r.ghost_cell_data > 0 {
            *stats.entry("dead_cells_data_still_answered".into()).or_default() += r.ghost_cell_data as u64;
            viol.push(json!({
                "what": format!("[{}] get_cell_data answers for {} cell(s) whose data column entry was removed (spent cells); a node without caches answers None", c.name, r.ghost_cell_data),
                "signature": "C14-dead-cell-data-served-from-cache",
                "detail": detail(&g, json!({"config": config_json(c)}))}));
        }
        cases.push((coq_case(&g, c, &r, &content, &mut keys, maxc), json!({"seed": seed, "history_index": hi, "config": config_json(c), "history": g.jops})));
    }
    // coverage counters
    let n_invalid = g.steps.iter().filter(|s| matches!(s, Step::Block { valid: false, .. })).count() as u64;
    *stats.entry("steps".into()).or_default() += g.steps.len() as u64;
    *stats.entry("invalid_blocks_delivered".into()).or_default() += n_invalid;
    *stats.entry("checkpoints_with_query_battery".into()).or_default() += reference.obs.iter().filter(|o| o.battery.is_some()).count() as u64;
    *stats.entry("blocks_built".into()).or_default() += g.blocks.len() as u64;
    // the same (transaction, witnesses) verified in more than one accepted block (competing branches)
    let mut seen: HashMap<ckb_types::packed::Byte32, u64> = HashMap::new();
    let mut by_txh: HashMap<ckb_types::packed::Byte32, BTreeSet<Vec<u8>>> = HashMap::new();
    for o in &reference.obs {
        for (id, e) in &o.verified_now {
            if e.verified == Some(true) {
                for tx in g.blocks[*id as usize - 1].transactions().iter().skip(1) {
                    *seen.entry(tx.witness_hash()).or_default() += 1;
                    by_txh.entry(tx.hash()).or_default().insert(tx.witness_hash().as_slice().to_vec());
                }
            }
        }
    }
    *stats.entry("wtx_verified_on_two_branches".into()).or_default() += seen.values().filter(|n| **n > 1).count() as u64;
    *stats.entry("tx_verified_with_two_witness_sets".into()).or_default() += by_txh.values().filter(|s| s.len() > 1).count() as u64;
    *stats.entry("block_verifications_reference".into()).or_default() += reference.obs.iter().map(|o| o.verified_now.iter().filter(|(_, e)| e.verified == Some(true)).count() as u64).sum::<u64>();
    if modal.is_none() { *stats.entry("histories_without_committed_tx".into()).or_default() += 1; }
    let sample = json!({"window": [g.cfg.window.0, g.cfg.window.1], "history": g.jops, "configs": CONFIGS.iter().map(|c| c.name).collect::<Vec<_>>()});
    HistOut { viol, cases, stats, key: format!("{:?}", g.jops), sample }
}

static T0: std::sync::OnceLock<std::time::Instant> = std::sync::OnceLock::new();

fn main() {
    let _ = T0.set(std::time::Instant::now());
    let seed = seed();
    let thorough = tier_is_thorough();
    let out = out_dir("C14");
    for e in fs::read_dir(&out).unwrap().flatten() {
        let n = e.file_name().to_string_lossy().to_string();
        if n.starts_with("cases_") || n == "summary.json" {
            let _ = fs::remove_file(e.path());
        }
    }
    let scratch = scratch_dir("C14");
    let _ = TEMP_BASE.set(scratch.clone());
    let mut n_hist: u64 = shard_share(if thorough { 400 } else { 24 });
    let mut only: Option<u64> = None;
    let mut probes_only = false;
    let mut dao_only: Option<u64> = None;
    let mut fz_only: Option<u64> = None;
    let mut mat_only: Option<u64> = None;
    let mut mat_seed = seed;
    // development aid: HX_STREAM=dao runs the DAO lock-size stream alone
    let dao_stream_alone = std::env::var("HX_STREAM").map(|s| s == "dao").unwrap_or(false);
    // HX_STREAM=maturity runs the cellbase-maturity stream alone
    let mat_stream_alone = std::env::var("HX_STREAM").map(|s| s == "maturity").unwrap_or(false);
    if let Ok(p) = std::env::var("HX_REPLAY") {
        let v: Value = serde_json::from_str(&fs::read_to_string(&p).expect("replay file")).expect("json");
        let d = v["violations"].get(0).map(|x| x["detail"].clone()).or_else(|| v["cases"].get(0).map(|x| x["case"].clone())).unwrap_or(Value::Null);
        if d["stream"] == "probe" {
            probes_only = true;
        } else if d["stream"] == "frozen-cache" || d["case"]["stream"] == "frozen-cache" {
            fz_only = Some(d["history_index"].as_u64().or(d["case"]["history_index"].as_u64()).unwrap_or(0));
            probes_only = false;
        } else if d["stream"] == "dao-lock-size" {
            dao_only = Some(d["history_index"].as_u64().unwrap_or(0));
        } else if d["stream"] == "cellbase-maturity" {
            mat_only = Some(d["history_index"].as_u64().unwrap_or(0));
            // the history is a function of (seed, index): take the seed the failing run had
            if let Some(s) = d["seed"].as_u64() { mat_seed = s; }
        } else if let Some(hi) = d["history_index"].as_u64() {
            only = Some(hi);
            n_hist = hi + 1;
        }
        println!("replaying {}", d);
    }
    let mut viol: Vec<Value> = vec![];
    let mut stats: BTreeMap<String, u64> = BTreeMap::new();
    let mut distinct: BTreeSet<String> = BTreeSet::new();
    let mut samples: Vec<Value> = vec![];
    let mut evaluations = 0u64;
    let shards = 8usize;
    let header = "From CKB Require Import Tx.Cache Tx.SysCache Tx.FrozenCache Tx.CacheMaturity.";
    let mut files: Vec<CaseFile> = (0..shards)
        .map(|i| { let mut cf = CaseFile::new(&out, &format!("cases_{:02}", i), header); cf.group("vcache", "vcase", "check_vcase"); cf.group("syscache", "sccase", "check_sccase"); cf.group("daocache", "dcase", "check_dcase"); cf.group("frozencache", "fzcase", "check_fzcase"); cf.group("matcache", "mcase", "check_mcase"); cf })
        .collect();
    let mut descs: Vec<BTreeMap<String, Vec<Value>>> = (0..shards).map(|_| BTreeMap::new()).collect();
    let other_alone = mat_only.is_some() || mat_stream_alone;
    if !probes_only && dao_only.is_none() && !dao_stream_alone && fz_only.is_none() && !other_alone {
        for hi in 0..n_hist {
            if let Some(o) = only { if o != hi { continue; } }
            let r = std::panic::catch_unwind(std::panic::AssertUnwindSafe(|| run_history(seed, hi, thorough, &scratch)));
            match r {
                Err(p) => {
                    let msg = p.downcast_ref::<String>().cloned().or_else(|| p.downcast_ref::<&str>().map(|s| s.to_string())).unwrap_or_default();
                    viol.push(json!({"what": format!("a node panicked while processing a history: {msg}"), "detail": {"stream": "history", "history_index": hi, "seed": seed, "history": last_history()}}));
                    evaluations += 1;
                }
                Ok(h) => {
                    viol.extend(h.viol);
                    distinct.insert(h.key);
                    for (k, v) in h.stats { *stats.entry(k).or_default() += v; }
                    if samples.len() < 2 { samples.push(h.sample); }
                    for (case, desc) in h.cases {
                        let sh = (evaluations as usize) % shards;
                        files[sh].push(0, case);
                        descs[sh].entry("vcache".into()).or_default().push(desc);
                        evaluations += 1;
                    }
                }
            }
        }
    }
    if std::env::var("HX_TIMING").is_ok() { eprintln!("histories done at {:?}", T0.get().unwrap().elapsed()); }
    let mut probe_results = json!({});
    if only.is_none() && dao_only.is_none() && !dao_stream_alone && fz_only.is_none() && !other_alone {
        let r = std::panic::catch_unwind(std::panic::AssertUnwindSafe(|| {
            let (v1, r1) = probes::probe_assume_valid(&scratch);
            let (mut v2, r2) = probes::probe_negative(&scratch);
            let (v3, r3) = probes::probe_ghost_chain(&scratch);
            v2.extend(v3);
            (v1, r1, v2, json!({"asked_before_arrival": r2, "ghost_header_then_negative_extension": r3}))
        }));
        match r {
            Ok((v1, r1, v2, r2)) => {
                viol.extend(v1);
                viol.extend(v2);
                probe_results = json!({"assume_valid": r1, "negative_answer": r2});
                *stats.entry("directed_probes".into()).or_default() += 3;
            }
            Err(p) => {
                let msg = p.downcast_ref::<String>().cloned().or_else(|| p.downcast_ref::<&str>().map(|s| s.to_string())).unwrap_or_default();
                viol.push(json!({"what": format!("a directed probe panicked: {msg}"), "detail": {"stream": "probe"}}));
            }
        }
    }
    if std::env::var("HX_TIMING").is_ok() { eprintln!("probes done at {:?}", T0.get().unwrap().elapsed()); }
    // DAO lock-size stream: two competing branches on which the RFC0044 rule is waived / applies
    let mut dao_pool_examples: Vec<Value> = vec![];
    let mut dao_samples: Vec<Value> = vec![];
    if only.is_none() && !probes_only && fz_only.is_none() && !other_alone {
        let o = dao::run(seed, thorough, &scratch, dao_only);
        viol.extend(o.viol);
        for (k, v) in o.stats { *stats.entry(k).or_default() += v; }
        for k in o.distinct { distinct.insert(k); }
        dao_pool_examples = o.pool_examples;
        dao_samples = o.samples;
        for (i, (case, desc)) in o.cases.into_iter().enumerate() {
            let sh = i % shards;
            files[sh].push(2, case);
            descs[sh].entry("daocache".into()).or_default().push(desc);
            evaluations += 1;
        }
    }
    if std::env::var("HX_TIMING").is_ok() { eprintln!("dao stream done at {:?}", T0.get().unwrap().elapsed()); }
    // cellbase-maturity stream: two competing branches on which the same transaction is mature / immature
    let mut mat_samples: Vec<Value> = vec![];
    if only.is_none() && !probes_only && fz_only.is_none() && dao_only.is_none() && !dao_stream_alone {
        let o = maturity::run(mat_seed, thorough, &scratch, mat_only);
        viol.extend(o.viol);
        for (k, v) in o.stats { *stats.entry(k).or_default() += v; }
        for k in o.distinct { distinct.insert(k); }
        mat_samples = o.samples;
        for (i, (case, desc)) in o.cases.into_iter().enumerate() {
            let sh = i % shards;
            files[sh].push(4, case);
            descs[sh].entry("matcache".into()).or_default().push(desc);
            evaluations += 1;
        }
    }
    if std::env::var("HX_TIMING").is_ok() { eprintln!("maturity stream done at {:?}", T0.get().unwrap().elapsed()); }
    // read caches in front of a store with a freezer
    let mut fz_samples: Vec<Value> = vec![];
    if only.is_none() && !probes_only && dao_only.is_none() && !dao_stream_alone && !other_alone {
        let o = frozen::run(seed, thorough, &scratch, fz_only);
        viol.extend(o.viol);
        for (k, v) in o.stats { *stats.entry(k).or_default() += v; }
        for k in o.distinct { distinct.insert(k); }
        fz_samples = o.samples;
        for (i, (case, desc)) in o.cases.into_iter().enumerate() {
            let sh = i % shards;
            files[sh].push(3, case);
            descs[sh].entry("frozencache".into()).or_default().push(desc);
            evaluations += 1;
        }
    }
    if std::env::var("HX_TIMING").is_ok() { eprintln!("frozen stream done at {:?}", T0.get().unwrap().elapsed()); }
    // SYSTEM_CELL stream (sets the process-wide cache: after everything else)
    if only.is_none() && !probes_only && dao_only.is_none() && !dao_stream_alone && fz_only.is_none() && !other_alone {
        match std::panic::catch_unwind(|| syscell::run(seed, thorough)) {
            Err(p) => {
                let msg = p.downcast_ref::<String>().cloned().or_else(|| p.downcast_ref::<&str>().map(|s| s.to_string())).unwrap_or_default();
                viol.push(json!({"what": format!("resolve_transaction panicked in the system-cell stream: {msg}"), "detail": {"stream": "system-cell-cache"}}));
            }
            Ok(o) => {
                viol.extend(o.viol);
                for (k, v) in o.stats { *stats.entry(k).or_default() += v; }
                for cf in files.iter_mut() { cf.header.push_str("\n"); cf.header.push_str(&o.header); }
                for (i, (case, desc)) in o.cases.into_iter().enumerate() {
                    let sh = i % shards;
                    files[sh].push(1, case);
                    descs[sh].entry("syscache".into()).or_default().push(desc);
                    evaluations += 1;
                }
            }
        }
    }
    for (i, cf) in files.iter().enumerate() {
        cf.write().unwrap();
        fs::write(out.join(format!("cases_{:02}.json", i)), serde_json::to_string(&descs[i]).unwrap()).unwrap();
    }
    let _ = fs::remove_dir_all(&scratch);
    let unsigned = viol.iter().filter(|v| v.get("signature").is_none()).count();
    let summary = json!({
        "property": "C14", "seed": seed,
        "evaluations": evaluations, "distinct_nontrivial": distinct.len(),
        "rule": "histories generated on a real on-disk node (extensions with fee-paying transactions incl. absolute/relative block-number since, proposals, uncles; competing branches that take over and re-commit pending transactions, sometimes with other witnesses; truncations; restarts; injected invalid blocks: a proposed, spendable transaction whose since is not yet met / a transaction with an input dead on that branch), recorded as a step list and replayed on 5 nodes that differ only in caching (all caches 0 = reference; defaults cold; all caches 1; verification cache pre-warmed with the correct entry of every (transaction, witnesses); verification cache poisoned under tx-hash and other-witness keys). Compared with the reference: verdict of every delivery, tip, every block's verification record (verified, txs_fees, cycles, txs_sizes, total difficulty), and at every reorganisation/restart/truncation/end a query battery over every stored block (header, uncles, proposals, extension, tx hashes, get_block, BlockExt, number) twice through store and snapshot, every transaction (transaction info) and every live cell (data, data hash); answers are also compared with the stored content directly. Last stream: resolve_transaction and ResolvedTransaction::check on transactions whose cell deps mix the cached system deps (code cells and dep groups, also repeated or with the other dep type), user dep groups of 0..2048 members, dead / unknown / unparsable deps, with a total expansion aimed at MAX_DEP_EXPANSION_LIMIT +-3, before and after setup_system_cell_cache on a synthetic genesis; cold and warm outcomes must be equal and both are recomputed by the Coq model. DAO lock-size stream: on a chain whose genesis tx0 output #2 (the cell consensus.dao_type_hash() designates) holds the always-success binary and whose starting_block_limiting_dao_withdrawing_lock is 3..7, a trunk and two competing branches commit a DAO deposit and a phase-1 withdraw (deposit cell -> withdrawing cell; lock sizes equal or different; also unpaired shapes) at heights around the limiting block number so that the lock-size rule is waived / applies on either branch; fully valid blocks, full verification, scripts executed; branch A first (the withdraw is verified and cached where valid), then the longer branch B; replayed on 4 nodes (all caches 0 = reference; defaults; verification cache cleared before B; restarted before B): verdicts, tips, verification records and final state must be equal and be what RFC0044 says; for some histories the loose withdraw is then offered to the tx-pool (test_accept_tx, submit_local_tx) of a node that kept its cache and of one whose cache was cleared just before. Cellbase-maturity stream: a consensus with a non-zero cellbase_maturity (3..5 blocks' worth as k/len of an epoch, fractions with another denominator that fall between two blocks, a maturity crossed in the next epoch); a trunk and two competing branches commit the SAME transaction T (identical witnesses) which uses a recent cellbase output of the trunk as a cell dep / as an input / both (two cellbases, either maturing later) / as a member of a dep group, at heights around the maturity boundary so that T is mature / immature on A and on B in all four combinations; fully valid blocks, full verification, scripts executed; where T is immature the block committing it is delivered too (on the tip: rejected at once, a sibling carries on; inside a side branch: stored, and the delivery that makes the branch the heavier one must be rejected, then a sibling chain takes over); replayed on 5 nodes (all caches 0 = reference; defaults; verification cache cleared before B; restarted before B; pre-warmed with T's correct entry): verdicts, tips, verification records and final state must be equal and be what the generator's own reading of MaturityVerifier (exact rational arithmetic on the header epochs) and of chain selection says. evaluations = (history, configuration) pairs plus system-cell transactions, each also evaluated by the Coq model; distinct = distinct histories (each >= 5 steps)",
        "distribution": stats, "samples": samples,
        "impl_violations": viol,
        "extra_coverage": {"directed_probes": probe_results, "node_configurations": CONFIGS.iter().map(config_json).collect::<Vec<_>>(),
                           "frozen_cache_stream": {"samples": fz_samples}, "dao_lock_size_stream": {"samples": dao_samples, "pool_accepts_from_cache_what_it_rejects_cold": dao_pool_examples},
                           "cellbase_maturity_stream": {"samples": mat_samples}},
    });
    fs::write(out.join("summary.json"), serde_json::to_string_pretty(&summary).unwrap()).unwrap();
    println!("hx-cache: {} (history, configuration) evaluations, {} implementation-side differences ({} without a known signature)", evaluations, summary["impl_violations"].as_array().unwrap().len(), unsigned);
    if std::env::var("HX_REPLAY").is_ok() {
        for v in summary["impl_violations"].as_array().unwrap().iter().take(5) {
            println!("  {}", v["what"]);
        }
        if unsigned > 0 { std::process::exit(1); }
    }
}
