//! Cellbase-maturity stream (`MaturityVerifier`): next to since, the check on the cache-hit
//! path whose answer for the SAME (transaction, witnesses) depends on where the transaction is
//! committed.  A cellbase output (of a non-genesis block) is immature in a block whose epoch is
//! below `cellbase_maturity + epoch(block of the cell)`; the rule applies to the resolved INPUTS
//! and to the resolved CELL DEPS (members of expanded dep groups included).
//!
//! Every history: a consensus with a non-zero `cellbase_maturity` (a few blocks' worth, also
//! fractions that fall between two blocks and a maturity that is crossed in the next epoch), a
//! trunk, and two competing branches A and B that commit the SAME transaction T (identical
//! witnesses, since 0 unless stated) at different heights.  T uses a recent cellbase output of
//! the trunk (a) as a cell dep, (b) as an input, (c) both (two cellbases, either one maturing
//! later), (d) as a member of a dep group.  The heights are chosen around the maturity boundary
//! (first mature height, one below, ...) so that T is mature / immature on A and on B in all
//! four combinations.  All blocks are otherwise fully valid (reward, DAO field, epoch, chain
//! root, two-phase commit: every block proposes T) and are processed with FULL verification,
//! scripts executed.  A is delivered first, then B, which ends heavier.  Where T is immature the
//! block committing it is delivered too: on the tip it is rejected at once and a sibling without
//! T carries the branch on; inside a side branch it is stored unverified, its descendants up to
//! the block that makes the branch the heavier one are delivered (that delivery must be
//! rejected), and then a sibling chain from the bad block's parent takes over.
//!
//! The blocks are built on nodes whose consensus differs in `cellbase_maturity` only (0), so
//! that also the descendants of an invalid block can be built; nothing else in a block depends
//! on that parameter.  The deliveries are replayed on nodes that differ only in caching (all
//! caches 0 = reference; defaults; verification cache cleared before B; restarted before B;
//! verification cache pre-warmed with T's correct entry before anything is delivered).  Verdict
//! of every delivery, tip, verification records and the final state must equal the reference
//! AND the generator's own reading of the maturity rule (exact rational arithmetic on the
//! epoch fields of the headers) and of chain selection (heavier total difficulty wins; a
//! branch is verified when it becomes the heavier one).
use crate::node::*;
use crate::run::{ext_obs, ExtObs};
use ckb_app_config::StoreConfig;
use ckb_chain_spec::consensus::{build_genesis_epoch_ext, Consensus, ConsensusBuilder, ProposalWindow};
use ckb_dao_utils::genesis_dao_data;
use ckb_store::ChainStore;
use ckb_test_chain_utils::always_success_cell;
use ckb_types::{
    bytes::Bytes,
    core::{
        cell::{CellProvider, CellStatus},
        BlockBuilder, BlockView, Capacity, DepType, EpochNumberWithFraction, TransactionBuilder, TransactionView,
    },
    packed::{Byte32, CellDep, CellInput, CellOutput, OutPoint, OutPointVec},
    prelude::*,
    utilities::difficulty_to_compact,
    U256,
};
use ckb_verification::cache::Completed;
use hx_common::*;
use serde_json::{json, Value};
use std::collections::{BTreeMap, HashMap, HashSet};
use std::path::Path;

const STREAM: &str = "cellbase-maturity";
const HEIGHT_CAP: u64 = 34;

#[derive(Clone, Copy, PartialEq, Eq, Debug)]
enum Flavour {
    /// T lists the cellbase output as a cell dep; ordinary input
    DepOnly,
    /// T lists a dep group one of whose members is the cellbase output; ordinary input
    GroupMember,
    /// T spends the cellbase output
    InputOnly,
    /// spends one cellbase output, lists a LATER one as cell dep (the dep matures last)
    BothDepLater,
    /// spends one cellbase output, lists an EARLIER one as cell dep (the input matures last)
    BothInputLater,
    /// spends one cellbase output, reaches a later one through a dep group
    GroupAndInput,
}

impl Flavour {
    fn via_group(self) -> bool { matches!(self, Flavour::GroupMember | Flavour::GroupAndInput) }
    fn has_input(self) -> bool { !matches!(self, Flavour::DepOnly | Flavour::GroupMember) }
    fn has_dep(self) -> bool { !matches!(self, Flavour::InputOnly) }
}

#[derive(Clone, Copy, Debug)]
struct Params {
    epoch_len: u64,
    far: u64,
    /// cellbase_maturity = (number, index, length)
    maturity: (u64, u64, u64),
}

/// a/b as (numerator, denominator)
type Rat = (u128, u128);
fn epoch_rat(e: (u64, u64, u64)) -> Rat {
    if e.2 == 0 { (e.0 as u128, 1) } else { (e.0 as u128 * e.2 as u128 + e.1 as u128, e.2 as u128) }
}
fn rat_add(a: Rat, b: Rat) -> Rat { (a.0 * b.1 + b.0 * a.1, a.1 * b.1) }
fn rat_lt(a: Rat, b: Rat) -> bool { a.0 * b.1 < b.0 * a.1 }
fn ep3(e: EpochNumberWithFraction) -> (u64, u64, u64) { (e.number(), e.index(), e.length()) }

/// the generator's own reading of the rule: the cellbase output of the block with number
/// `cell_number` (> 0) and epoch `cell_epoch` is immature in a block of epoch `current` iff
/// current < cellbase_maturity + cell_epoch
fn cellbase_immature(maturity: (u64, u64, u64), cell_number: u64, cell_epoch: (u64, u64, u64), current: (u64, u64, u64)) -> bool {
    cell_number > 0 && rat_lt(epoch_rat(current), rat_add(epoch_rat(maturity), epoch_rat(cell_epoch)))
}

fn mat_consensus(p: &Params, maturity: EpochNumberWithFraction) -> (Consensus, Vec<TransactionView>) {
    let (cell, data, script) = always_success_cell();
    let as_tx = TransactionBuilder::default()
        .input(CellInput::new(OutPoint::null(), 0))
        .output(cell.clone())
        .output_data(data.clone())
        .witness(script.clone().into_witness())
        .build();
    let funds: Vec<TransactionView> = (0..3u64)
        .map(|i| {
            TransactionBuilder::default()
                .input(CellInput::new(OutPoint::null(), 0))
                .output(CellOutput::new_builder().capacity(Capacity::bytes(60_000 + i as usize).unwrap()).lock(script.clone()).build())
                .output_data(Bytes::from((0x3a7u64 + i).to_le_bytes().to_vec()))
                .build()
        })
        .collect();
    let mut all: Vec<&TransactionView> = vec![&as_tx];
    all.extend(funds.iter());
    let dao = genesis_dao_data(all).unwrap();
    let compact = difficulty_to_compact(U256::from(1000u64));
    let genesis = BlockBuilder::default()
        .timestamp(GENESIS_TS)
        .compact_target(compact)
        .dao(dao)
        .transaction(as_tx)
        .transactions(funds.clone())
        .build();
    let epoch_ext = build_genesis_epoch_ext(Capacity::shannons(1_917_808_21917808), compact, p.epoch_len, 4 * 60 * 60, (1, 40));
    let consensus = ConsensusBuilder::new(genesis, epoch_ext)
        .cellbase_maturity(maturity)
        .tx_proposal_window(ProposalWindow(1, p.far))
        .build();
    (consensus, funds)
}

struct Delivery {
    block: u64,
    expect_valid: bool,
    expect_tip: u64,
    /// the blocks the node has to verify when this block arrives (generator's reading), lowest first
    path: Vec<u64>,
    what: String,
}

/// the generator's reading of chain selection
struct Sim {
    tip: u64,
    verified: HashSet<u64>,
    invalid: HashSet<u64>,
}

#[derive(Clone, Copy, Debug)]
struct TPolicy {
    allow: bool,
    want_mature: bool,
    /// eligible heights to let pass first
    delay: u64,
    /// immature: commit at the last height before maturity
    last_possible: bool,
    give_up_at: u64,
}

struct Hist {
    index: u64,
    seed: u64,
    params: Params,
    consensus: Consensus,
    build_consensus: Consensus,
    flavour: Flavour,
    with_since: bool,
    group_has_code: bool,
    cb_in: Option<u64>,
    cb_dep: Option<u64>,
    fork: u64,
    o: TransactionView,
    t: Option<TransactionView>,
    g: Option<TransactionView>,
    t_fee: u64,
    unit_cycles: u64,
    /// first height at which T may be committed (proposal window, dep group committed before)
    earliest: u64,
    g_height: u64,
    blocks: Vec<BlockView>,
    block_id: HashMap<Byte32, u64>,
    parent: Vec<u64>,
    td: Vec<U256>,
    label: Vec<String>,
    /// per block committing T: (no immature cellbase among the inputs, none among the cell deps)
    t_bits: HashMap<u64, (bool, bool)>,
    bad: HashSet<u64>,
    deliveries: Vec<Delivery>,
    marker: usize,
    sim: Sim,
    nonce: u128,
    /// (branch, height, mature, first mature height on that chain if known)
    t_commits: Vec<(String, u64, bool)>,
    bad_inside_side_branch: u64,
}

enum GenErr {
    /// parameters did not work out (not a finding)
    Skip(String),
    Fail(String),
}

fn cellbase_out(b: &BlockView) -> Option<(OutPoint, u64)> {
    let cb = &b.transactions()[0];
    cb.outputs().get(0).map(|o| (OutPoint::new(cb.hash(), 0), o.capacity().into()))
}

impl Hist {
    fn block(&self, id: u64) -> &BlockView { &self.blocks[id as usize - 1] }
    fn td_of(&self, id: u64) -> U256 { if id == 0 { self.consensus.genesis_block().difficulty() } else { self.td[id as usize - 1].clone() } }
    fn id_of(&self, h: &Byte32) -> u64 { if *h == self.consensus.genesis_hash() { 0 } else { self.block_id[h] } }
    fn main_block_at(&self, tip: u64, number: u64) -> u64 {
        let mut cur = tip;
        while cur != 0 && self.block(cur).number() > number { cur = self.parent[cur as usize - 1]; }
        cur
    }

    /// the three checks for T committed in a block of epoch `current` (all cellbases are trunk blocks)
    fn bits(&self, trunk_tip: u64, current: (u64, u64, u64)) -> (bool, bool) {
        let m = self.params.maturity;
        let one = |h: Option<u64>| -> bool {
            match h {
                None => true,
                Some(n) => {
                    let b = self.block(self.main_block_at(trunk_tip, n));
                    !cellbase_immature(m, b.number(), ep3(b.epoch()), current)
                }
            }
        };
        (one(self.cb_in), one(self.cb_dep))
    }

    fn proposals(&self) -> Vec<ckb_types::packed::ProposalShortId> {
        let mut v = vec![self.o.proposal_short_id()];
        if let Some(t) = &self.t { v.push(t.proposal_short_id()); }
        if let Some(g) = &self.g { v.push(g.proposal_short_id()); }
        v
    }

    fn std_txs(&self, number: u64) -> Vec<TransactionView> {
        let mut v = vec![];
        if number == 2 { v.push(self.o.clone()); }
        if let Some(g) = &self.g { if number == self.g_height { v.push(g.clone()); } }
        v
    }

    fn build(&mut self, rng: &mut Rng, builder: &Node, txs: Vec<TransactionView>, label: &str, trunk_ref: u64) -> u64 {
        self.nonce += 1;
        let plan = BlockPlan { proposals: self.proposals(), txs, uncles: vec![], extra_unresolvable: vec![], ts_delta: *rng.pick(&[1u64, 20, 900, 15_000, 700_000]), nonce: self.nonce };
        let b = build_block(builder, &plan);
        let pid = self.id_of(&b.parent_hash());
        let td = self.td_of(pid) + b.difficulty();
        self.blocks.push(b.clone());
        let id = self.blocks.len() as u64;
        self.block_id.insert(b.hash(), id);
        self.parent.push(pid);
        self.td.push(td);
        self.label.push(format!("{label}{}", b.number()));
        if let Some(t) = &self.t {
            if b.transactions().iter().any(|x| x.hash() == t.hash()) {
                let bits = self.bits(trunk_ref, ep3(b.epoch()));
                self.t_bits.insert(id, bits);
                if !(bits.0 && bits.1) {
                    self.bad.insert(id);
                    self.label[id as usize - 1].push_str("(T immature)");
                }
            }
        }
        id
    }

    fn deliver(&mut self, id: u64, what: String) -> bool {
        let p = self.parent[id as usize - 1];
        let (ok, path) = if self.sim.invalid.contains(&p) {
            self.sim.invalid.insert(id);
            (false, vec![])
        } else if self.td_of(id) > self.td_of(self.sim.tip) {
            let mut path = vec![];
            let mut cur = id;
            while cur != 0 && !self.sim.verified.contains(&cur) { path.push(cur); cur = self.parent[cur as usize - 1]; }
            path.reverse();
            if path.iter().any(|b| self.bad.contains(b)) {
                self.sim.invalid.insert(id);
                (false, path)
            } else {
                for b in &path { self.sim.verified.insert(*b); }
                self.sim.tip = id;
                (true, path)
            }
        } else {
            (true, vec![])
        };
        self.deliveries.push(Delivery { block: id, expect_valid: ok, expect_tip: self.sim.tip, path, what });
        ok
    }

    fn describe(&self) -> Value {
        let tx_name = |x: &TransactionView| -> &'static str {
            if Some(x.hash()) == self.t.as_ref().map(|t| t.hash()) { "T" } else if Some(x.hash()) == self.g.as_ref().map(|t| t.hash()) { "G(dep group)" } else if x.hash() == self.o.hash() { "O" } else { "?" }
        };
        json!({
            "stream": STREAM, "history_index": self.index, "seed": self.seed,
            "genesis_epoch_length": self.params.epoch_len, "proposal_window": [1, self.params.far],
            "cellbase_maturity": {"number": self.params.maturity.0, "index": self.params.maturity.1, "length": self.params.maturity.2},
            "T": {"flavour": format!("{:?}", self.flavour), "spends_cellbase_of_block": self.cb_in, "cell_dep_cellbase_of_block": self.cb_dep,
                  "dep_through_group": self.flavour.via_group(), "group_lists_code_cell_too": self.group_has_code, "since": if self.with_since { "absolute block number 1 (always met)" } else { "0" }},
            "fork_height": self.fork,
            "T_commits": self.t_commits.iter().map(|(b, h, m)| json!({"branch": b, "height": h, "mature": m})).collect::<Vec<_>>(),
            "deliveries": self.deliveries.iter().map(|d| {
                let b = self.block(d.block);
                json!({"block": d.block, "name": self.label[d.block as usize - 1], "height": b.number(), "parent": self.parent[d.block as usize - 1],
                       "epoch": format!("{}", b.epoch()), "txs": b.transactions().iter().skip(1).map(tx_name).collect::<Vec<_>>(),
                       "what": d.what, "expected": if d.expect_valid { "accepted" } else { "rejected" }, "expected_tip": d.expect_tip})
            }).collect::<Vec<_>>(),
            "branch_B_starts_at_delivery": self.marker,
        })
    }
}

fn next_epoch(builder: &Node) -> (u64, u64, u64) {
    let snap = builder.shared.snapshot();
    let parent = snap.tip_header().clone();
    let e = snap.consensus().next_epoch_ext(&parent, &snap.borrow_as_data_loader()).expect("next epoch").epoch();
    ep3(e.number_with_fraction(parent.number() + 1))
}

/// same epoch, next index: the epoch of the block after one of epoch `e` (None across an epoch boundary)
fn following(e: (u64, u64, u64)) -> Option<(u64, u64, u64)> {
    if e.1 + 1 < e.2 { Some((e.0, e.1 + 1, e.2)) } else { None }
}

fn fresh_builder(h: &Hist, upto: u64) -> Result<Node, GenErr> {
    let node = Node::temp(&h.build_consensus);
    let mut chain = vec![];
    let mut cur = upto;
    while cur != 0 { chain.push(cur); cur = h.parent[cur as usize - 1]; }
    chain.reverse();
    for id in chain {
        if let Err(e) = node.process(h.block(id)) {
            node.stop();
            return Err(GenErr::Fail(format!("builder replay of block {id}: {e}")));
        }
    }
    Ok(node)
}

/// grows a chain on `builder` (whose tip is the chain's current end); returns the builder to go on with
#[allow(clippy::too_many_arguments)]
fn grow(h: &mut Hist, rng: &mut Rng, mut builder: Node, label: &str, mut pol: TPolicy, until_height: Option<u64>, extra: u64, allow_recommit: bool) -> Result<Node, GenErr> {
    macro_rules! fail {
        ($b:expr, $e:expr) => {{ let e = $e; $b.stop(); return Err(e); }};
    }
    let mut done_t = !pol.allow;
    let mut min_end = 0u64;
    let trunk_ref = |h: &Hist, builder: &Node| -> u64 { h.id_of(&builder.tip().hash()) };
    loop {
        let tip = builder.tip();
        let tip_id = h.id_of(&tip.hash());
        let n = tip.number() + 1;
        match until_height {
            Some(u) => { if tip.number() >= u { break; } }
            None => { if done_t && h.sim.tip == tip_id && tip.number() >= min_end { break; } }
        }
        if n > HEIGHT_CAP { fail!(builder, GenErr::Skip(format!("height cap reached on {label}"))); }
        let txs = h.std_txs(n);
        let mut place = false;
        let mut mature = true;
        if !done_t && h.t.is_some() && n >= h.earliest {
            let ep = next_epoch(&builder);
            let bits = h.bits(trunk_ref(h, &builder), ep);
            mature = bits.0 && bits.1;
            let next_mature = match following(ep) { Some(e2) => { let b2 = h.bits(trunk_ref(h, &builder), e2); b2.0 && b2.1 } None => true };
            if pol.want_mature {
                if mature { if pol.delay == 0 { place = true; } else { pol.delay -= 1; } }
            } else if mature {
                place = true;
            } else if pol.last_possible {
                place = next_mature;
            } else if pol.delay == 0 || next_mature {
                place = true;
            } else {
                pol.delay -= 1;
            }
            if !place && n >= pol.give_up_at { done_t = true; }
        }
        if !place {
            let id = h.build(rng, &builder, txs, label, tip_id);
            let what = if h.block(id).transactions().len() > 1 { format!("{}: commits {}", h.label[id as usize - 1], if n == 2 { "O" } else { "the dep-group cell" }) } else { h.label[id as usize - 1].clone() };
            h.deliver(id, what);
            if let Err(e) = builder.process(h.block(id)) { fail!(builder, GenErr::Fail(format!("the building node (cellbase_maturity 0) rejected block {id}: {e}"))); }
            continue;
        }
        let mut with_t = txs.clone();
        with_t.push(h.t.clone().unwrap());
        let id = h.build(rng, &builder, with_t, label, tip_id);
        let name = h.label[id as usize - 1].clone();
        h.t_commits.push((label.to_string(), n, mature));
        done_t = true;
        min_end = n + extra;
        if mature {
            h.deliver(id, format!("{name}: commits T, every cellbase output it uses is mature"));
            if let Err(e) = builder.process(h.block(id)) { fail!(builder, GenErr::Fail(format!("the building node (cellbase_maturity 0) rejected block {id}: {e}"))); }
            continue;
        }
        let bits = h.t_bits[&id];
        let why = format!("{name}: commits T where the cellbase output it {} immature (epoch {} < maturity + epoch of the cellbase's block)",
            match bits { (false, false) => "spends and the one among its cell deps are", (false, true) => "spends is", _ => "has among its cell deps is" }, h.block(id).epoch());
        let ok = h.deliver(id, why);
        // T may be committed again later on the chain that carries on, where it is mature
        let recommit = allow_recommit && rng.chance(1, 2);
        pol = TPolicy { allow: recommit, want_mature: true, delay: rng.range(0, 1), last_possible: false, give_up_at: n + 4 };
        done_t = !recommit;
        if !ok {
            // verified at once and rejected: a sibling without T carries the chain on (the builder's tip is still the parent)
            continue;
        }
        // stored as a side-branch block: its descendants, up to the block that makes the branch the heavier one
        h.bad_inside_side_branch += 1;
        if let Err(e) = builder.process(h.block(id)) { fail!(builder, GenErr::Fail(format!("the building node (cellbase_maturity 0) rejected block {id}: {e}"))); }
        loop {
            let tip = builder.tip();
            let tid = h.id_of(&tip.hash());
            if tip.number() + 1 > HEIGHT_CAP { fail!(builder, GenErr::Skip("height cap reached below an invalid block".into())); }
            let txs = h.std_txs(tip.number() + 1);
            let cid = h.build(rng, &builder, txs, &format!("{label}x"), tid);
            let heavier = h.td_of(cid) > h.td_of(h.sim.tip);
            let what = format!("{}: descendant of {name}{}", h.label[cid as usize - 1], if heavier { "; makes the branch the heavier one: the branch is verified now" } else { "" });
            h.deliver(cid, what);
            if heavier { break; }
            if let Err(e) = builder.process(h.block(cid)) { fail!(builder, GenErr::Fail(format!("the building node (cellbase_maturity 0) rejected block {cid}: {e}"))); }
        }
        let parent = h.parent[id as usize - 1];
        builder.stop();
        builder = fresh_builder(h, parent)?;
    }
    Ok(builder)
}

fn gen_history(seed: u64, hi: u64) -> Result<Hist, GenErr> {
    let mut rng = Rng::new(seed ^ 0x3A7_0C14 ^ hi.wrapping_mul(0x9E37_79B9_7F4A_7C15));
    // (flavour, class): class 0 = mature on A / immature on B, 1 = immature / immature, 2 = mature / mature, 3 = immature / mature
    const TABLE: [(Flavour, u64); 10] = [
        (Flavour::DepOnly, 0), (Flavour::GroupMember, 0), (Flavour::DepOnly, 1), (Flavour::BothDepLater, 0), (Flavour::InputOnly, 0),
        (Flavour::DepOnly, 3), (Flavour::GroupMember, 2), (Flavour::GroupAndInput, 0), (Flavour::BothInputLater, 1), (Flavour::DepOnly, 2),
    ];
    let (flavour, class) = if (hi as usize) < TABLE.len() { TABLE[hi as usize] } else {
        (*rng.pick(&[Flavour::DepOnly, Flavour::DepOnly, Flavour::GroupMember, Flavour::GroupMember, Flavour::InputOnly, Flavour::BothDepLater, Flavour::BothInputLater, Flavour::GroupAndInput]),
         *rng.pick(&[0u64, 0, 0, 1, 2, 3]))
    };
    let (mature_a, mature_b) = match class { 0 => (true, false), 1 => (false, false), 2 => (true, true), _ => (false, true) };
    let far = rng.range(2, 3);
    // blocks it takes a cellbase to mature: at least 4 where a dep group has to be committed first
    let kmin = if flavour.via_group() || matches!(flavour, Flavour::BothDepLater | Flavour::BothInputLater) { 4 } else { 3 };
    let params = match if hi < 2 { hi } else { rng.below(8) } {
        0 | 4 => { let k = rng.range(kmin, 5); Params { epoch_len: 1000, far, maturity: (0, k, 1000) } }
        1 | 5 => { let k = rng.range(kmin, 5); Params { epoch_len: 1000, far, maturity: (0, 2 * k - 1, 2000) } }   // k - 1/2 blocks: mature after k
        2 => { let k = rng.range(kmin, 5); Params { epoch_len: 60, far, maturity: (0, 1, 60 / k) } }
        3 => { let k = rng.range(kmin, 5); Params { epoch_len: 360, far, maturity: (0, k, 360) } }
        6 => Params { epoch_len: 8, far: 2, maturity: (0, 1, 2) },        // crossed in the next epoch
        _ => Params { epoch_len: 10, far: 2, maturity: (0, 3, 8) },
    };
    let far = params.far;
    let first_cb = far + 2; // the first block whose cellbase has an output
    let c_lo = first_cb + rng.range(0, 1);
    let (cb_in, cb_dep) = match flavour {
        Flavour::DepOnly | Flavour::GroupMember => (None, Some(c_lo)),
        Flavour::InputOnly => (Some(c_lo), None),
        Flavour::BothDepLater | Flavour::GroupAndInput => (Some(c_lo), Some(c_lo + 1)),
        Flavour::BothInputLater => (Some(c_lo + 1), Some(c_lo)),
    };
    let cmax = std::cmp::max(cb_in.unwrap_or(0), cb_dep.unwrap_or(0));
    let g_height = cmax + 2;
    let earliest = if flavour.via_group() { cmax + 3 } else { cmax + 2 };
    // fork so that heights at which T is still immature remain on the branches
    let fork = if params.epoch_len >= 60 { cmax + rng.range(0, if mature_a && mature_b { 3 } else { 1 }) } else { cmax + rng.range(0, 1) };
    let with_since = hi as usize >= TABLE.len() && rng.chance(1, 5);
    let group_has_code = rng.chance(1, 2);

    let m = EpochNumberWithFraction::new(params.maturity.0, params.maturity.1, params.maturity.2);
    let (consensus, funds) = mat_consensus(&params, m);
    let (build_consensus, _) = mat_consensus(&params, EpochNumberWithFraction::new(0, 0, 1));
    if consensus.genesis_hash() != build_consensus.genesis_hash() { return Err(GenErr::Fail("the two consensus objects have different genesis blocks".into())); }
    let (_, _, script) = always_success_cell();
    let fund = |i: usize| -> (OutPoint, u64) { (OutPoint::new(funds[i].hash(), 0), funds[i].outputs().get(0).unwrap().capacity().into()) };
    let o = spend(&[fund(0)], 1, 500 + hi % 7, 0x0a00 + hi);
    let mut h = Hist {
        index: hi, seed, params, consensus: consensus.clone(), build_consensus, flavour, with_since, group_has_code, cb_in, cb_dep, fork,
        o, t: None, g: None, t_fee: 0, unit_cycles: 0, earliest, g_height,
        blocks: vec![], block_id: HashMap::new(), parent: vec![], td: vec![], label: vec![], t_bits: HashMap::new(), bad: HashSet::new(),
        deliveries: vec![], marker: 0, sim: Sim { tip: 0, verified: HashSet::new(), invalid: HashSet::new() }, nonce: 1,
        t_commits: vec![], bad_inside_side_branch: 0,
    };
    let no_t = TPolicy { allow: false, want_mature: true, delay: 0, last_possible: false, give_up_at: 0 };
    macro_rules! step {
        ($e:expr) => { $e? };
    }
    // trunk up to the last cellbase T uses
    let builder = Node::temp(&h.build_consensus);
    let builder = step!(grow(&mut h, &mut rng, builder, "T", no_t, Some(cmax), 0, false));
    // one always-success lock group costs:
    {
        let b2 = h.block(h.main_block_at(h.id_of(&builder.tip().hash()), 2));
        let ext = builder.shared.store().get_block_ext(&b2.hash());
        h.unit_cycles = match ext.and_then(|e| e.cycles).and_then(|c| c.first().cloned()) {
            Some(c) => c,
            None => { builder.stop(); return Err(GenErr::Fail("no cycles recorded for O".into())); }
        };
    }
    // T (and the dep group G), now that the cellbase transactions are known
    {
        let tip_id = h.id_of(&builder.tip().hash());
        let cb = |n: u64| -> Result<(OutPoint, u64), GenErr> {
            cellbase_out(h.block(h.main_block_at(tip_id, n))).ok_or_else(|| GenErr::Fail(format!("the cellbase of block {n} has no output")))
        };
        let mut deps: Vec<CellDep> = vec![];
        let mut g: Option<TransactionView> = None;
        if flavour.via_group() {
            let mut members = vec![cb(cb_dep.unwrap())?.0];
            if group_has_code { members.push(always_success_dep().out_point()); }
            let data = OutPointVec::new_builder().set(members).build().as_bytes();
            let (op, cap) = fund(2);
            let gt = TransactionBuilder::default()
                .cell_dep(always_success_dep())
                .input(CellInput::new(op, 0))
                .output(CellOutput::new_builder().capacity(Capacity::shannons(cap - 1500)).lock(script.clone()).build())
                .output_data(data)
                .build();
            deps.push(CellDep::new_builder().out_point(OutPoint::new(gt.hash(), 0)).dep_type(DepType::DepGroup).build());
            if !group_has_code { deps.insert(0, always_success_dep()); }
            g = Some(gt);
        } else {
            deps.push(always_success_dep());
            if flavour.has_dep() { deps.push(CellDep::new_builder().out_point(cb(cb_dep.unwrap())?.0).build()); }
        }
        let mut inputs: Vec<(OutPoint, u64)> = vec![];
        if flavour.has_input() { inputs.push(cb(cb_in.unwrap())?); }
        if !flavour.has_input() || rng.chance(1, 2) { inputs.push(fund(1)); }
        let total: u64 = inputs.iter().map(|(_, c)| *c).sum();
        let fee = 1000 + hi % 13;
        let mut b = TransactionBuilder::default().cell_deps(deps);
        for (i, (op, _)) in inputs.iter().enumerate() {
            b = b.input(CellInput::new(op.clone(), if with_since && i == 0 { 1 } else { 0 }));
        }
        let t = b
            .output(CellOutput::new_builder().capacity(Capacity::shannons(total - fee)).lock(script.clone()).build())
            .output_data(Bytes::from((0x7000 + hi).to_le_bytes().to_vec()))
            .build();
        h.t = Some(t);
        h.g = g;
        h.t_fee = fee;
    }
    let builder = step!(grow(&mut h, &mut rng, builder, "T", no_t, Some(fork), 0, false));
    let trunk_tip = h.id_of(&builder.tip().hash());
    // branch A
    let pol_a = if mature_a { TPolicy { allow: true, want_mature: true, delay: *rng.pick(&[0u64, 0, 1, 2]), last_possible: false, give_up_at: u64::MAX } }
        else { TPolicy { allow: true, want_mature: false, delay: rng.range(0, 1), last_possible: rng.chance(1, 2), give_up_at: u64::MAX } };
    let extra_a = rng.range(0, 1);
    let builder = step!(grow(&mut h, &mut rng, builder, "A", pol_a, None, extra_a, true));
    builder.stop();
    h.marker = h.deliveries.len();
    // branch B
    let builder = fresh_builder(&h, trunk_tip)?;
    let pol_b = if mature_b { TPolicy { allow: true, want_mature: true, delay: *rng.pick(&[0u64, 0, 1]), last_possible: false, give_up_at: u64::MAX } }
        else { TPolicy { allow: true, want_mature: false, delay: rng.range(0, 1), last_possible: rng.chance(1, 2), give_up_at: u64::MAX } };
    let extra_b = rng.range(0, 1);
    let builder = step!(grow(&mut h, &mut rng, builder, "B", pol_b, None, extra_b, true));
    builder.stop();
    if h.marker == h.deliveries.len() { return Err(GenErr::Skip("branch B is empty".into())); }
    Ok(h)
}

#[derive(Clone, Copy, PartialEq, Eq, Debug)]
enum Forget { Never, ClearBeforeB, RestartBeforeB }

#[derive(Clone, Copy, Debug)]
struct MCfg {
    name: &'static str,
    caches_off: bool,
    forget: Forget,
    prewarm: bool,
}

const MCONFIGS: [MCfg; 5] = [
    MCfg { name: "B0 all caches disabled (reference)", caches_off: true, forget: Forget::Never, prewarm: false },
    MCfg { name: "A default caches, never cleared", caches_off: false, forget: Forget::Never, prewarm: false },
    MCfg { name: "E default caches, verification cache cleared before the competing branch", caches_off: false, forget: Forget::ClearBeforeB, prewarm: false },
    MCfg { name: "F default caches, node restarted before the competing branch", caches_off: false, forget: Forget::RestartBeforeB, prewarm: false },
    MCfg { name: "C default caches, verification cache pre-warmed with T's correct entry before the first delivery", caches_off: false, forget: Forget::Never, prewarm: true },
];

fn cfg_json(c: &MCfg) -> Value {
    json!({"name": c.name, "all_caches_disabled": c.caches_off, "forget": format!("{:?}", c.forget), "prewarmed_with_T": c.prewarm})
}

fn store_cfg(c: &MCfg) -> StoreConfig {
    if c.caches_off {
        StoreConfig { header_cache_size: 0, cell_data_cache_size: 0, block_proposals_cache_size: 0, block_tx_hashes_cache_size: 0, block_uncles_cache_size: 0, block_extensions_cache_size: 0, freezer_enable: false }
    } else {
        StoreConfig::default()
    }
}

fn open(h: &Hist, c: &MCfg, dir: &Path) -> Node {
    let node = Node::on_disk(&h.consensus, dir, store_cfg(c));
    if c.caches_off {
        node.shared.txs_verify_cache().blocking_write().resize(0);
    }
    node
}

#[derive(Clone, PartialEq, Eq, Debug, Default)]
struct MStep {
    verdict: &'static str,
    tip: u64,
    verified_now: Vec<(u64, ExtObs)>,
}

#[derive(Default)]
struct MRun {
    steps: Vec<MStep>,
    fin: BTreeMap<String, String>,
    cache_waits_timed_out: u64,
    t_hits: u64,
    stuck: Option<String>,
}

fn wait_cached(node: &Node, keys: &[Byte32]) -> bool {
    for _ in 0..1500 {
        {
            let cache = node.shared.txs_verify_cache();
            let g = cache.blocking_read();
            if keys.iter().all(|k| g.peek(k).is_some()) {
                return true;
            }
        }
        std::thread::sleep(std::time::Duration::from_millis(4));
    }
    false
}

fn replay(h: &Hist, c: &MCfg, dir: &Path) -> MRun {
    let _ = std::fs::remove_dir_all(dir);
    let mut node = open(h, c, dir);
    let t = h.t.as_ref().unwrap();
    if c.prewarm {
        node.shared.txs_verify_cache().blocking_write().put(t.witness_hash(), Completed { cycles: h.unit_cycles, fee: Capacity::shannons(h.t_fee) });
    }
    let mut run = MRun::default();
    let mut known: HashMap<u64, Option<bool>> = HashMap::new();
    for (si, d) in h.deliveries.iter().enumerate() {
        if si == h.marker {
            match c.forget {
                Forget::Never => {}
                Forget::ClearBeforeB => node.shared.txs_verify_cache().blocking_write().clear(),
                Forget::RestartBeforeB => {
                    node.stop();
                    node = open(h, c, dir);
                }
            }
        }
        // is T's entry there when a block committing T arrives (it may be answered from the cache)
        if !c.caches_off && h.block(d.block).transactions().iter().any(|x| x.hash() == t.hash())
            && node.shared.txs_verify_cache().blocking_read().peek(&t.witness_hash()).is_some() {
            run.t_hits += 1;
        }
        let mut o = MStep::default();
        o.verdict = match node.process_timed(h.block(d.block)) {
            Some(Ok(_)) => "accepted",
            Some(Err(_)) => "rejected",
            None => {
                run.stuck = Some(format!("the node stopped answering at delivery {si} (block {})", d.block));
                run.steps.push(o);
                node.abandon();
                return run;
            }
        };
        let snap = node.shared.snapshot();
        o.tip = if snap.tip_number() == 0 { 0 } else { *h.block_id.get(&snap.tip_hash()).unwrap_or(&9_000_000) };
        let mut changed: Vec<(u64, u64, ExtObs)> = vec![];
        for id in 1..=h.blocks.len() as u64 {
            let b = h.block(id);
            if let Some(e) = ext_obs(node.shared.store(), &b.hash()) {
                if known.get(&id) != Some(&e.verified) {
                    known.insert(id, e.verified);
                    changed.push((b.number(), id, e));
                }
            }
        }
        changed.sort_by_key(|x| (x.0, x.1));
        o.verified_now = changed.into_iter().map(|(_, id, e)| (id, e)).collect();
        // BlockTxsVerifier::update_cache is a spawned task: let the entries of the blocks verified in
        // this step land, so that what a later block finds in the cache does not depend on scheduling
        if !c.caches_off {
            let keys: Vec<Byte32> = o.verified_now.iter().filter(|(_, e)| e.verified == Some(true))
                .flat_map(|(id, _)| h.block(*id).transactions().into_iter().skip(1).map(|t| t.witness_hash()).collect::<Vec<_>>()).collect();
            if !keys.is_empty() && !wait_cached(&node, &keys) {
                run.cache_waits_timed_out += 1;
            }
        }
        run.steps.push(o);
    }
    {
        let snap = node.shared.snapshot();
        let store = node.shared.store();
        run.fin.insert("tip".into(), format!("{:?}", h.block_id.get(&snap.tip_hash())));
        for id in 1..=h.blocks.len() as u64 {
            let hash = h.block(id).hash();
            run.fin.insert(format!("b{id}.ext"), format!("{:?}", ext_obs(store, &hash)));
            run.fin.insert(format!("b{id}.main"), format!("{}", store.is_main_chain(&hash)));
        }
        let mut txs: Vec<(&str, &TransactionView)> = vec![("T", t), ("O", &h.o)];
        if let Some(g) = &h.g { txs.push(("G", g)); }
        for (name, tx) in txs {
            run.fin.insert(format!("{name}.info"), format!("{:?}", store.get_transaction_info(&tx.hash()).map(|i| (h.block_id.get(&i.block_hash).cloned(), i.block_number, i.index))));
            let live = matches!(snap.cell(&OutPoint::new(tx.hash(), 0), false), CellStatus::Live(_));
            run.fin.insert(format!("{name}.out0.live"), live.to_string());
        }
        for input in t.inputs().into_iter() {
            let live = matches!(snap.cell(&input.previous_output(), false), CellStatus::Live(_));
            run.fin.insert(format!("T.input.{}.live", hex(&input.previous_output().as_slice()[..6])), live.to_string());
        }
    }
    node.stop();
    let _ = std::fs::remove_dir_all(dir);
    run
}

fn first_difference(a: &MRun, b: &MRun) -> Option<String> {
    for (i, (x, y)) in a.steps.iter().zip(b.steps.iter()).enumerate() {
        if x.verdict != y.verdict { return Some(format!("delivery {i}: verdict {} vs reference {}", x.verdict, y.verdict)); }
        if x.tip != y.tip { return Some(format!("delivery {i}: tip is block {} vs reference block {}", x.tip, y.tip)); }
        if x.verified_now != y.verified_now { return Some(format!("delivery {i}: verification records {:?} vs reference {:?}", x.verified_now, y.verified_now)); }
    }
    if a.steps.len() != b.steps.len() { return Some("different number of deliveries processed".into()); }
    for (k, v) in &a.fin {
        if b.fin.get(k) != Some(v) { return Some(format!("final state, {k}: {v} vs reference {:?}", b.fin.get(k))); }
    }
    None
}

fn coq_completed(cycles: u64, fee: u64) -> String {
    format!("mkC {} {}", coq_n(cycles as u128), coq_n(fee as u128))
}

/// one (history, configuration) as a case of the model (Tx/CacheMaturity.v check_mcase)
fn coq_case(h: &Hist, c: &MCfg, r: &MRun, content: &HashMap<Byte32, (u64, u64)>, keys: &HashMap<Byte32, u64>) -> String {
    let t = h.t.as_ref().unwrap();
    let block_txs = |id: u64| -> String {
        let l: Vec<String> = h.block(id).transactions().iter().skip(1).map(|tx| {
            let (cy, fee) = content[&tx.witness_hash()];
            let (mi, md) = if tx.hash() == t.hash() { h.t_bits[&id] } else { (true, true) };
            format!("mkMO {} (Some ({})) true {} {}", coq_n(keys[&tx.witness_hash()] as u128), coq_completed(cy, fee), coq_bool(mi), coq_bool(md))
        }).collect();
        format!("[{}]", l.join("; "))
    };
    let mut items: Vec<String> = vec![];
    for (si, (d, o)) in h.deliveries.iter().zip(r.steps.iter()).enumerate() {
        if si == h.marker && c.forget != Forget::Never { items.push("MForget".into()); }
        if o.verdict == "accepted" {
            let ok: Vec<&(u64, ExtObs)> = o.verified_now.iter().filter(|(_, e)| e.verified == Some(true)).collect();
            if ok.is_empty() { continue; }
            let blocks: Vec<String> = ok.iter().map(|(id, _)| block_txs(*id)).collect();
            let recs: Vec<String> = ok.iter().map(|(_, e)| {
                let cyc = e.cycles.clone().unwrap_or_default();
                let l: Vec<String> = e.fees.iter().enumerate().map(|(i, f)| coq_completed(*cyc.get(i).unwrap_or(&u64::MAX), *f)).collect();
                format!("[{}]", l.join("; "))
            }).collect();
            items.push(format!("MVerify [{}] true [{}]", blocks.join("; "), recs.join("; ")));
        } else {
            let path: Vec<u64> = if d.path.is_empty() { vec![d.block] } else { d.path.clone() };
            let blocks: Vec<String> = path.iter().map(|id| block_txs(*id)).collect();
            items.push(format!("MVerify [{}] false []", blocks.join("; ")));
        }
    }
    let init = if c.prewarm { format!("[({}, {})]", coq_n(keys[&t.witness_hash()] as u128), coq_completed(h.unit_cycles, h.t_fee)) } else { "[]".to_string() };
    format!("mkMCase {} {} {} [{}]", coq_n(h.consensus.max_block_cycles() as u128), if c.caches_off { "(Some 0%nat)" } else { "None" }, init, items.join("; "))
}

pub struct MatOut {
    pub viol: Vec<Value>,
    pub cases: Vec<(String, Value)>,
    pub stats: BTreeMap<String, u64>,
    pub distinct: Vec<String>,
    pub samples: Vec<Value>,
}

fn bump(stats: &mut BTreeMap<String, u64>, k: &str, n: u64) {
    *stats.entry(format!("mat_{k}")).or_default() += n;
}

fn run_one(seed: u64, hi: u64, scratch: &Path, out: &mut MatOut) {
    let t0 = std::time::Instant::now();
    let h = match gen_history(seed, hi) {
        Ok(h) => h,
        Err(GenErr::Skip(why)) => {
            bump(&mut out.stats, "histories_skipped", 1);
            if std::env::var("HX_TIMING").is_ok() { eprintln!("maturity {hi}: skipped ({why})"); }
            return;
        }
        Err(GenErr::Fail(e)) => {
            out.viol.push(json!({"what": e, "detail": {"stream": STREAM, "history_index": hi, "seed": seed}}));
            return;
        }
    };
    let desc = h.describe();
    let detail = |extra: Value| -> Value { let mut d = desc.clone(); d["more"] = extra; d };
    let t = h.t.as_ref().unwrap();
    bump(&mut out.stats, "histories", 1);
    bump(&mut out.stats, &format!("flavour_{:?}", h.flavour), 1);
    bump(&mut out.stats, "deliveries", h.deliveries.len() as u64);
    bump(&mut out.stats, "deliveries_expected_rejected", h.deliveries.iter().filter(|d| !d.expect_valid).count() as u64);
    bump(&mut out.stats, "invalid_block_inside_side_branch_verdict_at_overtaking_block", h.bad_inside_side_branch);
    if h.with_since { bump(&mut out.stats, "T_with_absolute_since", 1); }
    if h.params.epoch_len < 60 { bump(&mut out.stats, "maturity_crossed_in_next_epoch", 1); }
    if h.params.maturity.2 != h.params.epoch_len { bump(&mut out.stats, "maturity_fraction_with_other_denominator", 1); }
    let on = |b: &str| -> Vec<bool> { h.t_commits.iter().filter(|(l, _, _)| l == b).map(|(_, _, m)| *m).collect() };
    let (ca, cb) = (on("A"), on("B"));
    let cls = |v: &Vec<bool>| -> &'static str { match (v.contains(&true), v.contains(&false)) { (true, true) => "immature_then_mature", (true, false) => "mature", (false, true) => "immature", _ => "not_committed" } };
    bump(&mut out.stats, &format!("T_on_A_{}_on_B_{}", cls(&ca), cls(&cb)), 1);
    let cached_then_immature = ca.contains(&true) && cb.contains(&false);
    if cached_then_immature { bump(&mut out.stats, "T_verified_mature_on_A_then_committed_immature_on_B", 1); }
    if cached_then_immature && !h.flavour.has_input() && !h.with_since { bump(&mut out.stats, "of_those_T_has_no_since_and_no_cellbase_input", 1); }
    for (id, bits) in &h.t_bits {
        let _ = id;
        match bits { (false, false) => bump(&mut out.stats, "commit_input_and_dep_immature", 1), (false, true) => bump(&mut out.stats, "commit_input_immature_only", 1),
                     (true, false) => bump(&mut out.stats, "commit_dep_immature_only", 1), _ => bump(&mut out.stats, "commit_all_mature", 1) }
    }
    if std::env::var("HX_TIMING").is_ok() { eprintln!("maturity {hi}: generated in {:?} ({} blocks, {} deliveries)", t0.elapsed(), h.blocks.len(), h.deliveries.len()); }

    let mut runs: Vec<(MCfg, MRun)> = vec![];
    for c in MCONFIGS.iter() {
        let t1 = std::time::Instant::now();
        let r = replay(&h, c, &scratch.join(format!("m{hi}")));
        if std::env::var("HX_TIMING").is_ok() { eprintln!("maturity {hi}: [{}] {:?}", c.name, t1.elapsed()); }
        runs.push((*c, r));
    }
    let reference = &runs[0].1;
    for (c, r) in &runs {
        if let Some(s) = &r.stuck {
            out.viol.push(json!({"what": format!("[{}] {s}", c.name), "detail": detail(json!({"config": cfg_json(c)}))}));
        }
        for (si, (d, o)) in h.deliveries.iter().zip(r.steps.iter()).enumerate() {
            if d.expect_valid != (o.verdict == "accepted") {
                out.viol.push(json!({
                    "what": format!("[{}] answered '{}' to delivery {si}, block {} ({}); by the cellbase maturity rule (a cellbase output among the inputs or the cell deps is usable only from epoch(cell's block) + cellbase_maturity on) and chain selection it must be {}",
                                    c.name, o.verdict, d.block, d.what, if d.expect_valid { "accepted" } else { "rejected" }),
                    "detail": detail(json!({"config": cfg_json(c), "delivery": si, "block": d.block}))}));
                break;
            }
            if d.expect_tip != o.tip {
                out.viol.push(json!({
                    "what": format!("[{}] after delivery {si} (block {}, {}) the tip is block {}, the generator expects block {}", c.name, d.block, d.what, o.tip, d.expect_tip),
                    "detail": detail(json!({"config": cfg_json(c), "delivery": si, "block": d.block}))}));
                break;
            }
        }
        bump(&mut out.stats, "cache_waits_timed_out", r.cache_waits_timed_out);
        bump(&mut out.stats, "blocks_committing_T_delivered_while_T_is_in_the_cache", r.t_hits);
    }
    for (c, r) in runs.iter().skip(1) {
        if let Some(msg) = first_difference(r, reference) {
            out.viol.push(json!({
                "what": format!("[{}] differs from the node without caches: {msg}", c.name),
                "detail": detail(json!({"config": cfg_json(c)}))}));
        }
    }
    // content of every (transaction, witnesses): what some node recorded for it; for T also what the generator computed
    let mut content: HashMap<Byte32, (u64, u64)> = HashMap::new();
    content.insert(t.witness_hash(), (h.unit_cycles, h.t_fee));
    for (c, r) in runs.iter() {
        for o in &r.steps {
            for (id, e) in &o.verified_now {
                if e.verified != Some(true) { continue; }
                if let Some(cy) = &e.cycles {
                    for (i, tx) in h.block(*id).transactions().iter().skip(1).enumerate() {
                        if i < cy.len() && i < e.fees.len() {
                            if tx.hash() == t.hash() && (cy[i], e.fees[i]) != (h.unit_cycles, h.t_fee) {
                                out.viol.push(json!({
                                    "what": format!("[{}] recorded cycles {} / fee {} for T in block {id}; the generator computed cycles {} (one always-success lock group, as for O) and fee {}", c.name, cy[i], e.fees[i], h.unit_cycles, h.t_fee),
                                    "detail": detail(json!({"config": cfg_json(c), "block": id}))}));
                            }
                            content.entry(tx.witness_hash()).or_insert((cy[i], e.fees[i]));
                        }
                    }
                }
            }
        }
    }
    for tx in [Some(&h.o), h.g.as_ref()].into_iter().flatten() {
        content.entry(tx.witness_hash()).or_insert((h.unit_cycles, 0));
    }
    let mut keys: HashMap<Byte32, u64> = HashMap::new();
    for (i, tx) in [Some(t), Some(&h.o), h.g.as_ref()].into_iter().flatten().enumerate() {
        keys.insert(tx.witness_hash(), i as u64 + 1);
    }
    for (c, r) in runs.iter() {
        let mut d = desc.clone();
        d["config"] = cfg_json(c);
        d["verdicts"] = json!(r.steps.iter().map(|s| s.verdict).collect::<Vec<_>>());
        out.cases.push((coq_case(&h, c, r, &content, &keys), d));
    }
    out.distinct.push(format!("{}", desc));
    if out.samples.len() < 2 {
        out.samples.push(json!({"history": desc, "verdicts_reference": reference.steps.iter().map(|s| s.verdict).collect::<Vec<_>>(), "configs": MCONFIGS.iter().map(|c| c.name).collect::<Vec<_>>()}));
    }
}

/// `only`: replay of a single history
pub fn run(seed: u64, thorough: bool, scratch: &Path, only: Option<u64>) -> MatOut {
    let mut out = MatOut { viol: vec![], cases: vec![], stats: BTreeMap::new(), distinct: vec![], samples: vec![] };
    let n_hist = shard_share(if thorough { 140 } else { 8 });
    for hi in 0..n_hist {
        if let Some(o) = only { if o != hi { continue; } }
        let r = std::panic::catch_unwind(std::panic::AssertUnwindSafe(|| {
            let mut o = MatOut { viol: vec![], cases: vec![], stats: BTreeMap::new(), distinct: vec![], samples: vec![] };
            run_one(seed, hi, scratch, &mut o);
            o
        }));
        match r {
            Ok(o) => {
                out.viol.extend(o.viol);
                out.cases.extend(o.cases);
                for (k, v) in o.stats { *out.stats.entry(k).or_default() += v; }
                out.distinct.extend(o.distinct);
                for s in o.samples { if out.samples.len() < 2 { out.samples.push(s); } }
            }
            Err(p) => {
                let msg = p.downcast_ref::<String>().cloned().or_else(|| p.downcast_ref::<&str>().map(|s| s.to_string())).unwrap_or_default();
                out.viol.push(json!({"what": format!("a node panicked in the cellbase-maturity stream: {msg}"), "detail": {"stream": STREAM, "history_index": hi, "seed": seed}}));
            }
        }
    }
    out
}
