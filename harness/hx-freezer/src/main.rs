//! C09 correspondence harness: drives the real `ckb-freezer` files
//! (FreezerFilesBuilder::build / append / retrieve / truncate / re-open, and
//! physical crash cuts of the INDEX and blkNNNNNN files) on generated
//! histories, evaluates the property predicate directly on what the
//! implementation answers, and writes the same histories with the observed
//! answers as Coq cases for the model (coq/Freezer/Machine.v) to re-compute.
use ckb_freezer::FreezerFilesBuilder;
use hx_common::*;
use serde_json::{json, Value};
use std::collections::BTreeMap;
use std::fs;
use std::path::{Path, PathBuf};

#[derive(Clone, Debug)]
enum Op {
    Append(Vec<u8>),
    Truncate(u64),
    Reopen,
    Crash(u64, u64),
    /// retrieve(i) alone: leaves the cursor of the data file it reads behind item i
    Read(u64),
}

type ItemObs = Option<Option<Vec<u8>>>;
type Obs = Option<(u64, Vec<ItemObs>)>;

fn op_coq(o: &Op) -> String {
    match o {
        Op::Append(x) => format!("OAppend {}", coq_bytes(x)),
        Op::Truncate(i) => format!("OTruncate {}", coq_nat(*i)),
        Op::Reopen => "OReopen".into(),
        Op::Crash(ib, c) => format!("OCrash {} {}", coq_nat(*ib), coq_nat(*c)),
        Op::Read(_) => panic!("reads only occur in histories rendered with cop_coq"),
    }
}
fn cop_coq(o: &Op) -> String {
    match o {
        Op::Read(i) => format!("CRead {}", coq_nat(*i)),
        o => format!("CO ({})", op_coq(o)),
    }
}
fn op_json(o: &Op) -> Value {
    match o {
        Op::Append(x) => json!({"append": hex(x)}),
        Op::Truncate(i) => json!({"truncate": i}),
        Op::Reopen => json!("reopen"),
        Op::Crash(ib, c) => json!({"crash": {"index_bytes": ib, "head_file_bytes": c}}),
        Op::Read(i) => json!({"read": i}),
    }
}
fn item_coq(i: &ItemObs) -> String {
    coq_option(i, |o| coq_option(o, |b| coq_bytes(b)))
}
fn obs_coq(o: &Obs) -> String {
    coq_option(o, |(n, d)| format!("({}, {})", coq_nat(*n), coq_list(d, item_coq)))
}
fn obs_json(o: &Obs) -> Value {
    match o {
        None => json!("open-error"),
        Some((n, d)) => json!({"number": n, "items": d.iter().map(|i| match i {
            None => json!("io-error"),
            Some(None) => json!(null),
            Some(Some(b)) => json!(hex(b)),
        }).collect::<Vec<_>>()}),
    }
}

/// what the on-disk index says, parsed by hand (12-byte entries: u32 file id,
/// u64 offset, little endian) — used to aim the crash cut at the head file
/// and to count the items that are "fully written" after a cut
fn read_index(dir: &Path) -> Vec<(u32, u64)> {
    let raw = fs::read(dir.join("INDEX")).unwrap_or_default();
    raw.chunks_exact(12)
        .map(|c| {
            (
                u32::from_le_bytes(c[0..4].try_into().unwrap()),
                u64::from_le_bytes(c[4..12].try_into().unwrap()),
            )
        })
        .collect()
}
fn blk(dir: &Path, id: u32) -> PathBuf {
    dir.join(format!("blk{:06}", id))
}
fn set_len(p: &Path, len: u64) {
    if let Ok(f) = fs::OpenOptions::new().write(true).open(p) {
        let cur = f.metadata().map(|m| m.len()).unwrap_or(0);
        if len < cur {
            f.set_len(len).unwrap();
        }
    }
}

struct Violation {
    what: String,
    detail: Value,
}

/// abstract specification, written from the property text
fn spec_apply(items: &mut Vec<Vec<u8>>, op: &Op) {
    match op {
        Op::Append(x) => items.push(x.clone()),
        Op::Truncate(i) => {
            let n = items.len() as u64; // number() = n + 1
            if *i >= 1 && i + 1 < n + 1 {
                items.truncate(*i as usize);
            }
        }
        _ => {}
    }
}

macro_rules! observe {
    ($f:expr) => {{
        let n = $f.number();
        let mut d = Vec::new();
        for i in 1..n {
            d.push(match $f.retrieve(i) {
                Ok(v) => Some(v),
                Err(_) => None,
            });
        }
        (n, d)
    }};
}
macro_rules! open {
    ($dir:expr, $max:expr, $comp:expr) => {{
        match FreezerFilesBuilder::new($dir.to_path_buf())
            .max_file_size($max)
            .enable_compression($comp)
            .build()
        {
            Ok(mut f) => match f.preopen() {
                Ok(()) => Some(f),
                Err(_) => None,
            },
            Err(_) => None,
        }
    }};
}

/// run_history_inner with a panic of the freezer turned into a violation that carries the history
fn run_history(dir: &Path, max: u64, comp: bool, ops: &[Op], viol: &mut Vec<Violation>, ctx: &Value) -> Vec<Obs> {
    let r = std::panic::catch_unwind(std::panic::AssertUnwindSafe(|| run_history_inner(dir, max, comp, ops, viol, ctx)));
    match r {
        Ok(o) => o,
        Err(p) => {
            let msg = p.downcast_ref::<String>().cloned().or_else(|| p.downcast_ref::<&str>().map(|s| s.to_string())).unwrap_or_default();
            viol.push(Violation { what: format!("the freezer panicked while this history was applied or read back: {msg}"), detail: ctx.clone() });
            vec![None]
        }
    }
}

/// Runs one history on the implementation. Returns the observation after every
/// op and checks the property predicate on the way.
fn run_history_inner(
    dir: &Path,
    max: u64,
    comp: bool,
    ops: &[Op],
    viol: &mut Vec<Violation>,
    ctx: &Value,
) -> Vec<Obs> {
    let _ = fs::remove_dir_all(dir);
    fs::create_dir_all(dir).unwrap();
    let mut out = Vec::new();
    let mut spec: Vec<Vec<u8>> = Vec::new();
    let mut f = match open!(dir, max, comp) {
        Some(f) => f,
        None => {
            viol.push(Violation { what: "open of an empty directory failed".into(), detail: ctx.clone() });
            return vec![None];
        }
    };
    for (step, op) in ops.iter().enumerate() {
        let mut crashed: Option<(Vec<(u32, u64)>, u64, u64)> = None;
        match op {
            Op::Append(x) => {
                let n = f.number();
                // a transient I/O error: for every third payload length the head data file is made
                // unavailable (renamed away) during the append.  An append that stays inside the head file
                // writes through its open handle and succeeds; one that rolls over cannot re-open the old
                // head read-only and returns Err — nothing was acknowledged, and the retry (file back in
                // place) must succeed and leave every item readable.
                let trick = x.len() % 3 == 0 && std::env::var("HX_NO_IO_ERRORS").is_err();
                let mut moved: Option<(std::path::PathBuf, std::path::PathBuf)> = None;
                if trick {
                    let head = read_index(dir).last().map(|e| e.0).unwrap_or(0);
                    let from = blk(dir, head);
                    let to = dir.join("moved-away");
                    if fs::rename(&from, &to).is_ok() { moved = Some((from, to)); }
                }
                let r1 = f.append(n, x);
                if let Some((from, to)) = moved.take() { let _ = fs::rename(&to, &from); }
                match r1 {
                    Ok(()) => {}
                    Err(e) if trick => {
                        if f.number() != n {
                            viol.push(Violation { what: format!("an append that returned an error ({e}) changed number() from {n} to {}", f.number()), detail: json!({"case": ctx, "step": step}) });
                        }
                        if let Err(e2) = f.append(n, x) {
                            viol.push(Violation { what: format!("the retry of an append that failed with a transient I/O error ({e}) fails: {e2}"), detail: json!({"case": ctx, "step": step}) });
                        }
                    }
                    Err(e) => viol.push(Violation { what: format!("append failed: {e}"), detail: json!({"case": ctx, "step": step}) }),
                }
            }
            Op::Truncate(i) => {
                if let Err(e) = f.truncate(*i) {
                    viol.push(Violation { what: format!("truncate failed: {e}"), detail: json!({"case": ctx, "step": step}) });
                }
            }
            Op::Reopen => {
                let _ = f.sync_all();
                drop(f);
                f = match open!(dir, max, comp) {
                    Some(f) => f,
                    None => {
                        viol.push(Violation { what: "re-open failed".into(), detail: json!({"case": ctx, "step": step}) });
                        out.push(None);
                        return out;
                    }
                };
            }
            Op::Read(_) => {}
            Op::Crash(ib, c) => {
                let _ = f.sync_all();
                drop(f);
                let idx = read_index(dir);
                let head = idx.last().map(|e| e.0).unwrap_or(0);
                set_len(&dir.join("INDEX"), *ib);
                set_len(&blk(dir, head), *c);
                crashed = Some((idx, *ib, *c));
                f = match open!(dir, max, comp) {
                    Some(f) => f,
                    None => {
                        viol.push(Violation { what: "re-open after a crash cut failed".into(), detail: json!({"case": ctx, "step": step}) });
                        out.push(None);
                        return out;
                    }
                };
            }
        }
        let (n, d) = observe!(f);
        // ---- property predicate on the implementation's answers ----
        if let Some((idx, ib, c)) = crashed {
            let head = idx.last().map(|e| e.0).unwrap_or(0);
            let kept = std::cmp::max(1, (ib / 12) as usize).min(idx.len());
            // items whose index entry and data are both fully there
            let mut written = 0u64;
            for (i, e) in idx.iter().enumerate().take(kept).skip(1) {
                if e.0 < head || e.1 <= c {
                    written = i as u64;
                } else {
                    break;
                }
            }
            let got = (n - 1) as usize;
            let prefix_ok = got <= spec.len()
                && d.iter().enumerate().all(|(i, it)| *it == Some(Some(spec[i].clone())));
            if !prefix_ok {
                viol.push(Violation {
                    what: "after a crash the freezer does not hold a byte-exact prefix of the appended items".into(),
                    detail: json!({"case": ctx, "step": step, "observed": obs_json(&Some((n, d.clone()))), "appended": spec.iter().map(|x| hex(x)).collect::<Vec<_>>()}),
                });
            } else if (got as u64) < written {
                viol.push(Violation {
                    what: format!("after a crash {got} items survive although {written} were fully written (data and index entry)"),
                    detail: json!({"case": ctx, "step": step, "observed": obs_json(&Some((n, d.clone())))}),
                });
            }
            if prefix_ok {
                spec.truncate(got);
            }
        } else {
            spec_apply(&mut spec, op);
            let want: Vec<ItemObs> = spec.iter().map(|x| Some(Some(x.clone()))).collect();
            if n != spec.len() as u64 + 1 || d != want {
                viol.push(Violation {
                    what: "number()/retrieve() disagree with the list of appended items".into(),
                    detail: json!({"case": ctx, "step": step, "observed": obs_json(&Some((n, d.clone()))), "expected_items": spec.iter().map(|x| hex(x)).collect::<Vec<_>>()}),
                });
                // resynchronise the specification so later steps are still meaningful
                spec = d.iter().filter_map(|i| i.clone().flatten()).collect();
            }
        }
        // a lone read after the observation: the next operation finds the read cursor behind item i
        if let Op::Read(i) = op {
            let got = f.retrieve(*i).ok();
            let want: ItemObs = if *i >= 1 && (*i as usize) <= spec.len() { Some(Some(spec[*i as usize - 1].clone())) } else { Some(None) };
            if got != want {
                viol.push(Violation { what: format!("retrieve({i}) alone does not return the appended item"), detail: json!({"case": ctx, "step": step}) });
            }
        }
        out.push(Some((n, d)));
    }
    out
}

/// the same history with lone reads inserted (biased to items that are not the newest)
fn with_reads(r: &mut Rng, ops: &[Op], stats: &mut BTreeMap<String, u64>) -> Vec<Op> {
    let mut out = Vec::new();
    let mut count: u64 = 0;
    for op in ops {
        match op {
            Op::Append(_) => count += 1,
            Op::Truncate(i) => { if *i >= 1 && *i < count { count = *i; } }
            Op::Crash(..) => { count = count.saturating_sub(1); }
            _ => {}
        }
        out.push(op.clone());
        if count >= 1 && r.chance(2, 5) {
            let i = match r.below(6) { 0 => count, 1 => count + 1, 2 => 0, _ => r.range(1, std::cmp::max(1, count.saturating_sub(1))) };
            *stats.entry("op_read".into()).or_default() += 1;
            out.push(Op::Read(i));
        }
    }
    out
}

fn gen_item(r: &mut Rng, max: u64, small: bool) -> Vec<u8> {
    let len = if small {
        r.range(1, 7)
    } else {
        match r.below(10) {
            0 => max,                         // exactly fills an empty file
            1 => max + r.range(1, 3),         // larger than a file
            2 => r.range(1, 3),
            _ => r.range(1, std::cmp::max(2, max / 2)),
        }
    };
    let b = r.range(1, 250) as u8;
    (0..len).map(|i| b.wrapping_add(i as u8)).collect()
}

fn gen_history(r: &mut Rng, max: u64, nops: usize, small: bool, with_crash: bool, stats: &mut BTreeMap<String, u64>) -> Vec<Op> {
    let mut ops = Vec::new();
    let mut count: u64 = 0; // abstract item count (upper bound after crashes)
    let mut head_fill: u64 = 0;
    for _ in 0..nops {
        let k = r.below(100);
        let op = if k < 68 || count == 0 {
            // aim some items at the exact rollover boundary
            let mut x = gen_item(r, max, small);
            if r.chance(1, 6) && head_fill < max {
                let want = max - head_fill + r.below(2); // exactly fills / one byte over
                if want >= 1 {
                    x = (0..want).map(|i| 100u8.wrapping_add(i as u8)).collect();
                }
            }
            if head_fill + x.len() as u64 > max {
                head_fill = x.len() as u64;
                *stats.entry("rollovers".into()).or_default() += 1;
            } else {
                head_fill += x.len() as u64;
            }
            count += 1;
            Op::Append(x)
        } else if k < 76 {
            let i = r.range(0, count + 1);
            if i >= 1 && i + 1 < count + 1 {
                count = i;
                head_fill = 0; // unknown; only steers generation
            }
            Op::Truncate(i)
        } else if k < 84 || !with_crash {
            Op::Reopen
        } else {
            // crash cut aimed at the last few entries / last bytes
            let entries = count + 1;
            let back = r.below(std::cmp::min(4, entries));
            let ib = (entries - back) * 12 + *r.pick(&[0u64, 0, 0, 1, 5, 11]);
            let c = match r.below(4) {
                0 => 0,
                1 => r.range(0, max + 4),
                _ => head_fill.saturating_sub(r.below(12)),
            };
            count = count.saturating_sub(back);
            head_fill = std::cmp::min(head_fill, c);
            Op::Crash(ib, c)
        };
        let tag = match &op {
            Op::Append(_) => "append",
            Op::Truncate(_) => "truncate",
            Op::Reopen => "reopen",
            Op::Crash(..) => "crash",
            Op::Read(_) => "read",
        };
        *stats.entry(format!("op_{tag}")).or_default() += 1;
        ops.push(op);
    }
    ops
}

fn unhex(s: &str) -> Vec<u8> {
    (0..s.len() / 2).map(|i| u8::from_str_radix(&s[2 * i..2 * i + 2], 16).unwrap()).collect()
}
fn parse_ops(v: &Value) -> Vec<Op> {
    v.as_array().unwrap().iter().map(|o| {
        if o == "reopen" { Op::Reopen }
        else if let Some(a) = o.get("append") { Op::Append(unhex(a.as_str().unwrap())) }
        else if let Some(t) = o.get("truncate") { Op::Truncate(t.as_u64().unwrap()) }
        else if let Some(t) = o.get("read") { Op::Read(t.as_u64().unwrap()) }
        else { let c = &o["crash"]; Op::Crash(c["index_bytes"].as_u64().unwrap(), c["head_file_bytes"].as_u64().unwrap()) }
    }).collect()
}
/// re-run the first case of a replay file on the implementation
fn replay(path: &str) -> ! {
    let v: Value = serde_json::from_str(&fs::read_to_string(path).unwrap()).unwrap();
    let case = if let Some(vs) = v.get("violations") { vs[0]["detail"]["case"].clone() } else { v["cases"][0]["case"].clone() };
    let ops = if case.get("ops").is_some() { parse_ops(&case["ops"]) } else {
        let mut o = parse_ops(&case["prefix"]);
        let c = &case["cuts"][0];
        o.push(Op::Crash(c["index_bytes"].as_u64().unwrap(), c["head_file_bytes"].as_u64().unwrap()));
        o
    };
    let max = case["max_file_size"].as_u64().unwrap();
    let comp = case.get("compression").and_then(|c| c.as_bool()).unwrap_or(false);
    let scratch = scratch_dir("C09");
    let mut viol = Vec::new();
    let obs = run_history(&scratch.join("r"), max, comp, &ops, &mut viol, &case);
    let _ = fs::remove_dir_all(&scratch);
    println!("replayed {} ops; observations: {}", ops.len(), serde_json::to_string(&obs.iter().map(obs_json).collect::<Vec<_>>()).unwrap());
    for x in &viol { println!("PROPERTY VIOLATED: {} :: {}", x.what, x.detail); }
    std::process::exit(if viol.is_empty() { 0 } else { 1 })
}

fn main() {
    if let Ok(p) = std::env::var("HX_REPLAY") { replay(&p); }
    let seed = seed();
    let thorough = tier_is_thorough();
    let out = out_dir("C09");
    for e in fs::read_dir(&out).unwrap().flatten() {
        let n = e.file_name().to_string_lossy().to_string();
        if n.starts_with("cases_") || n == "summary.json" {
            let _ = fs::remove_file(e.path());
        }
    }
    let scratch = scratch_dir("C09");
    let mut rng = Rng::new(seed);
    let mut stats: BTreeMap<String, u64> = BTreeMap::new();
    let mut viol: Vec<Violation> = Vec::new();
    let mut samples: Vec<Value> = Vec::new();
    let mut distinct = std::collections::BTreeSet::new();
    let mut evaluations = 0u64;

    let n_hist = if thorough { 4000 } else { 320 };
    let n_sweep = if thorough { 600 } else { 48 };
    let n_comp = if thorough { 1500 } else { 120 };
    let shards = if thorough { 64usize } else { 16usize };
    let header = "From CKB Require Import Freezer.Files Freezer.Machine Freezer.Cursor.";
    let mut files: Vec<CaseFile> = (0..shards)
        .map(|i| {
            let mut cf = CaseFile::new(&out, &format!("cases_{:02}", i), header);
            cf.group("hist", "hist_case", "check_hist");
            cf.group("sweep", "sweep_case", "check_sweep");
            cf.group("chist", "chist_case", "check_chist");
            cf
        })
        .collect();
    let mut descs: Vec<BTreeMap<String, Vec<Value>>> = (0..shards).map(|_| BTreeMap::new()).collect();

    // ---- corpus: the F1 witness always runs first -------------------------
    let f1: Vec<Op> = vec![
        Op::Append(vec![1; 15]),
        Op::Append(vec![2; 15]),
        Op::Append(vec![3; 15]),
        Op::Append(vec![4; 15]),
        Op::Crash(60, 0),
        Op::Append(vec![9; 3]),
    ];
    let mut hist_inputs: Vec<(u64, Vec<Op>)> = vec![(50, f1)];

    // ---- stream 1: random histories, compression off, model-compared ------
    for _ in 0..n_hist {
        let max = *rng.pick(&[6u64, 9, 16, 30, 50, 64, 120]);
        let nops = rng.range(4, if thorough { 40 } else { 22 }) as usize;
        let ops = gen_history(&mut rng, max, nops, max <= 16, true, &mut stats);
        hist_inputs.push((max, ops));
    }
    for (ci, (max, ops)) in hist_inputs.iter().enumerate() {
        let ctx = json!({"stream": "history", "max_file_size": max, "compression": false,
                         "ops": ops.iter().map(op_json).collect::<Vec<_>>()});
        let obs = run_history(&scratch.join("h"), *max, false, ops, &mut viol, &ctx);
        evaluations += 1;
        let key = format!("{:?}", (max, ops));
        let nontrivial = ops.iter().filter(|o| matches!(o, Op::Append(_))).count() >= 2;
        if nontrivial {
            distinct.insert(key);
        }
        let sh = ci % shards;
        let case = format!(
            "mkHist {} {} {}",
            coq_nat(*max),
            coq_list(&ops[..obs.len().min(ops.len())], op_coq),
            coq_list(&obs, obs_coq)
        );
        files[sh].push(0, case);
        let mut d = ctx.clone();
        d["observed"] = json!(obs.iter().map(obs_json).collect::<Vec<_>>());
        descs[sh].entry("hist".into()).or_default().push(d.clone());
        if samples.len() < 3 {
            samples.push(d);
        }
    }

    // ---- stream 1b: histories with lone reads in between (the read handle of the head file
    //      shares its cursor with the write handle); the F12 witness runs first
    let f12: Vec<Op> = vec![Op::Append(vec![1; 4]), Op::Append(vec![2; 4]), Op::Read(1), Op::Append(vec![3; 4])];
    let mut read_inputs: Vec<(u64, Vec<Op>)> = vec![(100, f12)];
    for _ in 0..n_hist {
        let max = *rng.pick(&[6u64, 9, 16, 30, 50, 64, 120]);
        let nops = rng.range(4, if thorough { 30 } else { 16 }) as usize;
        let base = gen_history(&mut rng, max, nops, max <= 16, true, &mut stats);
        let ops = with_reads(&mut rng, &base, &mut stats);
        read_inputs.push((max, ops));
    }
    for (ci, (max, ops)) in read_inputs.iter().enumerate() {
        let ctx = json!({"stream": "history-with-reads", "max_file_size": max, "compression": false,
                         "ops": ops.iter().map(op_json).collect::<Vec<_>>()});
        let obs = run_history(&scratch.join("hr"), *max, false, ops, &mut viol, &ctx);
        evaluations += 1;
        if ops.iter().filter(|o| matches!(o, Op::Append(_))).count() >= 2 && ops.iter().any(|o| matches!(o, Op::Read(_))) {
            distinct.insert(format!("r{:?}", (max, ops)));
        }
        let sh = ci % shards;
        let case = format!("mkCHist {} {} {}", coq_nat(*max), coq_list(&ops[..obs.len().min(ops.len())], cop_coq), coq_list(&obs, obs_coq));
        files[sh].push(2, case);
        let mut d = ctx.clone();
        d["observed"] = json!(obs.iter().map(obs_json).collect::<Vec<_>>());
        descs[sh].entry("chist".into()).or_default().push(d);
    }

    // ---- stream 2: exhaustive crash-cut sweeps on small disks -------------
    let probe: Vec<u8> = vec![7, 7, 7];
    for si in 0..n_sweep {
        let max = *rng.pick(&[6u64, 8, 10, 13, 16, 20]);
        let nops = rng.range(3, 10) as usize;
        let prefix = gen_history(&mut rng, max, nops, true, false, &mut stats);
        // run the prefix once to learn the disk layout
        let ctx0 = json!({"stream": "sweep-prefix", "max_file_size": max, "ops": prefix.iter().map(op_json).collect::<Vec<_>>()});
        let pdir = scratch.join("p");
        let _ = run_history(&pdir, max, false, &prefix, &mut viol, &ctx0);
        let idx = read_index(&pdir);
        let head = idx.last().map(|e| e.0).unwrap_or(0);
        let hlen = fs::metadata(blk(&pdir, head)).map(|m| m.len()).unwrap_or(0);
        let ilen = idx.len() as u64 * 12;
        let mut cuts = Vec::new();
        let lo_entry = std::cmp::max(1, idx.len() as i64 - 4) as u64;
        for k in lo_entry..=idx.len() as u64 {
            for j in [0u64, 7] {
                let ib = k * 12 + j;
                if ib > ilen {
                    continue;
                }
                for c in 0..=hlen + 1 {
                    cuts.push((ib, c));
                }
            }
        }
        let mut rendered = Vec::new();
        let mut jcuts = Vec::new();
        for (ib, c) in cuts {
            let mut ops = prefix.clone();
            ops.push(Op::Crash(ib, c));
            ops.push(Op::Append(probe.clone()));
            let ctx = json!({"stream": "sweep", "max_file_size": max, "compression": false,
                             "ops": ops.iter().map(op_json).collect::<Vec<_>>()});
            let obs = run_history(&scratch.join("s"), max, false, &ops, &mut viol, &ctx);
            evaluations += 1;
            distinct.insert(format!("{:?}", (max, &ops)));
            *stats.entry("sweep_cuts".into()).or_default() += 1;
            let tail: Vec<Obs> = obs[prefix.len().min(obs.len())..].to_vec();
            rendered.push(format!("({}, {}, {})", coq_nat(ib), coq_nat(c), coq_list(&tail, obs_coq)));
            jcuts.push(json!({"index_bytes": ib, "head_file_bytes": c, "observed": tail.iter().map(obs_json).collect::<Vec<_>>()}));
        }
        let sh = si % shards;
        files[sh].push(
            1,
            format!(
                "mkSweep {} {} {} {}",
                coq_nat(max),
                coq_list(&prefix, op_coq),
                coq_bytes(&probe),
                coq_list(&rendered, |s| s.clone())
            ),
        );
        let d = json!({"stream": "sweep", "max_file_size": max, "prefix": prefix.iter().map(op_json).collect::<Vec<_>>(),
                       "probe": hex(&probe), "cuts": jcuts});
        descs[sh].entry("sweep".into()).or_default().push(d);
    }

    // ---- stream 3: compression on (snappy), property predicate only -------
    for _ in 0..n_comp {
        let max = *rng.pick(&[16u64, 30, 50, 64, 120]);
        let nops = rng.range(4, 24) as usize;
        let ops = gen_history(&mut rng, max, nops, false, true, &mut stats);
        let ctx = json!({"stream": "compressed", "max_file_size": max, "compression": true,
                         "ops": ops.iter().map(op_json).collect::<Vec<_>>()});
        let _ = run_history(&scratch.join("c"), max, true, &ops, &mut viol, &ctx);
        evaluations += 1;
        distinct.insert(format!("c{:?}", (max, &ops)));
        *stats.entry("compressed_histories".into()).or_default() += 1;
    }

    // ---- stream 4: Freezer (block level): freeze / retrieve / truncate / re-open / crash cut with real packed blocks
    {
        use ckb_freezer::Freezer;
        use ckb_types::core::{BlockBuilder, BlockView, HeaderBuilder};
        use ckb_types::prelude::*;
        let n_blk = if thorough { 400 } else { 40 };
        for bi in 0..n_blk {
            let dir = scratch.join(format!("fz{bi}"));
            let _ = fs::remove_dir_all(&dir);
            fs::create_dir_all(&dir).unwrap();
            // a chain of blocks with linked parent hashes and proposals of varying size
            let n = rng.range(3, 14);
            let mut blocks: Vec<BlockView> = vec![];
            let mut parent = ckb_types::packed::Byte32::zero();
            for k in 0..=n {
                let header = HeaderBuilder::default().number(k).parent_hash(parent.clone()).timestamp(1000 + k).build();
                let props: Vec<ckb_types::packed::ProposalShortId> = (0..rng.below(6)).map(|j| ckb_types::packed::ProposalShortId::new([(k as u8).wrapping_add(j as u8); 10])).collect();
                // about half of the blocks carry an extension field (the packed Block table then has a fifth
                // field, which only the compatible reader accepts)
                let mut bb = BlockBuilder::default().header(header).proposals(props);
                if rng.chance(1, 2) {
                    let ext: ckb_types::packed::Bytes = ckb_types::bytes::Bytes::from((0..rng.range(1, 96)).map(|i| (i as u64 ^ k) as u8).collect::<Vec<u8>>()).pack();
                    bb = bb.extension(Some(ext));
                }
                let b = bb.build();
                parent = b.hash();
                blocks.push(b);
            }
            let ctx = json!({"stream": "freezer-blocks", "blocks": n, "index": bi});
            let res = std::panic::catch_unwind(std::panic::AssertUnwindSafe(|| -> Vec<String> {
                let mut errs = vec![];
                let get = |k: u64| blocks.get(k as usize).cloned();
                let fz = Freezer::open(dir.clone()).expect("open");
                let t1 = rng.range(2, n);
                if t1 > 2 && rng.chance(2, 3) {
                    // two passes in one process with a lone read of an older block in between
                    let ta = rng.range(2, t1 - 1);
                    fz.freeze(ta, get).expect("freeze");
                    let k = rng.range(1, ta - 1);
                    if fz.retrieve(k).ok().flatten().as_deref() != Some(blocks[k as usize].data().as_slice()) { errs.push(format!("retrieve({k}) between two passes is not the frozen block")); }
                }
                fz.freeze(t1, get).expect("freeze");
                if fz.number() != t1 { errs.push(format!("after freeze({t1}) number() = {}", fz.number())); }
                for k in 1..t1 { if fz.retrieve(k).ok().flatten().as_deref() != Some(blocks[k as usize].data().as_slice()) { errs.push(format!("retrieve({k}) is not the frozen block")); } }
                // optional truncate
                let mut have = t1;
                if rng.chance(1, 3) && t1 > 3 {
                    let keep = rng.range(1, t1 - 2);
                    fz.truncate(keep).expect("truncate");
                    have = keep + 1;
                    if fz.number() != have { errs.push(format!("after truncate({keep}) number() = {}", fz.number())); }
                }
                drop(fz);
                // crash cut: index and head file
                if rng.chance(1, 2) {
                    let idx = read_index(&dir);
                    let head = idx.last().map(|e| e.0).unwrap_or(0);
                    let back = rng.below(std::cmp::min(3, idx.len() as u64));
                    let ib = (idx.len() as u64 - back) * 12 + *rng.pick(&[0u64, 0, 5]);
                    let hl = fs::metadata(blk(&dir, head)).map(|m| m.len()).unwrap_or(0);
                    let c = hl.saturating_sub(rng.below(40));
                    set_len(&dir.join("INDEX"), ib);
                    set_len(&blk(&dir, head), c);
                }
                let fz = match Freezer::open(dir.clone()) { Ok(f) => f, Err(e) => { errs.push(format!("re-open failed: {e}")); return errs; } };
                let got = fz.number();
                if got > have || got < 1 { errs.push(format!("after re-open number() = {got}, had {have}")); }
                for k in 1..got { if fz.retrieve(k).ok().flatten().as_deref() != Some(blocks[k as usize].data().as_slice()) { errs.push(format!("after re-open retrieve({k}) is not the frozen block")); } }
                // continue freezing from where it is: the parent-hash check must accept the true next block
                if let Err(e) = fz.freeze(n + 1, |k: u64| blocks.get(k as usize).cloned()) { errs.push(format!("freezing on after re-open failed: {e}")); }
                if fz.number() != n + 1 { errs.push(format!("after freezing on number() = {}", fz.number())); }
                for k in 1..=n { if fz.retrieve(k).ok().flatten().as_deref() != Some(blocks[k as usize].data().as_slice()) { errs.push(format!("at the end retrieve({k}) is not the frozen block")); } }
                errs
            }));
            evaluations += 1;
            distinct.insert(format!("fzb{bi}"));
            *stats.entry("freezer_block_histories".into()).or_default() += 1;
            match res {
                Err(_) => viol.push(Violation { what: "panic in the block-level freezer".into(), detail: ctx }),
                Ok(errs) => for e in errs { viol.push(Violation { what: format!("block-level freezer: {e}"), detail: ctx.clone() }); },
            }
            let _ = fs::remove_dir_all(&dir);
        }
    }
    for (i, cf) in files.iter().enumerate() {
        cf.write().unwrap();
        fs::write(out.join(format!("cases_{:02}.json", i)), serde_json::to_string(&descs[i]).unwrap()).unwrap();
    }
    let _ = fs::remove_dir_all(&scratch);
    let summary = json!({
        "property": "C09",
        "seed": seed,
        "evaluations": evaluations,
        "distinct_nontrivial": distinct.len(),
        "rule": "histories of append/truncate/reopen/crash-cut over max_file_size in {6..120} (distinct = distinct (max, op list); non-trivial = at least two appends); the same with lone retrieve(i) calls of older items inserted between the operations (a read moves the cursor the head file's write handle shares); sweeps enumerate every (index length, head file length) cut around the last four index entries of a small disk; a block-level stream drives Freezer::{open, freeze, truncate, retrieve} with real packed blocks (parent-hash linkage, tip re-derivation after re-open and crash cuts)",
        "distribution": stats,
        "samples": samples,
        "impl_violations": viol.iter().map(|v| json!({"what": v.what, "detail": v.detail})).collect::<Vec<_>>(),
    });
    fs::write(out.join("summary.json"), serde_json::to_string_pretty(&summary).unwrap()).unwrap();
    println!("hx-freezer: {} evaluations, {} implementation-side violations", evaluations, viol.len());
}
