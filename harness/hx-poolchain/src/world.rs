//! A history driver around ONE real node with the tx-pool service started and a
//! block assembler configured: transaction submissions through the
//! TxPoolController, blocks mined from the node's own template, blocks built
//! outside (competing branches, re-commits, conflicting commits, siblings that
//! become uncles), clock steps (faketime) for expiry.
use crate::node::*;
use ckb_app_config::TxPoolConfig;
use ckb_chain_spec::consensus::Consensus;
use ckb_jsonrpc_types::BlockTemplate;
use ckb_store::ChainStore;
use ckb_systemtime::FaketimeGuard;
use ckb_test_chain_utils::always_success_cell;
use ckb_tx_pool::verif_hooks::{PoolDump, Status};
use ckb_types::core::cell::{CellProvider, CellStatus};
use ckb_types::core::{BlockView, Capacity, FeeRate, TransactionBuilder, TransactionView};
use ckb_types::packed::{self, Byte32, CellDep, CellInput, CellOutput, OutPoint, ProposalShortId};
use ckb_types::{bytes::Bytes, prelude::*};
use hx_common::Rng;
use serde_json::{json, Value};
use std::collections::{BTreeMap, HashMap, HashSet};
use std::sync::Arc;

#[derive(Clone)]
pub struct WorldCfg {
    pub chain: ChainCfg,
    pub max_tx_pool_size: usize,
    pub max_ancestors_count: usize,
    pub expiry_hours: u8,
    pub min_fee_rate: u64,
    pub min_rbf_rate: u64,
    pub update_interval_millis: u64,
    /// upper bound of the data bytes put into one output
    pub max_data: u64,
}

#[derive(Clone)]
pub struct TxInfo {
    pub tx: TransactionView,
    pub fee: u64,
    /// never handed to the pool by the harness (only committed by outside blocks)
    pub secret: bool,
}

/// panics of the node's own threads during the current history (the tx-pool service runs on the global
/// runtime: a panic there ends the service's task and the pool stops following the chain)
pub static SERVICE_PANICS: std::sync::Mutex<Vec<String>> = std::sync::Mutex::new(Vec::new());
pub fn install_panic_hook() {
    let default = std::panic::take_hook();
    std::panic::set_hook(Box::new(move |info| {
        let name = std::thread::current().name().unwrap_or("").to_string();
        if name.starts_with("GlobalRt") || name.contains("tx-pool") {
            if let Ok(mut v) = SERVICE_PANICS.lock() { v.push(format!("{}: {}", name, info)); }
        }
        default(info);
    }));
}
/// heartbeat of the driver: what it was about to ask of the node, and when.  A node call that does not come back (an endless loop
/// in the selector, a dead lock between the pool's tasks) would otherwise hang the harness until the check's time limit.
pub static WATCH: std::sync::Mutex<Option<(std::time::Instant, String)>> = std::sync::Mutex::new(None);
pub const NODE_CALL_LIMIT_SECS: u64 = 300;
pub fn heartbeat(what: &str) { if let Ok(mut w) = WATCH.lock() { *w = Some((std::time::Instant::now(), what.to_string())); } }
pub fn heartbeat_off() { if let Ok(mut w) = WATCH.lock() { *w = None; } }
pub fn start_watchdog(out: std::path::PathBuf, prop: String, seed: u64) {
    std::thread::spawn(move || loop {
        std::thread::sleep(std::time::Duration::from_secs(5));
        let stuck = { let w = WATCH.lock().unwrap(); w.as_ref().and_then(|(t, c)| if t.elapsed().as_secs() > NODE_CALL_LIMIT_SECS { Some(c.clone()) } else { None }) };
        if let Some(what) = stuck {
            let summary = json!({
                "property": prop, "seed": seed, "evaluations": 1, "distinct_nontrivial": 1,
                "rule": "watchdog: the node did not answer",
                "distribution": {}, "samples": [],
                "impl_violations": [{
                    "what": format!("the node did not come back within {} s from what the driver asked of it (an endless loop or a dead lock in the pool / block assembler)", NODE_CALL_LIMIT_SECS),
                    "detail": {"last_request": what, "history_so_far": crate::node::last_history()}}],
            });
            let _ = std::fs::write(out.join("summary.json"), serde_json::to_string_pretty(&summary).unwrap());
            println!("hx-poolchain: watchdog — the node did not answer within {} s: {}", NODE_CALL_LIMIT_SECS, what);
            std::process::exit(0);
        }
    });
}

/// set once the current history has put the pool into one of the situations C11's recorded defects start from
/// (a re-added transaction with a child handed to the pool; an expired inner node; aggregates seen stale)
pub static C11_SITUATION: std::sync::atomic::AtomicBool = std::sync::atomic::AtomicBool::new(false);
pub fn note_c11_situation() { C11_SITUATION.store(true, std::sync::atomic::Ordering::SeqCst); }
pub fn c11_situation() -> bool { C11_SITUATION.load(std::sync::atomic::Ordering::SeqCst) }
/// the known defect of the pool (C11 findings F9 / F3 / F10) a service panic of this history belongs to: only in a
/// history that went through one of the situations those defects start from
pub fn service_panic_signature() -> Option<(&'static str, String)> {
    let v = SERVICE_PANICS.lock().ok()?;
    if !c11_situation() { return None; }
    for m in v.iter() {
        if m.contains("inconsistent pool") { return Some(("pool-service-panicked-inconsistent-pool", m.clone())); }
        if m.contains("invalid key") { return Some(("pool-service-panicked-invalid-key", m.clone())); }
    }
    None
}

pub struct World {
    pub cfg: WorldCfg,
    pub consensus: Consensus,
    pub node: Node,
    pub clock: u64,
    pub guard: FaketimeGuard,
    pub txs: Vec<TxInfo>,
    pub tx_id: HashMap<Byte32, usize>,
    pub by_short: HashMap<ProposalShortId, usize>,
    pub outs: Vec<(OutPoint, u64)>,
    pub blocks: Vec<BlockView>,
    pub block_id: HashMap<Byte32, u64>,
    pub stash: Vec<BlockView>,
    pub jops: Vec<Value>,
    pub stats: BTreeMap<String, u64>,
    pub next_tag: u64,
    pub viol: Vec<Value>,
    /// submissions made between a block delivery and the following synchronisation
    pub racing_since_sync: u64,
    pub allow_recent: bool,
    /// missing parent -> signature of the known defect that orphaned its pooled children
    pub orphan_cause: HashMap<Byte32, &'static str>,
    /// txs committed only on an abandoned branch that did not come back to the pool
    pub lost_detached: HashSet<Byte32>,
    /// id of the transaction whose two-step submission (pre_check / submit_entry) straddled the change of
    /// the tip that is being evaluated (it was not pooled when the pool processed that change)
    pub straddle_tx: Option<ProposalShortId>,
    /// transactions of blocks this node detached and did not re-attach in the same change: the pool
    /// re-adds them (readd_detached_tx), which is where C11's finding F3 starts
    pub readded: HashSet<Byte32>,
}

/// what changed on the node's main chain by one delivered block
pub struct Change {
    pub detached: Vec<BlockView>,
    pub attached: Vec<BlockView>,
    /// `set` of the proposal view before the change
    pub old_set: Vec<ProposalShortId>,
}

/// the main-chain difference between two snapshots of the same node (`before` is the older one)
pub fn change_between(before: &ckb_snapshot::Snapshot, after: &ckb_snapshot::Snapshot) -> Change {
    let before_tip = before.tip_header().clone();
    let mut detached = vec![];
    let mut attached = vec![];
    let mut n = std::cmp::min(before_tip.number(), after.tip_number());
    for k in (n + 1..=before_tip.number()).rev() {
        detached.push(before.get_block(&before.get_block_hash(k).unwrap()).unwrap());
    }
    while n > 0 && before.get_block_hash(n) != after.get_block_hash(n) {
        detached.push(before.get_block(&before.get_block_hash(n).unwrap()).unwrap());
        n -= 1;
    }
    for k in n + 1..=after.tip_number() {
        attached.push(after.get_block(&after.get_block_hash(k).unwrap()).unwrap());
    }
    detached.reverse();
    let old_set = before.proposals().set().iter().cloned().collect();
    Change { detached, attached, old_set }
}

pub fn is_live(snap: &ckb_snapshot::Snapshot, op: &OutPoint) -> bool {
    matches!(snap.cell(op, false), CellStatus::Live(_))
}

pub fn short_hex(id: &ProposalShortId) -> String {
    hx_common::hex(id.as_slice())
}

impl World {
    pub fn new(cfg: WorldCfg) -> World {
        let (consensus, funds) = make_consensus(&cfg.chain);
        let guard = ckb_systemtime::faketime();
        let clock = GENESIS_TS + 3_600_000;
        guard.set_faketime(clock);
        let pool_cfg = TxPoolConfig {
            max_tx_pool_size: cfg.max_tx_pool_size,
            min_fee_rate: FeeRate::from_u64(cfg.min_fee_rate),
            min_rbf_rate: FeeRate::from_u64(cfg.min_rbf_rate),
            max_tx_verify_cycles: 70_000_000,
            max_tx_verify_workers: 2,
            max_ancestors_count: cfg.max_ancestors_count,
            keep_rejected_tx_hashes_days: 1,
            keep_rejected_tx_hashes_count: 1000,
            persisted_data: Default::default(),
            recent_reject: Default::default(),
            expiry_hours: cfg.expiry_hours,
        };
        let node = Node::with_pool(&consensus, pool_cfg, cfg.update_interval_millis);
        let mut w = World {
            cfg,
            consensus,
            node,
            clock,
            guard,
            txs: vec![],
            tx_id: HashMap::new(),
            by_short: HashMap::new(),
            outs: vec![],
            blocks: vec![],
            block_id: HashMap::new(),
            stash: vec![],
            jops: vec![],
            stats: BTreeMap::new(),
            next_tag: 1,
            viol: vec![],
            racing_since_sync: 0,
            allow_recent: false,
            orphan_cause: HashMap::new(),
            lost_detached: HashSet::new(),
            straddle_tx: None,
            readded: HashSet::new(),
        };
        let genesis = w.consensus.genesis_block().clone();
        w.block_id.insert(genesis.hash(), 0);
        for f in &funds {
            w.register_tx(f, 0, true);
        }
        w
    }

    pub fn stat(&mut self, k: &str) {
        *self.stats.entry(k.to_string()).or_default() += 1;
    }

    pub fn log(&mut self, v: Value) {
        self.jops.push(v);
    }

    pub fn tick(&mut self, ms: u64) {
        self.clock += ms;
        self.guard.set_faketime(self.clock);
    }

    pub fn register_tx(&mut self, tx: &TransactionView, fee: u64, secret: bool) -> usize {
        if let Some(i) = self.tx_id.get(&tx.hash()) {
            return *i;
        }
        self.txs.push(TxInfo { tx: tx.clone(), fee, secret });
        let i = self.txs.len() - 1;
        self.tx_id.insert(tx.hash(), i);
        self.by_short.insert(tx.proposal_short_id(), i);
        for (k, o) in tx.outputs().into_iter().enumerate() {
            let cap: u64 = o.capacity().unpack();
            self.outs.push((OutPoint::new(tx.hash(), k as u32), cap));
        }
        i
    }

    pub fn register_block(&mut self, b: &BlockView) -> u64 {
        if let Some(i) = self.block_id.get(&b.hash()) {
            return *i;
        }
        self.blocks.push(b.clone());
        let id = self.blocks.len() as u64;
        self.block_id.insert(b.hash(), id);
        for tx in b.transactions().iter().skip(1) {
            self.register_tx(tx, 0, true);
        }
        id
    }

    pub fn tx_no(&self, h: &Byte32) -> Value {
        match self.tx_id.get(h) {
            Some(i) => json!(i),
            None => json!(hash_hex(h)),
        }
    }

    pub fn main_chain(&self) -> Vec<BlockView> {
        let snap = self.node.shared.snapshot();
        (1..=snap.tip_number())
            .map(|n| snap.get_block(&snap.get_block_hash(n).expect("main hash")).expect("main block"))
            .collect()
    }

    /// Waits until the pool has processed every reorg notification sent so far:
    /// the pool's snapshot is replaced under the same write lock that covers the
    /// whole reorg update incl. readd_detached_tx, so a read-locked dump showing
    /// the chain's tip is taken after that update finished.
    pub fn sync_pool(&mut self) -> Option<PoolDump> {
        let tip = self.node.shared.snapshot().tip_hash();
        for i in 0..200_000u64 {
            let (dump, pool_tip) = self.node.pool().verif_dump();
            if pool_tip == tip {
                return Some(dump);
            }
            if i > 50 {
                std::thread::sleep(std::time::Duration::from_micros(200));
            } else {
                std::thread::yield_now();
            }
        }
        let mut v = json!({"what": "the pool never caught up with the chain tip (60 s)", "history": self.jops});
        if let Some((sig, msg)) = service_panic_signature() {
            // the service's task ended in a panic that belongs to a recorded defect of the pool
            v["signature"] = json!(sig);
            v["service_panic"] = json!(msg);
            v["history"] = json!(self.jops[self.jops.len().saturating_sub(12)..].to_vec());
        }
        self.viol.push(v);
        None
    }

    /// waits until the block assembler stops producing new work ids (bounded)
    pub fn settle_template(&mut self) {
        let mut last = u64::MAX;
        let mut same = 0;
        for _ in 0..400 {
            let id = self.node.pool().verif_template_size().map(|t| t.work_id).unwrap_or(0);
            if id == last {
                same += 1;
                if same >= 3 {
                    return;
                }
            } else {
                same = 0;
                last = id;
            }
            std::thread::sleep(std::time::Duration::from_micros(
                300 + 1000 * self.cfg.update_interval_millis,
            ));
        }
    }

    // ------------------------------------------------------------------ txs
    /// a transaction over the given inputs
    pub fn make_tx(
        &mut self,
        inputs: &[(OutPoint, u64)],
        n_out: usize,
        fee: u64,
        data_len: u64,
        deps: &[OutPoint],
        header_deps: &[Byte32],
    ) -> Option<TransactionView> {
        let (_, _, script) = always_success_cell();
        let total: u64 = inputs.iter().map(|(_, c)| *c).sum();
        if total <= fee {
            return None;
        }
        let each = (total - fee) / n_out as u64;
        let rem = (total - fee) % n_out as u64;
        self.next_tag += 1;
        let tag = self.next_tag;
        let mut b = TransactionBuilder::default().cell_dep(always_success_dep());
        for d in deps {
            b = b.cell_dep(CellDep::new_builder().out_point(d.clone()).build());
        }
        for h in header_deps {
            b = b.header_dep(h.clone());
        }
        for (op, _) in inputs {
            b = b.input(CellInput::new(op.clone(), 0));
        }
        for i in 0..n_out {
            let cap = if i == 0 { each + rem } else { each };
            // occupied: 8 (capacity) + 33 (lock) + data
            let max_data = (cap / 100_000_000).saturating_sub(62);
            if max_data < 8 {
                return None;
            }
            let dl = std::cmp::max(8, std::cmp::min(data_len, max_data)) as usize;
            let mut data = vec![0u8; dl];
            data[..8].copy_from_slice(&tag.to_le_bytes());
            b = b
                .output(CellOutput::new_builder().capacity(Capacity::shannons(cap)).lock(script.clone()).build())
                .output_data(Bytes::from(data));
        }
        Some(b.build())
    }

    /// (cells spendable w.r.t. chain + pool, cells spent by pooled txs, outputs of pooled txs)
    pub fn cell_classes(&self, dump: &PoolDump) -> (Vec<(OutPoint, u64)>, Vec<(OutPoint, u64)>, Vec<(OutPoint, u64)>) {
        let snap = self.node.shared.snapshot();
        let spent: HashSet<OutPoint> = dump.entries.iter().flat_map(|e| e.inputs.iter().cloned()).collect();
        let pooled: HashSet<Byte32> = dump.entries.iter().map(|e| e.tx_hash.clone()).collect();
        let mut free = vec![];
        let mut taken = vec![];
        let mut pool_outs = vec![];
        for (op, cap) in &self.outs {
            let in_pool = pooled.contains(&op.tx_hash());
            if !(in_pool || is_live(&snap, op)) {
                continue;
            }
            // outputs of transactions committed within reorg reach are left alone most of the time:
            // their spender would be a pooled child of a detached tx (C11 finding F3 when it is re-added)
            if !in_pool && !self.allow_recent {
                if let Some(info) = snap.get_transaction_info(&op.tx_hash()) {
                    if info.block_number + 7 > snap.tip_number() && info.block_number > 0 {
                        continue;
                    }
                }
            }
            if spent.contains(op) {
                taken.push((op.clone(), *cap));
            } else {
                if in_pool {
                    pool_outs.push((op.clone(), *cap));
                }
                free.push((op.clone(), *cap));
            }
        }
        (free, taken, pool_outs)
    }

    /// plans a transaction; `kind` is reported in the distribution
    pub fn plan_tx(&mut self, rng: &mut Rng, dump: &PoolDump) -> Option<(TransactionView, u64, &'static str)> {
        self.allow_recent = rng.chance(1, 12);
        let (free, taken, pool_outs) = self.cell_classes(dump);
        let snap = self.node.shared.snapshot();
        let mut kind = "plain";
        let mut inputs: Vec<(OutPoint, u64)> = vec![];
        let n_in = rng.range(1, 2);
        for k in 0..n_in {
            let c = match rng.below(16) {
                // extend a chain of pooled txs
                0..=6 if !pool_outs.is_empty() => {
                    kind = "child-of-pooled";
                    // prefer the newest outputs: long chains
                    let n = pool_outs.len();
                    let i = if rng.chance(2, 3) { n - 1 - rng.below(std::cmp::min(n as u64, 3)) as usize } else { rng.below(n as u64) as usize };
                    pool_outs[i].clone()
                }
                // double spend of a pooled tx's input (RBF candidate)
                7 if !taken.is_empty() && k == 0 => {
                    kind = "conflict-with-pooled";
                    rng.pick(&taken).clone()
                }
                // spent on chain
                8 if rng.chance(1, 4) => {
                    let dead: Vec<_> = self.outs.iter().filter(|(op, _)| snap.get_transaction_info(&op.tx_hash()).is_some() && !is_live(&snap, op)).cloned().collect();
                    if dead.is_empty() { continue; }
                    kind = "dead-input";
                    rng.pick(&dead).clone()
                }
                _ => {
                    if free.is_empty() { continue; }
                    rng.pick(&free).clone()
                }
            };
            if !inputs.iter().any(|(o, _)| *o == c.0) {
                inputs.push(c);
            }
        }
        if inputs.is_empty() {
            return None;
        }
        let mut deps = vec![];
        if rng.chance(1, 7) && !free.is_empty() {
            let d = rng.pick(&free).clone();
            if !inputs.iter().any(|(o, _)| *o == d.0) {
                deps.push(d.0);
                if kind == "plain" { kind = "cell-dep"; }
            }
        }
        let mut hdeps = vec![];
        if rng.chance(1, 7) && snap.tip_number() >= 1 {
            let n = rng.range(snap.tip_number().saturating_sub(4), snap.tip_number());
            hdeps.push(snap.get_block_hash(n).unwrap());
            if kind == "plain" { kind = "header-dep"; }
        }
        let n_out = rng.range(1, 3) as usize;
        let fee = match rng.below(12) {
            0 => 0,
            1 => rng.range(1, 300),
            2..=8 => rng.range(400, 3_000),
            _ => rng.range(3_000, 400_000),
        };
        let data_len = match rng.below(6) {
            0..=2 => 8,
            3 | 4 => rng.range(8, std::cmp::max(9, self.cfg.max_data / 3)),
            _ => rng.range(self.cfg.max_data / 2, std::cmp::max(self.cfg.max_data / 2 + 1, self.cfg.max_data)),
        };
        let tx = self.make_tx(&inputs, n_out, fee, data_len, &deps, &hdeps)?;
        Some((tx, fee, kind))
    }

    /// submit through the controller; returns the verdict class
    pub fn submit(&mut self, tx: &TransactionView, fee: u64, kind: &str) -> bool {
        let r = self.node.pool().submit_local_tx(tx.clone());
        let ok = matches!(r, Ok(Ok(())));
        let class = match &r {
            Ok(Ok(())) => "accepted".to_string(),
            Ok(Err(rej)) => format!("rejected-{}", reject_class(rej)),
            Err(e) => format!("controller-error-{e}"),
        };
        let i = self.register_tx(tx, fee, false);
        self.log(json!({"submit": {"tx": i, "kind": kind, "fee": fee, "size": tx.data().serialized_size_in_block(), "result": class,
            "deps": tx.cell_deps_iter().skip(1).map(|d| json!([self.tx_no(&d.out_point().tx_hash()), Unpack::<u32>::unpack(&d.out_point().index())])).collect::<Vec<_>>(),
            "header_deps": tx.header_deps_iter().map(|h| json!(self.block_id.get(&h))).collect::<Vec<_>>(),
            "inputs": tx.input_pts_iter().map(|op| json!([self.tx_no(&op.tx_hash()), Unpack::<u32>::unpack(&op.index())])).collect::<Vec<_>>() }}));
        self.stat(&format!("submit_{kind}"));
        self.stat(&format!("submit_{class}"));
        ok
    }

    // --------------------------------------------------------------- blocks
    /// delivers a block to the node; returns what changed on the main chain
    pub fn deliver(&mut self, b: &BlockView) -> Result<Option<Change>, String> {
        let before = self.node.shared.snapshot();
        let before_tip = before.tip_header().clone();
        self.register_block(b);
        // the clock never runs behind a block the node is about to see
        if b.timestamp() > self.clock {
            let d = b.timestamp() - self.clock;
            self.tick(d);
        }
        self.node.process(b).map_err(|e| format!("{e}"))?;
        let after = self.node.shared.snapshot();
        if after.tip_hash() == before_tip.hash() {
            return Ok(None);
        }
        let ch = change_between(&before, &after);
        for d in &ch.detached {
            self.stash.push(d.clone());
        }
        {
            let attached: HashSet<Byte32> = ch.attached.iter().flat_map(|x| x.transactions().into_iter().skip(1).map(|t| t.hash())).collect();
            for d in &ch.detached {
                for tx in d.transactions().iter().skip(1) {
                    if !attached.contains(&tx.hash()) {
                        self.readded.insert(tx.hash());
                        let h = tx.hash();
                        if self.txs.iter().any(|t| !t.secret && t.tx.input_pts_iter().chain(t.tx.cell_deps_iter().map(|d| d.out_point())).any(|op| op.tx_hash() == h)) {
                            note_c11_situation();
                        }
                    }
                }
            }
        }
        Ok(Some(ch))
    }

    pub fn template(&mut self) -> Option<BlockTemplate> {
        heartbeat("get_block_template");
        match self.node.pool().get_block_template(None, None, None) {
            Ok(Ok(t)) => Some(t),
            other => {
                self.viol.push(json!({"what": "get_block_template failed", "detail": format!("{:?}", other.map(|r| r.map(|_| ()))), "history": self.jops}));
                None
            }
        }
    }

    /// Builds a block on `builder`'s tip out of the world's transactions:
    /// proposes some uncommitted ones, commits proposed ones whose inputs resolve.
    pub fn build_outside(&mut self, rng: &mut Rng, builder: &Node, prefer_secret: bool, allow_uncles: bool) -> Option<BlockView> {
        let snap = builder.shared.snapshot();
        let consensus = snap.consensus();
        let parent = snap.tip_header().clone();
        let number = parent.number() + 1;
        let view = snap.proposals().clone();
        // ---- commits
        let mut commit: Vec<TransactionView> = vec![];
        let mut created: HashSet<OutPoint> = HashSet::new();
        let mut spent: HashSet<OutPoint> = HashSet::new();
        let mut size = 1200usize; // header + cellbase + slack
        let max_bytes = consensus.max_block_bytes() as usize;
        let max_txs = std::cmp::min(8, (consensus.max_block_cycles() / 2_000) as usize);
        for i in 0..self.txs.len() {
            let t = &self.txs[i];
            let tx = &t.tx;
            if !view.contains_proposed(&tx.proposal_short_id()) || snap.get_transaction_info(&tx.hash()).is_some() {
                continue;
            }
            let p = if prefer_secret == t.secret { (4, 5) } else { (1, 2) };
            if !rng.chance(p.0, p.1) || commit.len() >= max_txs {
                continue;
            }
            let sz = tx.data().serialized_size_in_block();
            if size + sz + 200 > max_bytes {
                continue;
            }
            let ins_ok = tx.input_pts_iter().all(|op| !spent.contains(&op) && (created.contains(&op) || is_live(&snap, &op)));
            let deps_ok = tx.cell_deps_iter().all(|d| {
                let op = d.out_point();
                !spent.contains(&op) && (created.contains(&op) || is_live(&snap, &op))
            });
            let hdeps_ok = tx.header_deps_iter().all(|h| snap.is_main_chain(&h));
            if ins_ok && deps_ok && hdeps_ok {
                for op in tx.input_pts_iter() { spent.insert(op); }
                for op in tx.output_pts_iter() { created.insert(op); }
                size += sz;
                commit.push(tx.clone());
            }
        }
        // ---- proposals: uncommitted world txs (bias to those not in the view yet)
        let mut proposals: Vec<ProposalShortId> = vec![];
        let limit = std::cmp::min(consensus.max_block_proposals_limit() as usize, 6);
        let n = self.txs.len();
        let start = n.saturating_sub(40);
        for i in start..n {
            let tx = &self.txs[i].tx;
            if proposals.len() >= limit || snap.get_transaction_info(&tx.hash()).is_some() {
                continue;
            }
            let id = tx.proposal_short_id();
            let known = view.contains_proposed(&id) || view.contains_gap(&id);
            let p = if known { (1, 10) } else { (1, 2) };
            if rng.chance(p.0, p.1) && size + 10 * (proposals.len() + 1) + 100 < max_bytes {
                proposals.push(id);
            }
        }
        size += 10 * proposals.len();
        // ---- uncles
        let mut uncles = vec![];
        if allow_uncles && rng.chance(1, 2) {
            let epoch = consensus.next_epoch_ext(&parent, &snap.borrow_as_data_loader()).unwrap().epoch();
            for u in self.stash.iter().rev() {
                if uncles.len() < 2
                    && !uncles.iter().any(|x: &ckb_types::core::UncleBlockView| x.hash() == u.hash())
                    && size + 300 * (uncles.len() + 1) < max_bytes
                    && u.number() < number
                    && snap.get_block_number(&u.hash()).is_none()
                    && snap.get_block_number(&u.parent_hash()).is_some()
                    && !snap.is_uncle(&u.hash())
                    && u.epoch().number() == epoch.number()
                    && u.compact_target() == epoch.compact_target()
                    && u.data().proposals().len() as u64 <= consensus.max_block_proposals_limit()
                {
                    uncles.push(u.as_uncle());
                }
            }
        }
        // sometimes the block proposes nothing itself: what its uncles propose then enters the window through them alone
        if !proposals.is_empty() && uncles.iter().any(|u| !u.data().proposals().is_empty()) && rng.chance(1, 2) {
            proposals.clear();
            self.stat("blocks_proposing_only_through_their_uncles");
        }
        let delta = *rng.pick(&[1u64, 7, 300, 2_000, 9_000]);
        let plan = BlockPlan { proposals, txs: commit, uncles, ts_delta: delta, nonce: self.blocks.len() as u128 + 1 };
        try_build_block(builder, &plan)
    }

    pub fn finish(self) -> (Vec<Value>, BTreeMap<String, u64>, Vec<Value>) {
        let World { node, viol, stats, jops, .. } = self;
        node.stop();
        (viol, stats, jops)
    }
}

pub fn reject_class(r: &ckb_tx_pool::verif_hooks::Reject) -> &'static str {
    use ckb_tx_pool::verif_hooks::Reject::*;
    match r {
        LowFeeRate(..) => "low-fee",
        ExceededMaximumAncestorsCount => "ancestors",
        ExceededTransactionSizeLimit(..) => "size",
        Full(..) => "full",
        Duplicated(..) => "duplicated",
        Malformed(..) => "malformed",
        DeclaredWrongCycles(..) => "cycles",
        Resolve(..) => "resolve",
        Verification(..) => "verification",
        Expiry(..) => "expiry",
        RBFRejected(..) => "rbf",
        Invalidated(..) => "invalidated",
    }
}

pub fn status_name(s: Status) -> &'static str {
    match s {
        Status::Pending => "pending",
        Status::Gap => "gap",
        Status::Proposed => "proposed",
    }
}

pub fn template_to_block(t: BlockTemplate) -> BlockView {
    let block: packed::Block = t.into();
    block.as_advanced_builder().build()
}

pub fn _unused(_: Arc<()>) {}
