//! Abstract (numbered) descriptions of observations, rendered as Coq terms for
//! the models Pool/Reorg.v and Pool/Template.v.
use crate::world::*;
use ckb_tx_pool::verif_hooks::{EntryDump, PoolDump, Status};
use ckb_types::core::TransactionView;
use ckb_types::packed::{Byte32, OutPoint};
use ckb_types::prelude::*;
use hx_common::*;
use serde_json::{json, Value};
use std::collections::{HashMap, HashSet};

#[derive(Clone)]
pub struct ATx {
    pub id: u64,
    pub inputs: Vec<(u64, u64)>,
    pub deps: Vec<(u64, u64)>,
    pub hdeps: Vec<u64>,
    pub nout: u64,
    pub size: u64,
    pub cycles: u64,
    pub fee: u64,
    pub ts: u64,
}

pub fn st_num(s: Status) -> u64 {
    match s {
        Status::Pending => 0,
        Status::Gap => 1,
        Status::Proposed => 2,
    }
}
fn st_coq(s: u64) -> &'static str {
    match s {
        0 => "Pending",
        1 => "Gap",
        _ => "Proposed",
    }
}

impl ATx {
    pub fn coq(&self) -> String {
        let pt = |p: &(u64, u64)| format!("({}, {})", coq_n(p.0 as u128), coq_n(p.1 as u128));
        format!(
            "(mkTx {} {} {} {} {} {} {} {} {})",
            coq_n(self.id as u128),
            coq_list(&self.inputs, pt),
            coq_list(&self.deps, pt),
            coq_list(&self.hdeps, |h| coq_n(*h as u128)),
            coq_n(self.nout as u128),
            coq_n(self.size as u128),
            coq_n(self.cycles as u128),
            coq_n(self.fee as u128),
            coq_n(self.ts as u128)
        )
    }
}

const UNKNOWN_TX: u64 = 4_000_000;
const UNKNOWN_HDR: u64 = 4_000_000;

fn pt(w: &World, op: &OutPoint) -> (u64, u64) {
    let i: u32 = op.index().unpack();
    (w.tx_id.get(&op.tx_hash()).map(|x| *x as u64).unwrap_or(UNKNOWN_TX), i as u64)
}
fn hdr(w: &World, h: &Byte32) -> u64 {
    w.block_id.get(h).cloned().unwrap_or(UNKNOWN_HDR)
}

pub fn atx_of_entry(w: &World, e: &EntryDump) -> ATx {
    ATx {
        id: w.tx_id.get(&e.tx_hash).map(|x| *x as u64).unwrap_or(UNKNOWN_TX),
        inputs: e.inputs.iter().map(|op| pt(w, op)).collect(),
        deps: e.related_deps.iter().map(|op| pt(w, op)).collect(),
        hdeps: e.header_deps.iter().map(|h| hdr(w, h)).collect(),
        nout: e.outputs_count as u64,
        size: e.size as u64,
        cycles: e.cycles,
        fee: e.fee,
        ts: e.timestamp - GENESIS_TS_BASE,
    }
}

pub const GENESIS_TS_BASE: u64 = crate::node::GENESIS_TS;

pub fn atx_of_tx(w: &World, tx: &TransactionView, cycles: u64, fee: u64, ts: u64) -> ATx {
    ATx {
        id: w.tx_id.get(&tx.hash()).map(|x| *x as u64).unwrap_or(UNKNOWN_TX),
        inputs: tx.input_pts_iter().map(|op| pt(w, &op)).collect(),
        // the always-success code cell is a chain cell nobody spends: left out, as in the pool's related deps
        deps: tx.cell_deps_iter().map(|d| pt(w, &d.out_point())).filter(|p| p.0 != UNKNOWN_TX).collect(),
        hdeps: tx.header_deps_iter().map(|h| hdr(w, &h)).collect(),
        nout: tx.outputs().len() as u64,
        size: tx.data().serialized_size_in_block() as u64,
        cycles,
        fee,
        ts,
    }
}

/// entries in an order in which every pooled parent precedes its children
pub fn topo(dump: &PoolDump) -> Vec<&EntryDump> {
    let by_hash: HashMap<Byte32, &EntryDump> = dump.entries.iter().map(|e| (e.tx_hash.clone(), e)).collect();
    let mut es: Vec<&EntryDump> = dump.entries.iter().collect();
    es.sort_by_key(|e| e.tx_hash.clone());
    let mut done: HashSet<Byte32> = HashSet::new();
    let mut out = vec![];
    while out.len() < es.len() {
        let mut progressed = false;
        for e in &es {
            if done.contains(&e.tx_hash) {
                continue;
            }
            let ready = e.inputs.iter().chain(e.related_deps.iter()).all(|op| !by_hash.contains_key(&op.tx_hash()) || done.contains(&op.tx_hash()) || op.tx_hash() == e.tx_hash);
            if ready {
                done.insert(e.tx_hash.clone());
                out.push(*e);
                progressed = true;
            }
        }
        if !progressed {
            break;
        }
    }
    out
}

pub fn abstract_pool(w: &World, dump: &PoolDump) -> Vec<(ATx, u64)> {
    topo(dump).into_iter().map(|e| (atx_of_entry(w, e), st_num(e.status))).collect()
}

fn coq_pool(p: &[(ATx, u64)]) -> String {
    coq_list(p, |(t, s)| format!("({}, {})", t.coq(), st_coq(*s)))
}

pub struct ReorgCase {
    pub max_anc: u64,
    pub max_size: u64,
    pub min_fee_rate: u64,
    pub cutoff: u64,
    pub before: Vec<(ATx, u64)>,
    pub attached: Vec<ATx>,
    pub detached_headers: Vec<u64>,
    pub detached_props: Vec<u64>,
    pub gap: Vec<u64>,
    pub set: Vec<u64>,
    pub retain: Vec<ATx>,
    pub live: Vec<(u64, u64)>,
    pub main_headers: Vec<u64>,
    pub after: Vec<(u64, u64)>,
    /// the model is expected to reproduce `after` exactly
    pub precise: bool,
    pub desc: Value,
}

impl ReorgCase {
    pub fn coq(&self) -> String {
        let n = |x: &u64| coq_n(*x as u128);
        let ptc = |p: &(u64, u64)| format!("({}, {})", coq_n(p.0 as u128), coq_n(p.1 as u128));
        format!(
            "(mkRC {} {} {} {} {} {} {} {} (mkView {} {}) {} {} {} {} {})",
            n(&self.max_anc),
            n(&self.max_size),
            n(&self.min_fee_rate),
            n(&self.cutoff),
            coq_pool(&self.before),
            coq_list(&self.attached, |t| t.coq()),
            coq_list(&self.detached_headers, n),
            coq_list(&self.detached_props, n),
            coq_list(&self.gap, n),
            coq_list(&self.set, n),
            coq_list(&self.retain, |t| t.coq()),
            coq_list(&self.live, ptc),
            coq_list(&self.main_headers, n),
            coq_list(&self.after, ptc),
            coq_bool(self.precise)
        )
    }
}

pub fn reorg_case(w: &World, before: &PoolDump, after: &PoolDump, ch: &Change) -> Option<ReorgCase> {
    let snap = w.node.shared.snapshot();
    let view = snap.proposals();
    let attached_h: HashSet<Byte32> = ch.attached.iter().flat_map(|b| b.transactions().into_iter().skip(1).map(|t| t.hash())).collect();
    let mut attached = vec![];
    for b in &ch.attached {
        for tx in b.transactions().iter().skip(1) {
            attached.push(atx_of_tx(w, tx, 0, 0, 0));
        }
    }
    let mut retain = vec![];
    let mut seen = HashSet::new();
    let now = w.clock - GENESIS_TS_BASE;
    for b in &ch.detached {
        for tx in b.transactions().iter().skip(1) {
            if attached_h.contains(&tx.hash()) || !seen.insert(tx.hash()) {
                continue;
            }
            let info = w.tx_id.get(&tx.hash()).map(|i| &w.txs[*i]);
            let fee = crate::pred::fee_of_pub(w, tx).unwrap_or(info.map(|i| i.fee).unwrap_or(0));
            // cycles: what the pool reports when it re-admitted it, else the usual always-success cost
            let cycles = after.entries.iter().find(|e| e.tx_hash == tx.hash()).map(|e| e.cycles).unwrap_or(0);
            let ts = after.entries.iter().find(|e| e.tx_hash == tx.hash()).map(|e| e.timestamp - GENESIS_TS_BASE).unwrap_or(now);
            retain.push(atx_of_tx(w, tx, cycles, fee, ts));
        }
    }
    // out-points and headers mentioned by pooled / retained txs
    let mut pts: HashSet<OutPoint> = HashSet::new();
    let mut hs: HashSet<Byte32> = HashSet::new();
    for e in before.entries.iter().chain(after.entries.iter()) {
        pts.extend(e.inputs.iter().cloned());
        pts.extend(e.related_deps.iter().cloned());
        hs.extend(e.header_deps.iter().cloned());
    }
    for b in &ch.detached {
        for tx in b.transactions().iter().skip(1) {
            pts.extend(tx.input_pts_iter());
            pts.extend(tx.cell_deps_iter().map(|d| d.out_point()));
            hs.extend(tx.header_deps_iter());
        }
    }
    let mut live: Vec<(u64, u64)> = pts.iter().filter(|op| is_live(&snap, op) && w.tx_id.contains_key(&op.tx_hash())).map(|op| pt(w, op)).collect();
    live.sort();
    let mut main_headers: Vec<u64> = hs.iter().filter(|h| ckb_store::ChainStore::is_main_chain(snap.as_ref(), h)).map(|h| hdr(w, h)).collect();
    main_headers.sort();
    let known = |ids: Vec<u64>| { let mut v = ids; v.sort(); v.dedup(); v };
    let gap = known(view.gap().iter().filter_map(|i| w.by_short.get(i).map(|x| *x as u64)).collect());
    let set = known(view.set().iter().filter_map(|i| w.by_short.get(i).map(|x| *x as u64)).collect());
    let new_set: HashSet<_> = view.set().iter().cloned().collect();
    let detached_props = known(ch.old_set.iter().filter(|i| !new_set.contains(*i)).filter_map(|i| w.by_short.get(i).map(|x| *x as u64)).collect());
    let mut after_l: Vec<(u64, u64)> = after.entries.iter().map(|e| (w.tx_id.get(&e.tx_hash).map(|x| *x as u64).unwrap_or(UNKNOWN_TX), st_num(e.status))).collect();
    after_l.sort();
    let exp = w.cfg.expiry_hours as u64 * 3_600_000;
    let cutoff = now.saturating_sub(exp);
    // the membership-level model has no cell-ref parents (a spender of a cell is a child of the pooled txs
    // that use the cell as a dep): cases with dep edges are predicate-only
    let no_deps = before.entries.iter().chain(after.entries.iter()).all(|e| e.related_deps.is_empty())
        && ch.detached.iter().all(|b| b.transactions().iter().skip(1).all(|t| t.cell_deps().len() <= 1));
    let precise = crate::pred::aggregates_consistent(before) && crate::pred::aggregates_consistent(after) && w.racing_since_sync == 0 && no_deps
        && w.orphan_cause.is_empty()
        // a two-step submission that straddled the change adds an entry the reorg model knows nothing about
        && w.straddle_tx.is_none();
    Some(ReorgCase {
        max_anc: before.max_ancestors_count as u64,
        max_size: w.cfg.max_tx_pool_size as u64,
        min_fee_rate: w.cfg.min_fee_rate,
        cutoff,
        before: abstract_pool(w, before),
        attached,
        detached_headers: ch.detached.iter().map(|b| hdr(w, &b.hash())).collect(),
        detached_props,
        gap,
        set,
        retain,
        live,
        main_headers,
        after: after_l,
        precise,
        desc: json!({"detached_blocks": ch.detached.iter().map(|b| hdr(w, &b.hash())).collect::<Vec<_>>(), "attached_blocks": ch.attached.iter().map(|b| hdr(w, &b.hash())).collect::<Vec<_>>(),
            "pool_before": before.entries.len(), "pool_after": after.entries.len(), "precise": precise, "history_len": w.jops.len()}),
    })
}

pub enum TemplateCase {
    Size { max: u64, total: u64, txs: u64, proposals: u64, uncles: u64, real: u64, desc: Value },
    Selection { pool: Vec<(ATx, u64)>, selected: Vec<u64>, size_limit: u64, cycles_limit: u64, desc: Value },
}

impl TemplateCase {
    pub fn coq(&self) -> String {
        let n = |x: &u64| coq_n(*x as u128);
        match self {
            TemplateCase::Size { max, total, txs, proposals, uncles, real, .. } => {
                format!("(mkSizeObs {} {} {} {} {} {})", n(max), n(total), n(txs), n(proposals), n(uncles), n(real))
            }
            TemplateCase::Selection { pool, selected, size_limit, cycles_limit, .. } => {
                format!("(mkSelObs {} {} {} {})", coq_pool(pool), coq_list(selected, n), n(size_limit), n(cycles_limit))
            }
        }
    }
    pub fn desc(&self) -> Value {
        match self {
            TemplateCase::Size { desc, .. } | TemplateCase::Selection { desc, .. } => desc.clone(),
        }
    }
    pub fn is_size(&self) -> bool {
        matches!(self, TemplateCase::Size { .. })
    }
}
