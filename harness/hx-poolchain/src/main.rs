//! hx-poolchain <C12|C13>: a real node with the tx-pool service started and a
//! block assembler configured, driven through random histories of submissions,
//! mined templates, outside blocks on competing branches and clock steps.
mod cases;
mod drive;
mod node;
mod pred;
mod uncles;
mod world;

use hx_common::*;
use node::ChainCfg;
use serde_json::{json, Value};
use std::collections::BTreeMap;
use std::fs;
use world::WorldCfg;

fn pick_cfg(rng: &mut Rng) -> (WorldCfg, Value) {
    let window = *rng.pick(&[(1u64, 3u64), (2, 4), (2, 10), (1, 2), (2, 3)]);
    let gel = *rng.pick(&[4u64, 6, 9, 1000]);
    let max_block_bytes = *rng.pick(&[None, None, Some(2_000u64), Some(3_500), Some(6_000)]);
    let max_block_cycles = *rng.pick(&[None, None, Some(1_200u64), Some(3_000), Some(10_000)]);
    let max_block_proposals_limit = *rng.pick(&[None, None, Some(3u64)]);
    let max_tx_pool_size = *rng.pick(&[180_000_000usize, 180_000_000, 3_000, 8_000]);
    let max_ancestors_count = *rng.pick(&[4usize, 8, 125]);
    let rbf = rng.chance(2, 3);
    let update_interval_millis = *rng.pick(&[0u64, 0, 0, 2]);
    let max_data = *rng.pick(&[64u64, 600, 1_500]);
    let chain = ChainCfg {
        genesis_epoch_length: gel,
        window,
        max_block_bytes,
        max_block_cycles,
        max_block_proposals_limit,
        ..Default::default()
    };
    let cfg = WorldCfg {
        chain,
        max_tx_pool_size,
        max_ancestors_count,
        expiry_hours: 1,
        min_fee_rate: 1000,
        min_rbf_rate: if rbf { 1500 } else { 1000 },
        update_interval_millis,
        max_data,
    };
    let d = json!({"window": [window.0, window.1], "genesis_epoch_length": gel, "max_block_bytes": max_block_bytes, "max_block_cycles": max_block_cycles,
        "max_block_proposals_limit": max_block_proposals_limit, "max_tx_pool_size": max_tx_pool_size, "max_ancestors_count": max_ancestors_count,
        "rbf": rbf, "update_interval_millis": update_interval_millis, "max_data": max_data});
    (cfg, d)
}

/// indices from here on are the directed histories (a fixed script around the straddling submissions)
const DIRECTED: u64 = 1_000_000;
/// index + LEGACY: the random history `index` with the step choice of before the straddling step (corpus entries)
const LEGACY: u64 = 2_000_000;
const DIRECTED_WINDOWS: [(u64, u64); 5] = [(2, 4), (1, 3), (2, 10), (1, 2), (2, 3)];

fn directed_cfg(k: u64) -> (WorldCfg, Value) {
    let window = DIRECTED_WINDOWS[(k % 5) as usize];
    let update_interval_millis = if k % 2 == 0 { 0 } else { 2 };
    let chain = ChainCfg { genesis_epoch_length: 1000, window, ..Default::default() };
    let cfg = WorldCfg { chain, max_tx_pool_size: 180_000_000, max_ancestors_count: 125, expiry_hours: 1, min_fee_rate: 1000, min_rbf_rate: 1500,
        update_interval_millis, max_data: 64 };
    let d = json!({"directed": k, "window": [window.0, window.1], "genesis_epoch_length": 1000, "update_interval_millis": update_interval_millis});
    (cfg, d)
}

fn run_history(seed: u64, index: u64, mode_c12: bool, steps: u64) -> (drive::Obs, Vec<Value>, BTreeMap<String, u64>, Value) {
    let hist_id = format!("seed={seed} index={index}");
    if let Ok(mut v) = world::SERVICE_PANICS.lock() { v.clear(); }
    world::C11_SITUATION.store(false, std::sync::atomic::Ordering::SeqCst);
    if (DIRECTED..LEGACY).contains(&index) {
        let k = index - DIRECTED;
        let mut rng = Rng::new(seed ^ index.wrapping_mul(0x9E37_79B9_7F4A_7C15));
        let (cfg, cfg_desc) = directed_cfg(k);
        let mut d = drive::Driver::new(cfg, mode_c12, hist_id);
        d.w.log(json!({"config": cfg_desc}));
        d.run_directed(&mut rng, k);
        d.w.stat("directed_histories");
        let drive::Driver { w, obs, .. } = d;
        let (viol, stats, _jops) = w.finish();
        return (obs, viol, stats, cfg_desc);
    }
    let (legacy, index) = if index >= LEGACY { (true, index - LEGACY) } else { (false, index) };
    let mut rng = Rng::new(seed ^ index.wrapping_mul(0x9E37_79B9_7F4A_7C15));
    let (cfg, cfg_desc) = pick_cfg(&mut rng);
    let mut d = drive::Driver::new(cfg, mode_c12, hist_id);
    // HX_STRADDLE=0: the histories of before the straddling step (timing comparisons)
    d.legacy_steps = legacy || env_u64("HX_STRADDLE", 1) == 0;
    d.w.log(json!({"config": cfg_desc}));
    d.run(&mut rng, steps);
    let drive::Driver { w, obs, .. } = d;
    let (viol, stats, _jops) = w.finish();
    (obs, viol, stats, cfg_desc)
}

/// the nodes of a finished history are stopped: drop their databases
fn clean_scratch(scratch: &std::path::Path) {
    for e in fs::read_dir(scratch).into_iter().flatten().flatten() {
        let name = e.file_name().to_string_lossy().to_string();
        if name.starts_with("ckb-tmp-") {
            let _ = fs::remove_dir_all(e.path());
        } else if name.starts_with(".tmp") {
            for d in fs::read_dir(e.path()).into_iter().flatten().flatten() {
                if d.file_name().to_string_lossy().starts_with("db_") {
                    let _ = fs::remove_dir_all(d.path());
                }
            }
        }
    }
}

fn main() {
    let prop = std::env::args().nth(1).expect("usage: hx-poolchain <C12|C13>");
    let mode_c12 = match prop.as_str() {
        "C12" => true,
        "C13" => false,
        _ => panic!("unknown property {prop}"),
    };
    world::install_panic_hook();
    let seed = seed();
    let thorough = tier_is_thorough();
    let out = out_dir(&prop);
    for e in fs::read_dir(&out).unwrap().flatten() {
        let n = e.file_name().to_string_lossy().to_string();
        if n.starts_with("cases_") || n == "summary.json" {
            let _ = fs::remove_file(e.path());
        }
    }
    // every temporary database / header-map directory of the nodes goes under the scratch directory
    let scratch = scratch_dir(&prop);
    std::env::set_var("TMPDIR", &scratch);
    world::start_watchdog(out.clone(), prop.clone(), seed);
    let _log_guard = std::env::var("HX_LOG").ok().map(|f| ckb_logger_service::init_for_test(&f).expect("logger"));
    ckb_logger::debug!("hx-poolchain start");
    let (n_hist, steps) = match (thorough, std::env::var("HX_HIST").ok().and_then(|s| s.parse::<u64>().ok())) {
        (_, Some(n)) => (n, env_u64("HX_STEPS", 60)),
        (false, None) => (env_u64("HX_HIST_QUICK", 30), 60),
        (true, None) => (hx_common::shard_share(360), 90),
    };
    let replay = std::env::var("HX_REPLAY").ok();
    let mut indices: Vec<u64> = (0..n_hist).collect();
    if let Some(rp) = &replay {
        // re-run the history of the first violation of the replay file
        let v: Value = serde_json::from_str(&fs::read_to_string(rp).expect("replay file")).expect("json");
        let id = v["violations"][0]["history_id"].as_str().unwrap_or("").to_string();
        if id.starts_with("uncles ") {
            // a sequence of the candidate-uncles stream
            let idx = id.split("index=").nth(1).and_then(|s| s.trim().parse::<u64>().ok()).expect("sequence index in replay file");
            let sd = id.split("seed=").nth(1).and_then(|s| s.split(' ').next()).and_then(|s| s.parse::<u64>().ok()).unwrap_or(seed);
            println!("replay of candidate-uncles sequence {id}");
            let viol = uncles::replay(sd, idx);
            for v in &viol {
                println!("  still failing: {} {} [signature: {}]", v["what"], v["detail"], v.get("signature").map(|s| s.to_string()).unwrap_or("none".into()));
            }
            let _ = fs::remove_dir_all(&scratch);
            std::process::exit(if viol.is_empty() { 0 } else { 1 });
        }
        let idx = id.split("index=").nth(1).and_then(|s| s.trim().parse::<u64>().ok()).expect("history index in replay file");
        let sd = id.split("seed=").nth(1).and_then(|s| s.split(' ').next()).and_then(|s| s.parse::<u64>().ok()).unwrap_or(seed);
        let (_, viol, _, cfg) = run_history(sd, idx, mode_c12, steps);
        println!("replay of history {id}: config {cfg}");
        for v in &viol {
            println!("  still failing: {} {} [signature: {}]", v["what"], v["detail"], v.get("signature").map(|s| s.to_string()).unwrap_or("none".into()));
        }
        if viol.is_empty() {
            println!("  no violation this time (the schedule of the pool's tasks is not controlled by the seed)");
        }
        let _ = fs::remove_dir_all(&scratch);
            std::process::exit(if viol.is_empty() { 0 } else { 1 });
    }
    let mut viol: Vec<Value> = vec![];
    let mut stats: BTreeMap<String, u64> = BTreeMap::new();
    let mut evals = 0u64;
    let mut distinct = 0usize;
    let mut samples: Vec<Value> = vec![];
    let mut c12_cases: Vec<cases::ReorgCase> = vec![];
    let mut c13_cases: Vec<cases::TemplateCase> = vec![];
    // corpus first: fixed (seed, index) pairs of earlier failures
    let corpus = std::path::Path::new("/verif/corpus").join(&prop).join("histories.json");
    let mut runs: Vec<(u64, u64)> = vec![];
    if let Ok(s) = fs::read_to_string(&corpus) {
        if let Ok(Value::Array(a)) = serde_json::from_str::<Value>(&s) {
            for x in a {
                if let (Some(sd), Some(i)) = (x["seed"].as_u64(), x["index"].as_u64()) {
                    // entries recorded before the straddling step existed keep their step choice
                    let legacy = x["steps"].as_u64().unwrap_or(1) < 2 && i < DIRECTED;
                    runs.push((sd, if legacy { i + LEGACY } else { i }));
                }
            }
        }
    }
    *stats.entry("corpus_histories".into()).or_default() += runs.len() as u64;
    // directed histories: the four straddling submissions under each of the five proposal windows
    let n_directed = if n_hist == 0 || env_u64("HX_STRADDLE", 1) == 0 { 0 } else { env_u64("HX_DIRECTED", 5) };
    runs.extend((0..n_directed).map(|k| (seed, DIRECTED + k)));
    runs.extend(indices.drain(..).map(|i| (seed, i)));
    for (sd, i) in runs {
        let r = std::panic::catch_unwind(|| run_history(sd, i, mode_c12, steps));
        match r {
            Ok((obs, v, st, _cfg)) => {
                evals += if mode_c12 { obs.c12_evals } else { obs.c13_evals };
                if (mode_c12 && obs.c12_evals >= 3) || (!mode_c12 && obs.c13_evals >= 3) {
                    distinct += 1;
                }
                for (k, n) in st {
                    *stats.entry(k).or_default() += n;
                }
                for s in obs.samples {
                    if samples.len() < 3 {
                        samples.push(s);
                    }
                }
                c12_cases.extend(obs.c12_cases);
                c13_cases.extend(obs.c13_cases);
                viol.extend(v);
            }
            Err(p) => {
                let msg = p.downcast_ref::<String>().cloned().or_else(|| p.downcast_ref::<&str>().map(|s| s.to_string())).unwrap_or_default();
                // the selector / pool map of the node's own pool panicked under a call the harness made on its own thread
                // (verif_package_txs runs TxPool::package_txs inside block_on): the same recorded consequences of C11's
                // defects as when the service's task hits them
                let mut v = json!({"what": "panic while driving the node", "detail": msg, "history_id": format!("seed={sd} index={i}")});
                if !world::c11_situation() {}
                else if msg.contains("inconsistent pool") { v["signature"] = json!("pool-service-panicked-inconsistent-pool"); }
                else if msg == "invalid key" { v["signature"] = json!("pool-service-panicked-invalid-key"); }
                viol.push(v);
            }
        }
        clean_scratch(&scratch);
        if viol.iter().filter(|v| v.get("signature").is_none()).count() > 5 {
            break;
        }
    }
    world::heartbeat_off();
    // the critical schedule (pre-checked Proposed, submitted under a tip whose window no longer holds the id) must
    // have been reached: a run that lost it says so instead of passing
    if n_directed >= 5 && viol.iter().all(|v| v.get("signature").is_some()) {
        for k in ["straddle_precheck_proposed_submit_pending", "straddle_precheck_pending_submit_gap", "straddle_precheck_pending_submit_proposed"] {
            if stats.get(k).cloned().unwrap_or(0) == 0 {
                viol.push(json!({"what": "harness coverage: no straddling submission of this class was generated", "detail": k}));
            }
        }
    }
    // ---- Coq case files
    let header = if mode_c12 { "From CKB Require Import Pool.PoolMap Pool.Reorg." } else { "From CKB Require Import Pool.PoolMap Pool.Template." };
    if mode_c12 {
        let per = 60usize;
        for (k, chunk) in c12_cases.chunks(per).enumerate().take(16) {
            let mut cf = CaseFile::new(&out, &format!("cases_{:02}", k), header);
            let g = cf.group("reorg", "reorg_case", "check_reorg_case");
            let mut descs = vec![];
            for c in chunk {
                cf.push(g, c.coq());
                descs.push(c.desc.clone());
            }
            cf.write().unwrap();
            fs::write(out.join(format!("cases_{:02}.json", k)), serde_json::to_string(&json!({"reorg": descs})).unwrap()).unwrap();
        }
        *stats.entry("coq_reorg_cases".into()).or_default() += std::cmp::min(c12_cases.len(), per * 16) as u64;
        *stats.entry("coq_reorg_cases_precise".into()).or_default() += c12_cases.iter().take(per * 16).filter(|c| c.precise).count() as u64;
    } else {
        let per = 250usize;
        for (k, chunk) in c13_cases.chunks(per).enumerate().take(16) {
            let mut cf = CaseFile::new(&out, &format!("cases_{:02}", k), header);
            let gs = cf.group("size", "size_obs", "check_size_obs");
            let gl = cf.group("selection", "sel_obs", "check_sel_obs");
            let (mut ds, mut dl) = (vec![], vec![]);
            for c in chunk {
                if c.is_size() {
                    cf.push(gs, c.coq());
                    ds.push(c.desc());
                } else {
                    cf.push(gl, c.coq());
                    dl.push(c.desc());
                }
            }
            cf.write().unwrap();
            fs::write(out.join(format!("cases_{:02}.json", k)), serde_json::to_string(&json!({"size": ds, "selection": dl})).unwrap()).unwrap();
        }
        *stats.entry("coq_template_cases".into()).or_default() += std::cmp::min(c13_cases.len(), per * 16) as u64;
        // ---- the candidate-uncles container (C13 names it as part of the assembler's state): operation sequences on the
        // real CandidateUncles, cases_20.v … for Pool/Uncles.v
        let n_seq = env_u64("HX_UNCLES", if thorough { hx_common::shard_share(4800) } else { 150 }) as usize;
        if n_seq > 0 {
            let u = uncles::run(seed, n_seq, &out);
            evals += u.sequences;
            for (k, n) in u.stats {
                *stats.entry(k).or_default() += n;
            }
            for s in u.samples {
                if samples.len() < 3 {
                    samples.push(s);
                }
            }
            viol.extend(u.viol);
        }
    }
    let _ = fs::remove_dir_all(&scratch);
    let rule = if mode_c12 {
        "histories on ONE real node with the tx-pool service started and a block assembler configured (always-success lock): submissions through TxPoolController::submit_local_tx (chains and diamonds of pooled txs, cell deps, header deps, conflicts / RBF, dead inputs, fees around min_fee_rate, output data up to the block size), blocks mined from the node's own template, outside blocks built by a second node (extensions, competing branches of depth 1..6 that take over, siblings; they commit pooled txs, secret conflicting txs and re-commit txs of the abandoned branch; proposals expire at w_far), clock steps around the expiry edge, two-step submissions (pre_check / pool change / submit_entry), and straddling submissions (5 directed histories, one per proposal window, at the start of every run + a random step): a transaction never handed to the pool, its id committed on chain as a proposal by an outside block and the chain advanced to the END of its window (tip = proposal height + w_far - 1) / proposed only on a branch about to be abandoned / not proposed yet, is submitted through pre_check, <the node mines its own template | an outside block arrives | a heavier competing branch takes over> with the pool processing the change, submit_entry; the predicate is evaluated right after the insertion and the next template is mined. After every change of the main chain the harness waits until the pool's snapshot is the chain's tip and evaluates the C12 predicate on the pool dump and the node's snapshot. distinct = histories with >= 3 evaluations"
    } else {
        "the histories of C12; every template obtained from TxPoolController::get_block_template (steady state, right after a block while the reorg notification may still be in flight, after reorgs, at epoch boundaries of 4/6/9-block epochs, with candidate uncles, with max_block_bytes / max_block_cycles / proposals limit lowered so that they bind, pool near max_tx_pool_size / max_ancestors_count) is checked for limits, size bookkeeping (TemplateSize vs the real serialized block), parents-first order, and mined on the SAME node: blocking_process_block must accept it and make it the tip whenever its parent is the tip; the raw TxSelector selection (package_txs) is checked against a dump taken under the same lock (ancestor-closed, parents-first, only proposed, within limits). Candidate uncles: random sequences of 60..200 insert / remove_by_number calls on the real CandidateUncles (numbers from a window of 1..20 heights so that heights exceed MAX_PER_HEIGHT and the container reaches MAX_CANDIDATE_UNCLES; duplicates, removes of present and absent uncles, inserts below / at / above the lowest number of a full container), len / contains / values observed after every call and judged by the container's contract; one evaluation per sequence. distinct = histories with >= 3 evaluations"
    };
    let summary = json!({
        "property": prop, "seed": seed,
        "evaluations": evals, "distinct_nontrivial": distinct,
        "rule": rule, "distribution": stats, "samples": samples,
        "impl_violations": viol,
    });
    fs::write(out.join("summary.json"), serde_json::to_string_pretty(&summary).unwrap()).unwrap();
    println!("hx-poolchain {}: {} evaluations, {} implementation-side violations", prop, evals, viol.len());
}
