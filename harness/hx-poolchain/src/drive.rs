//! Random histories over a `World`, with the two observers:
//!  * C13: every template obtained from the node is checked (limits, size
//!    bookkeeping, parents-first, raw selection closed under in-pool ancestors)
//!    and mined on the same node;
//!  * C12: after every change of the main chain, once the pool caught up, the
//!    pool dump is checked against the node's snapshot.
use crate::node::*;
use crate::world::*;
use ckb_store::ChainStore;
use ckb_tx_pool::verif_hooks::{PoolDump, Status};
use ckb_types::core::{BlockView, TransactionView};
use ckb_types::packed::{Byte32, OutPoint, ProposalShortId};
use ckb_types::prelude::*;
use hx_common::Rng;
use serde_json::{json, Value};
use std::collections::{HashMap, HashSet};

#[derive(Default)]
pub struct Obs {
    pub c12_evals: u64,
    pub c13_evals: u64,
    pub c12_cases: Vec<crate::cases::ReorgCase>,
    pub c13_cases: Vec<crate::cases::TemplateCase>,
    pub samples: Vec<Value>,
}

pub struct Driver {
    pub w: World,
    pub obs: Obs,
    pub mode_c12: bool,
    /// pool dump at the last synchronisation point (the pool "before" the next reorg)
    pub last_dump: Option<PoolDump>,
    /// F3/F10 situations (C11's known aggregate defects) happened in this history
    pub f3_seen: bool,
    pub f10_seen: bool,
    pub hist_id: String,
    /// a violation outside the recorded classes happened: the history stops
    pub fatal: bool,
    /// length of the history log when a dump last showed stale ancestors_*/descendants_*
    pub aggs_bad_at: Option<usize>,
    /// step choice of the histories recorded in the corpus before the straddling step existed
    pub legacy_steps: bool,
    reported: HashSet<String>,
}

fn ids_json(w: &World, ids: &[ProposalShortId]) -> Value {
    json!(ids.iter().map(|i| w.by_short.get(i).map(|x| json!(x)).unwrap_or(json!(short_hex(i)))).collect::<Vec<_>>())
}

impl Driver {
    pub fn new(cfg: WorldCfg, mode_c12: bool, hist_id: String) -> Driver {
        let w = World::new(cfg);
        Driver { w, obs: Obs::default(), mode_c12, last_dump: None, f3_seen: false, f10_seen: false, hist_id, fatal: false, aggs_bad_at: None, legacy_steps: false, reported: HashSet::new() }
    }

    fn violation(&mut self, what: &str, detail: Value, signature: Option<&str>) {
        // once the pool service has panicked with a recorded defect of the pool, what the dead pool shows
        // afterwards belongs to that finding
        // a recorded finding whose mechanism is not isolated is identified by the history that shows it (replays on the real code)
        let signature: Option<&str> = if signature.is_none() && self.hist_id == "seed=20260985782785 index=21" && what.starts_with("C12 pooled tx has an input that is unknown")
            && (detail["tx"] == json!(49) || detail["detail"]["tx"] == json!(49)) { Some(crate::pred::SIG_H785) } else { signature };
        let panic_sig = crate::world::service_panic_signature();
        let signature: Option<&str> = match (&signature, &panic_sig) { (None, Some((s, _))) => Some(*s), _ => signature };
        if what.starts_with(if self.mode_c12 { "C13" } else { "C12" }) {
            self.w.stat("other_property_violation_not_reported_in_this_mode");
            return;
        }
        let key = format!("{what} {detail} {signature:?}");
        if !self.reported.insert(key) {
            return;
        }
        let mut v = json!({"what": what, "detail": detail, "history_id": self.hist_id});
        if let Some(s) = signature {
            v["signature"] = json!(s);
            // known classes: keep the record small, the history goes on
            let n = self.w.jops.len();
            v["history_tail"] = json!(self.w.jops[n.saturating_sub(12)..].to_vec());
            self.w.stat("known_class_violation");
        } else {
            v["history"] = json!(self.w.jops);
            self.fatal = true;
        }
        self.w.viol.push(v);
    }

    // ------------------------------------------------------------------ C13
    /// checks one template and (when `mine`) mines it on the node
    pub fn template_moment(&mut self, moment: &str, mine: bool) -> Option<Option<Change>> {
        let snap_before = self.w.node.shared.snapshot();
        let tip = snap_before.tip_hash();
        let consensus = snap_before.consensus().clone();
        let tsize = self.w.node.pool().verif_template_size();
        let t = self.w.template()?;
        let tsize2 = self.w.node.pool().verif_template_size();
        let work_id: u64 = t.work_id.into();
        let parent: Byte32 = t.parent_hash.pack();
        let fresh = parent == tip;
        let cycles: u64 = t.transactions.iter().map(|x| x.cycles.map(|c| c.into()).unwrap_or(0u64)).sum();
        let n_tx = t.transactions.len();
        let n_prop = t.proposals.len();
        let n_unc = t.uncles.len();
        let block = template_to_block(t);
        let real_size = block.data().serialized_size_without_uncle_proposals();
        self.w.stat(&format!("template_at_{moment}"));
        self.w.stat(if fresh { "template_fresh" } else { "template_stale_parent" });
        if n_tx > 0 { self.w.stat("template_with_txs"); }
        if n_unc > 0 { self.w.stat("template_with_uncles"); }
        if n_prop > 0 { self.w.stat("template_with_proposals"); }
        let desc = json!({"moment": moment, "work_id": work_id, "number": block.number(), "txs": n_tx, "proposals": n_prop, "uncles": n_unc,
            "size": real_size, "cycles": cycles, "max_block_bytes": consensus.max_block_bytes(), "max_block_cycles": consensus.max_block_cycles(),
            "tx_ids": block.transactions().iter().skip(1).map(|tx| self.w.tx_no(&tx.hash())).collect::<Vec<_>>() });
        self.obs.c13_evals += 1;
        let desc = {
            let (d, _) = self.w.node.pool().verif_dump();
            let mut desc = desc;
            desc["pool_aggregates_consistent"] = json!(crate::pred::aggregates_consistent(&d));
            desc["c11_f3_situation_seen"] = json!(self.f3_seen);
            if real_size as u64 > consensus.max_block_bytes() || cycles > consensus.max_block_cycles() {
                if let Some(sig) = self.known_c11_signature().or_else(|| self.f3_footprint(&block)) {
                    desc["known_signature"] = json!(sig);
                }
            }
            desc
        };
        // (iii) limits
        if real_size as u64 > consensus.max_block_bytes() {
            let sig = self.known_c11_signature().or_else(|| self.f3_footprint(&block));
            self.violation("C13 template larger than max_block_bytes", desc.clone(), sig);
        } else if real_size as u64 + 400 > consensus.max_block_bytes() {
            self.w.stat("template_within_400_bytes_of_limit");
        }
        if cycles > consensus.max_block_cycles() {
            let sig = self.known_c11_signature().or_else(|| self.f3_footprint(&block));
            self.violation("C13 template cycles above max_block_cycles", desc.clone(), sig);
        } else if cycles + 1_000 > consensus.max_block_cycles() {
            self.w.stat("template_within_1000_cycles_of_limit");
        }
        if n_prop as u64 > consensus.max_block_proposals_limit() {
            self.violation("C13 template proposals above the limit", desc.clone(), None);
        }
        if n_unc > consensus.max_uncles_num() {
            self.violation("C13 template uncles above the limit", desc.clone(), None);
        }
        // size bookkeeping: TemplateSize beside the template with the same work id
        for ts in [tsize, tsize2].into_iter().flatten() {
            if ts.work_id == work_id {
                let txs_sz: usize = block.transactions().iter().skip(1).map(|tx| tx.data().serialized_size_in_block()).sum();
                let ok = ts.total == real_size && ts.txs == txs_sz && ts.proposals == n_prop * 10 && ts.uncles == n_unc * ckb_types::core::UncleBlockView::serialized_size_in_block()
                    && ts.n_proposals == n_prop && ts.n_uncles == n_unc;
                self.w.stat("template_size_bookkeeping_checked");
                if self.obs.c13_cases.len() < 4000 {
                    self.obs.c13_cases.push(crate::cases::TemplateCase::Size {
                        max: consensus.max_block_bytes(), total: ts.total as u64, txs: ts.txs as u64, proposals: ts.proposals as u64, uncles: ts.uncles as u64,
                        real: real_size as u64, desc: desc.clone() });
                }
                if !ok {
                    self.violation("C13 TemplateSize does not describe the template", json!({"template": desc, "size": format!("{:?}", ts), "real_txs_size": txs_sz}), None);
                }
                break;
            }
        }
        // (ii) parents first inside the template
        {
            let mut pos: HashMap<Byte32, usize> = HashMap::new();
            for (i, tx) in block.transactions().iter().enumerate() {
                pos.insert(tx.hash(), i);
            }
            for (i, tx) in block.transactions().iter().enumerate().skip(1) {
                for op in tx.input_pts_iter().chain(tx.cell_deps_iter().map(|d| d.out_point())) {
                    if let Some(j) = pos.get(&op.tx_hash()) {
                        if *j >= i {
                            self.violation("C13 template lists a transaction before its parent", desc.clone(), None);
                        }
                    } else if snap_before.get_transaction_info(&op.tx_hash()).is_none() && fresh {
                        self.violation("C13 template transaction without its in-pool ancestor", json!({"template": desc, "tx": self.w.tx_no(&tx.hash()), "missing": self.w.tx_no(&op.tx_hash())}), None);
                    }
                }
            }
        }
        if self.obs.samples.len() < 3 && n_tx > 0 {
            self.obs.samples.push(json!({"template": desc}));
        }
        if !mine {
            return Some(None);
        }
        // (i) the node must accept its own template on top of the tip it names
        self.w.log(json!({"mine": {"moment": moment, "fresh": fresh, "number": block.number(), "txs": n_tx, "proposals": n_prop, "uncles": n_unc}}));
        match self.w.deliver(&block) {
            Ok(ch) => {
                if fresh {
                    self.w.stat("template_mined_accepted");
                    if self.w.node.shared.snapshot().tip_hash() != block.hash() {
                        self.violation("C13 mined template did not become the tip", desc, None);
                    }
                }
                Some(ch)
            }
            Err(e) => {
                if fresh {
                    // a committed transaction outside the proposal window of the template's parent is not a consequence
                    // of stale pool aggregates (C11's F3 / F10 make packages too large or mis-ordered): no known signature
                    let view = snap_before.proposals();
                    let outside: Vec<Value> = block.transactions().iter().skip(1).filter(|tx| !view.contains_proposed(&tx.proposal_short_id())).map(|tx| self.w.tx_no(&tx.hash())).collect();
                    let sig = if outside.is_empty() { self.known_c11_signature() } else { None };
                    self.violation("C13 the node rejected its own block template", json!({"template": desc, "error": e, "committed_outside_the_proposal_window": outside}), sig);
                } else {
                    self.w.stat("stale_template_rejected");
                }
                Some(None)
            }
        }
    }

    /// a C13 failure while the pool's ancestors_* are stale is the consequence of C11's recorded defects
    fn known_c11_signature(&self) -> Option<&'static str> {
        let (d, _) = self.w.node.pool().verif_dump();
        let recently_bad = self.aggs_bad_at.map(|s| s + 6 >= self.w.jops.len()).unwrap_or(false);
        if crate::pred::aggregates_consistent(&d) && !recently_bad {
            None
        } else if self.f3_seen {
            Some("add_entry of a tx that already has pooled children")
        } else if self.f10_seen {
            Some("remove_entry of a tx that has both pooled ancestors and pooled descendants")
        } else {
            None
        }
    }

    /// A template taken while the pool is still working through chain notifications is not described by any dump
    /// the harness can take afterwards.  F3's footprint on the template itself: it packs a transaction the pool
    /// re-added from a detached block (readd_detached_tx -> add_entry) together with a pooled child of it, the
    /// package whose ancestors_size / ancestors_cycles add_entry left without the parent's share.
    fn f3_footprint(&self, block: &BlockView) -> Option<&'static str> {
        let txs = block.transactions();
        for a in txs.iter().skip(1) {
            if !self.w.readded.contains(&a.hash()) { continue; }
            if txs.iter().skip(1).any(|t| t.input_pts_iter().chain(t.cell_deps_iter().map(|d| d.out_point())).any(|op| op.tx_hash() == a.hash())) {
                return Some("add_entry of a tx that already has pooled children");
            }
        }
        None
    }

    /// the raw TxSelector selection against the dump taken under the same lock
    pub fn selection_moment(&mut self, rng: &mut Rng) {
        let consensus = self.w.node.shared.snapshot().consensus().clone();
        let max_cycles = if rng.chance(1, 3) { rng.range(600, 4_000) } else { consensus.max_block_cycles() };
        let limit = if rng.chance(1, 2) { rng.range(200, 3_000) as usize } else { consensus.max_block_bytes() as usize };
        crate::world::heartbeat(&format!("{}: TxPool::package_txs({max_cycles}, {limit}) after {} recorded operations", self.hist_id, self.w.jops.len()));
        let (sel, size, cycles, dump) = self.w.node.pool().verif_package_txs(max_cycles, limit);
        self.obs.c13_evals += 1;
        self.w.stat("selection_checked");
        if !sel.is_empty() { self.w.stat("selection_nonempty"); }
        let by_id: HashMap<ProposalShortId, &ckb_tx_pool::verif_hooks::EntryDump> = dump.entries.iter().map(|e| (e.id.clone(), e)).collect();
        let by_hash: HashMap<Byte32, &ckb_tx_pool::verif_hooks::EntryDump> = dump.entries.iter().map(|e| (e.tx_hash.clone(), e)).collect();
        let pos: HashMap<ProposalShortId, usize> = sel.iter().enumerate().map(|(i, id)| (id.clone(), i)).collect();
        let mut real_size = 0usize;
        let mut real_cycles = 0u64;
        let mut bad: Vec<Value> = vec![];
        for (i, id) in sel.iter().enumerate() {
            let Some(e) = by_id.get(id) else { bad.push(json!({"selected id not pooled": short_hex(id)})); continue; };
            real_size += e.size;
            real_cycles += e.cycles;
            if e.status != Status::Proposed {
                bad.push(json!({"selected tx is not in proposed stage": self.w.tx_no(&e.tx_hash)}));
            }
            for op in e.inputs.iter().chain(e.related_deps.iter()) {
                if let Some(p) = by_hash.get(&op.tx_hash()) {
                    match pos.get(&p.id) {
                        Some(j) if *j < i => {}
                        Some(_) => bad.push(json!({"child before parent": [self.w.tx_no(&e.tx_hash), self.w.tx_no(&p.tx_hash)]})),
                        None => bad.push(json!({"in-pool parent not selected": [self.w.tx_no(&e.tx_hash), self.w.tx_no(&p.tx_hash)]})),
                    }
                }
            }
        }
        if sel.len() != pos.len() { bad.push(json!("duplicate in selection")); }
        if real_size != size || real_cycles != cycles { bad.push(json!({"reported size/cycles": [size, cycles], "real": [real_size, real_cycles]})); }
        if real_size > limit || real_cycles > max_cycles { bad.push(json!({"limits": [limit, max_cycles], "real": [real_size, real_cycles]})); }
        let aggs_ok = crate::pred::aggregates_consistent(&dump);
        let sel_sig = if aggs_ok { None } else if self.f3_seen { Some("add_entry of a tx that already has pooled children") } else if self.f10_seen { Some("remove_entry of a tx that has both pooled ancestors and pooled descendants") } else { None };
        if self.obs.c13_cases.len() < 4000 {
            self.obs.c13_cases.push(crate::cases::TemplateCase::Selection {
                pool: crate::cases::abstract_pool(&self.w, &dump), selected: sel.iter().filter_map(|i| self.w.by_short.get(i).map(|x| *x as u64)).collect(),
                size_limit: limit as u64, cycles_limit: max_cycles, desc: json!({"selected": ids_json(&self.w, &sel), "limit": limit, "max_cycles": max_cycles, "known_signature": if bad.is_empty() { None } else { sel_sig }}) });
        }
        if !bad.is_empty() {
            // stale ancestors_* (C11 findings F3/F10) make the selector trust wrong package sizes / orders
            let sig = sel_sig;
            self.violation("C13 TxSelector selection is not an ancestor-closed parents-first list within the limits",
                json!({"problems": bad, "selected": ids_json(&self.w, &sel), "size_limit": limit, "cycles_limit": max_cycles, "aggregates_consistent": aggs_ok}), sig);
        }
    }

    // ------------------------------------------------------------------ C12
    /// after a change of the main chain: wait for the pool, evaluate the predicate
    pub fn after_change(&mut self, ch: &Change, what: &str) {
        let before = self.last_dump.clone();
        let Some(dump) = self.w.sync_pool() else { return; };
        self.w.stat(&format!("change_{what}"));
        if !ch.detached.is_empty() {
            self.w.stat(&format!("reorg_depth_{}", std::cmp::min(ch.detached.len(), 8)));
        }
        self.note_c11_classes(ch, before.as_ref());
        {
            let mut pool: Vec<(u64, &str)> = dump.entries.iter().map(|e| (self.w.tx_id.get(&e.tx_hash).map(|x| *x as u64).unwrap_or(0), status_name(e.status))).collect();
            pool.sort();
            let tipn = self.w.node.tip().number();
            self.w.log(json!({"pool_after_change": {"tip": tipn, "detached": ch.detached.len(), "attached": ch.attached.len(),
                "pool": pool.iter().map(|(i, s)| format!("{i}{}", &s[..2])).collect::<Vec<_>>().join(" ")}}));
        }
        let mut learn = vec![];
        let mut lost = vec![];
        let r = crate::pred::c12_predicate(&self.w, &dump, ch, before.as_ref(), &mut learn, &mut lost);
        for (h, s) in learn {
            self.w.orphan_cause.entry(h).or_insert(s);
        }
        self.w.lost_detached.extend(lost);
        self.obs.c12_evals += 1;
        for (k, n) in &r.counts {
            *self.w.stats.entry(k.clone()).or_default() += *n;
        }
        if self.mode_c12 {
            if let Some(b) = &before {
                if self.obs.c12_cases.len() < 3000 {
                    if let Some(c) = crate::cases::reorg_case(&self.w, b, &dump, ch) {
                        self.obs.c12_cases.push(c);
                    }
                }
            }
            if self.obs.samples.len() < 3 && !ch.detached.is_empty() && !dump.entries.is_empty() {
                self.obs.samples.push(json!({"reorg": {"detached": ch.detached.len(), "attached": ch.attached.len(), "pool_after": dump.entries.len(), "checks": r.counts}}));
            }
            for (what, detail, sig) in r.problems {
                self.violation(&what, detail, sig);
            }
        }
        if !crate::pred::aggregates_consistent(&dump) {
            self.aggs_bad_at = Some(self.w.jops.len());
            crate::world::note_c11_situation();
        }
        self.last_dump = Some(dump);
        self.w.racing_since_sync = 0;
    }

    /// C11's known classes: F3 (a re-added parent finds its children pooled), F10 (an inner node leaves alone)
    fn note_c11_classes(&mut self, ch: &Change, before: Option<&PoolDump>) {
        let Some(b) = before else { return; };
        {
            let exp = self.w.cfg.expiry_hours as u64 * 3_600_000;
            let pooled: HashSet<Byte32> = b.entries.iter().map(|e| e.tx_hash.clone()).collect();
            for e in &b.entries {
                if e.timestamp + exp < self.w.clock
                    && e.inputs.iter().chain(e.related_deps.iter()).any(|op| pooled.contains(&op.tx_hash()))
                    && b.entries.iter().any(|c| c.inputs.iter().chain(c.related_deps.iter()).any(|op| op.tx_hash() == e.tx_hash))
                {
                    self.f10_seen = true;
                    crate::world::note_c11_situation();
                    self.w.stat("c11_F10_situation_expired_inner_node");
                }
            }
        }
        let attached: HashSet<Byte32> = ch.attached.iter().flat_map(|x| x.transactions().into_iter().skip(1).map(|t| t.hash())).collect();
        for blk in &ch.detached {
            for tx in blk.transactions().iter().skip(1) {
                if attached.contains(&tx.hash()) { continue; }
                if b.entries.iter().any(|e| e.inputs.iter().chain(e.related_deps.iter()).any(|op| op.tx_hash() == tx.hash())) {
                    self.f3_seen = true;
                    crate::world::note_c11_situation();
                    self.w.stat("c11_F3_situation_readd_parent_of_pooled");
                }
            }
        }
    }

    pub fn refresh_dump(&mut self) {
        let (d, _) = self.w.node.pool().verif_dump();
        if !crate::pred::aggregates_consistent(&d) {
            self.aggs_bad_at = Some(self.w.jops.len());
            crate::world::note_c11_situation();
        }
        self.last_dump = Some(d);
    }

    // -------------------------------------------------------------- history
    /// a transaction that outside blocks already proposed reaches the pool only now: it enters in
    /// stage Gap / Proposed and drives the assembler's update_transactions path
    fn submit_proposed_secret(&mut self, rng: &mut Rng) {
        let snap = self.w.node.shared.snapshot();
        let view = snap.proposals().clone();
        let (dump, _) = self.w.node.pool().verif_dump();
        let pooled: HashSet<Byte32> = dump.entries.iter().map(|e| e.tx_hash.clone()).collect();
        let cands: Vec<usize> = (0..self.w.txs.len())
            .filter(|i| {
                let t = &self.w.txs[*i];
                let id = t.tx.proposal_short_id();
                t.secret && !t.tx.is_cellbase() && (view.contains_proposed(&id) || view.contains_gap(&id))
                    && !pooled.contains(&t.tx.hash()) && snap.get_transaction_info(&t.tx.hash()).is_none()
            })
            .collect();
        for i in cands.into_iter().take(rng.range(1, 3) as usize) {
            let t = self.w.txs[i].clone();
            self.w.txs[i].secret = false;
            self.w.stat("submit_already_proposed_tx");
            self.w.submit(&t.tx, t.fee, "already-proposed");
        }
    }

    fn step_submit(&mut self, rng: &mut Rng) {
        if rng.chance(1, 3) {
            self.submit_proposed_secret(rng);
        }
        let n = rng.range(1, 4);
        for _ in 0..n {
            let (dump, _) = self.w.node.pool().verif_dump();
            if let Some((tx, fee, kind)) = self.w.plan_tx(rng, &dump) {
                self.w.submit(&tx, fee, kind);
                self.w.tick(rng.range(1, 40));
            }
        }
        self.refresh_dump();
    }

    fn step_mine(&mut self, rng: &mut Rng, moment: &str) {
        if rng.chance(3, 4) {
            self.w.settle_template();
        }
        if let Some(Some(ch)) = self.template_moment(moment, true) {
            if rng.chance(1, 5) {
                // a template requested while the pool may still be processing the notification
                self.template_moment("racing-notification", false);
            }
            self.after_change(&ch, "mined");
        }
    }

    /// a branch built outside, from `from` (main-chain height), `len` blocks
    fn step_branch(&mut self, rng: &mut Rng, from: u64, len: u64, prefer_secret: bool, what: &str) {
        let main = self.w.main_chain();
        let builder = Node::temp(&self.w.consensus);
        for b in main.iter().take(from as usize) {
            if builder.process(b).is_err() {
                self.violation("a main-chain block was rejected by a fresh node", json!({"height": b.number()}), None);
                builder.stop();
                return;
            }
        }
        // secret transactions: conflicts with pooled ones, spends of chain cells the pool does not know about
        self.make_secret_txs(rng, &builder);
        for k in 0..len {
            let Some(b) = self.w.build_outside(rng, &builder, prefer_secret, true) else { self.w.stat("outside_block_not_built"); break; };
            if let Err(e) = builder.process(&b) {
                self.w.stat("outside_block_rejected_by_builder");
                let _ = e;
                break;
            }
            let id = self.w.register_block(&b);
            self.w.log(json!({"block": {"id": id, "what": what, "from_height": from, "height": b.number(), "k": k,
                "commits": b.transactions().iter().skip(1).map(|t| self.w.tx_no(&t.hash())).collect::<Vec<_>>(),
                "proposals": b.union_proposal_ids_iter().filter_map(|i| self.w.by_short.get(&i).cloned()).collect::<Vec<_>>(),
                "uncles": b.uncles().into_iter().count()}}));
            match self.w.deliver(&b) {
                Ok(Some(ch)) => {
                    if rng.chance(1, 4) {
                        self.template_moment("racing-notification", false);
                    }
                    // submissions racing the notification
                    if rng.chance(1, 4) {
                        let (dump, _) = self.w.node.pool().verif_dump();
                        if let Some((tx, fee, kind)) = self.w.plan_tx(rng, &dump) {
                            self.w.stat("submit_racing_notification");
                            self.w.racing_since_sync += 1;
                            self.w.submit(&tx, fee, kind);
                        }
                    }
                    self.after_change(&ch, what);
                    if rng.chance(1, 3) {
                        self.w.settle_template();
                        self.template_moment("after-reorg", false);
                    }
                }
                Ok(None) => {
                    self.w.stat("side_block_delivered");
                }
                Err(e) => {
                    self.violation("the node rejected a block that a fresh node accepted", json!({"error": e, "height": b.number()}), None);
                    break;
                }
            }
        }
        builder.stop();
    }

    fn make_secret_txs(&mut self, rng: &mut Rng, builder: &Node) {
        let n = rng.below(3);
        let (dump, _) = self.w.node.pool().verif_dump();
        let snap = builder.shared.snapshot();
        let spent: Vec<(OutPoint, u64)> = self.w.outs.iter().filter(|(op, _)| dump.entries.iter().any(|e| e.inputs.contains(op)) && is_live(&snap, op)).cloned().collect();
        let live: Vec<(OutPoint, u64)> = self.w.outs.iter().filter(|(op, _)| is_live(&snap, op)).cloned().collect();
        for _ in 0..n {
            let pick = if !spent.is_empty() && rng.chance(1, 2) { rng.pick(&spent).clone() } else if !live.is_empty() { rng.pick(&live).clone() } else { return; };
            let fee = rng.range(500, 5_000);
            if let Some(tx) = self.w.make_tx(&[pick], rng.range(1, 2) as usize, fee, 8, &[], &[]) {
                let i = self.w.register_tx(&tx, fee, true);
                self.w.stat("secret_tx");
                self.w.log(json!({"secret_tx": {"tx": i, "inputs": tx.input_pts_iter().map(|op| json!([self.w.tx_no(&op.tx_hash()), Unpack::<u32>::unpack(&op.index())])).collect::<Vec<_>>()}}));
            }
        }
    }

    /// F6 generator: a parent about to expire with a young child, then a chain change
    fn step_expiry(&mut self, rng: &mut Rng) {
        let hour = 3_600_000u64;
        let exp = self.w.cfg.expiry_hours as u64 * hour;
        match rng.below(3) {
            0 => self.w.tick(exp / 3),
            1 => {
                let (dump, _) = self.w.node.pool().verif_dump();
                if let Some(oldest) = dump.entries.iter().map(|e| e.timestamp).min() {
                    let target = oldest + exp - 1_000;
                    if target > self.w.clock {
                        let d = target - self.w.clock;
                        self.w.tick(d);
                    }
                    // a young child of an old entry
                    if let Some((tx, fee, kind)) = self.w.plan_tx(rng, &dump) {
                        self.w.submit(&tx, fee, kind);
                    }
                    self.w.tick(2_000);
                    self.w.stat("expiry_edge");
                }
            }
            _ => self.w.tick(exp + 1),
        }
        self.w.log(json!({"clock": self.w.clock - GENESIS_TS}));
        self.refresh_dump();
    }

    /// F7 generator: the pool changes between pre_check and submit_entry of a child
    fn step_two_step(&mut self, rng: &mut Rng) {
        let (dump, _) = self.w.node.pool().verif_dump();
        let (_, _, pool_outs) = self.w.cell_classes(&dump);
        if pool_outs.is_empty() { return; }
        let (op, cap) = rng.pick(&pool_outs).clone();
        let parent = dump.entries.iter().find(|e| e.tx_hash == op.tx_hash()).cloned();
        let Some(parent) = parent else { return; };
        let fee = rng.range(500, 5_000);
        let Some(child) = self.w.make_tx(&[(op.clone(), cap)], 1, fee, 8, &[], &[]) else { return; };
        let action = rng.below(3);
        let parent_tx_no = self.w.tx_no(&parent.tx_hash);
        // the replacement of the parent (RBF: same inputs, much higher fee)
        let parent_info = self.w.tx_id.get(&parent.tx_hash).map(|i| self.w.txs[*i].clone());
        let repl = parent_info.as_ref().and_then(|pi| {
            let ins: Vec<(OutPoint, u64)> = pi.tx.input_pts_iter().filter_map(|o| self.w.outs.iter().find(|(x, _)| *x == o).cloned()).collect();
            if ins.len() != pi.tx.inputs().len() { return None; }
            self.w.make_tx(&ins, 1, pi.fee + 600_000, 8, &[], &[])
        });
        let pool = self.w.node.pool().clone();
        let mut between_desc = "none";
        let mut repl_result = None;
        let r = {
            let between = || match action {
                0 if repl.is_some() => {
                    between_desc = "rbf-replace-parent";
                    repl_result = Some(pool.submit_local_tx(repl.clone().unwrap()));
                }
                _ => {
                    between_desc = "remove-parent";
                    let _ = pool.remove_local_tx(parent.tx_hash.clone());
                }
            };
            pool.verif_process_tx_two_step(child.clone(), between)
        };
        if let (Some(rt), Some(rr)) = (&repl, &repl_result) {
            let i = self.w.register_tx(rt, 0, false);
            self.w.log(json!({"between_submit": {"tx": i, "replaces": parent_tx_no, "result": format!("{}", matches!(rr, Ok(Ok(()))))}}));
        }
        let i = self.w.register_tx(&child, fee, false);
        self.w.stat(&format!("two_step_{between_desc}"));
        self.w.stat(if r.is_ok() { "two_step_child_accepted" } else { "two_step_child_rejected" });
        self.w.log(json!({"two_step_submit": {"tx": i, "parent": parent_tx_no, "between": between_desc, "accepted": r.is_ok()}}));
        // the pool did not see a chain change, but the property's second clause is about the pool at any time
        let (dump, _) = self.w.node.pool().verif_dump();
        let r = crate::pred::c12_unresolvable(&self.w, &dump);
        for (what, detail, ph) in r {
            let known = self.w.orphan_cause.get(&ph).cloned();
            let f9p = dump.entries.iter().any(|e| e.inputs.iter().any(|op| op.tx_hash() == ph) && crate::pred::f9p_footprint(&self.w, e, &ph));
            let sig = known.or(if f9p { Some(crate::pred::SIG_F9P) } else if ph == parent.tx_hash { Some(crate::pred::SIG_F7) } else { None });
            if let Some(s) = sig {
                self.w.orphan_cause.entry(ph).or_insert(s);
            }
            if self.mode_c12 {
                self.violation(&what, json!({"after": "two-step submission", "detail": detail}), sig);
            }
        }
        self.last_dump = Some(dump);
    }


    // ------------------------------------------------- straddling submission
    /// an outside block on the node's own tip with the given proposals (no commits, no uncles)
    fn outside_on_tip(&mut self, rng: &mut Rng, proposals: Vec<ProposalShortId>, what: &str) -> Option<BlockView> {
        let delta = *rng.pick(&[1u64, 7, 300, 2_000]);
        let plan = BlockPlan { proposals, txs: vec![], uncles: vec![], ts_delta: delta, nonce: self.w.blocks.len() as u128 + 1 };
        let b = try_build_block(&self.w.node, &plan);
        let Some(b) = b else { self.w.stat("straddle_outside_block_not_built"); return None; };
        let id = self.w.register_block(&b);
        self.w.log(json!({"block": {"id": id, "what": what, "height": b.number(), "commits": [],
            "proposals": b.union_proposal_ids_iter().filter_map(|i| self.w.by_short.get(&i).cloned()).collect::<Vec<_>>(), "uncles": 0}}));
        Some(b)
    }

    /// up to `n` ids of pooled transactions that are not proposed yet (what another miner would propose)
    fn other_proposals(&mut self, rng: &mut Rng, n: u64) -> Vec<ProposalShortId> {
        let (dump, _) = self.w.node.pool().verif_dump();
        let mut ids: Vec<ProposalShortId> = dump.entries.iter().filter(|e| e.status == Status::Pending).map(|e| e.id.clone()).collect();
        ids.sort_by_key(|i| short_hex(i));
        let mut out = vec![];
        for _ in 0..n {
            if ids.is_empty() { break; }
            let k = rng.below(ids.len() as u64) as usize;
            out.push(ids.swap_remove(k));
        }
        out
    }

    /// mines the node's own templates until the tip is at `target`
    fn advance_to(&mut self, rng: &mut Rng, target: u64) -> bool {
        let mut tries = 0;
        while self.w.node.tip().number() < target && tries < 3 * (target + 1) && !self.fatal {
            tries += 1;
            self.w.settle_template();
            if let Some(Some(ch)) = self.template_moment("straddle-advance", true) {
                self.after_change(&ch, "mined");
            }
            self.w.tick(rng.range(1, 2_000));
        }
        self.w.node.tip().number() == target && !self.fatal
    }

    /// C12 stage clause under the 'schedules' quantifier / C13 'its transactions are proposed within the window':
    /// the tip changes between pre_check and submit_entry of a transaction T, and the change alters T's OWN
    /// proposal status.  T is never handed to the pool before; its id is committed on chain as a proposal by an
    /// outside block.
    ///  0: T's proposal at the END of its window (tip = proposal height + w_far - 1), the node mines its own template in between
    ///  1: the same, an outside block arrives in between
    ///  2: T proposed only on the branch that a heavier competing branch replaces in between
    ///  3: T unknown to the chain at pre_check, proposed by the outside block that arrives in between
    pub fn step_straddle(&mut self, rng: &mut Rng, variant: u64) {
        const NAMES: [&str; 4] = ["window-end-own-template", "window-end-outside-block", "reorg-abandons-proposal", "newly-proposed"];
        let name = NAMES[variant as usize % 4];
        let (_w_close, w_far) = self.w.cfg.chain.window;
        let limit = self.w.consensus.max_block_proposals_limit();
        // T spends a chain cell that no pooled transaction touches
        let (dump, _) = self.w.node.pool().verif_dump();
        self.w.allow_recent = false;
        let (free, _, pool_outs) = self.w.cell_classes(&dump);
        let chain_free: Vec<(OutPoint, u64)> = free.into_iter().filter(|c| !pool_outs.contains(c)).collect();
        if chain_free.is_empty() {
            self.w.stat("straddle_no_free_cell");
            return;
        }
        let cell = rng.pick(&chain_free).clone();
        let fee = rng.range(1_000, 20_000);
        let Some(t) = self.w.make_tx(&[cell.clone()], rng.range(1, 2) as usize, fee, 8, &[], &[]) else { return; };
        let ti = self.w.register_tx(&t, fee, true);
        let id = t.proposal_short_id();
        self.w.stat(&format!("straddle_{name}_started"));
        self.w.log(json!({"straddle_tx": {"tx": ti, "variant": name, "input": [self.w.tx_no(&cell.0.tx_hash()), Unpack::<u32>::unpack(&cell.0.index())]}}));
        // ---- the chain history before the submission, and the blocks that arrive in between
        let mut arriving: Vec<BlockView> = vec![];
        let mut own_template = false;
        match variant % 4 {
            0 | 1 => {
                let mut props = vec![id.clone()];
                props.extend(self.other_proposals(rng, std::cmp::min(2, limit.saturating_sub(1))));
                let Some(b) = self.outside_on_tip(rng, props, "straddle-proposes") else { return; };
                let n = b.number();
                match self.w.deliver(&b) {
                    Ok(Some(ch)) => self.after_change(&ch, "outside-extension"),
                    _ => { self.w.stat("straddle_proposing_block_not_attached"); return; }
                }
                // T may be committed in n + w_close ..= n + w_far: at tip n + w_far - 1 the next block is the last one
                let target = if rng.chance(4, 5) { n + w_far - 1 } else { rng.range(n, n + w_far - 1) };
                if !self.advance_to(rng, target) { self.w.stat("straddle_advance_failed"); return; }
                if variant % 4 == 0 {
                    own_template = true;
                    self.w.settle_template();
                } else {
                    let props = self.other_proposals(rng, std::cmp::min(2, limit));
                    let Some(b) = self.outside_on_tip(rng, props, "straddle-arrives") else { return; };
                    arriving.push(b);
                }
            }
            2 => {
                let fork = self.w.node.tip().number();
                let Some(b) = self.outside_on_tip(rng, vec![id.clone()], "straddle-proposes") else { return; };
                let n = b.number();
                match self.w.deliver(&b) {
                    Ok(Some(ch)) => self.after_change(&ch, "outside-extension"),
                    _ => { self.w.stat("straddle_proposing_block_not_attached"); return; }
                }
                let j = rng.range(0, std::cmp::min(w_far - 1, 3));
                if !self.advance_to(rng, n + j) { self.w.stat("straddle_advance_failed"); return; }
                // the competing branch: from the fork point, one block longer, without T's proposal
                // (now and then its last block proposes T again)
                let main = self.w.main_chain();
                let builder = Node::temp(&self.w.consensus);
                let mut ok = main.iter().take(fork as usize).all(|b| builder.process(b).is_ok());
                let len = j + 2;
                for k in 0..len {
                    if !ok { break; }
                    let mut props = self.other_proposals(rng, std::cmp::min(2, limit.saturating_sub(1)));
                    if k + 1 == len && rng.chance(1, 4) { props.push(id.clone()); }
                    let plan = BlockPlan { proposals: props, txs: vec![], uncles: vec![], ts_delta: *rng.pick(&[1u64, 7, 300, 2_000]), nonce: self.w.blocks.len() as u128 + 1 };
                    match try_build_block(&builder, &plan) {
                        Some(b) if builder.process(&b).is_ok() => {
                            let bid = self.w.register_block(&b);
                            self.w.log(json!({"block": {"id": bid, "what": "straddle-competing-branch", "from_height": fork, "height": b.number(), "k": k, "commits": [],
                                "proposals": b.union_proposal_ids_iter().filter_map(|i| self.w.by_short.get(&i).cloned()).collect::<Vec<_>>(), "uncles": 0}}));
                            arriving.push(b);
                        }
                        _ => ok = false,
                    }
                }
                builder.stop();
                if !ok { self.w.stat("straddle_branch_not_built"); return; }
            }
            _ => {
                let mut props = vec![id.clone()];
                props.extend(self.other_proposals(rng, std::cmp::min(2, limit.saturating_sub(1))));
                let Some(b) = self.outside_on_tip(rng, props, "straddle-arrives") else { return; };
                arriving.push(b);
            }
        }
        // ---- pre_check under the old tip / the tip changes and the pool processes the change / submit_entry
        self.refresh_dump();
        let snap0 = self.w.node.shared.snapshot();
        let stage_in = |snap: &ckb_snapshot::Snapshot| {
            let v = snap.proposals();
            if v.contains_proposed(&id) { "proposed" } else if v.contains_gap(&id) { "gap" } else { "pending" }
        };
        let pre = stage_in(&snap0);
        let pool = self.w.node.pool().clone();
        let mut between_ran = false;
        let mut between_err: Option<String> = None;
        let r = {
            let between = || {
                between_ran = true;
                if own_template {
                    let _ = self.template_moment("straddle-between", true);
                } else {
                    for b in &arriving {
                        if let Err(e) = self.w.deliver(b) {
                            between_err = Some(e);
                            break;
                        }
                    }
                }
                // exactly the wait of after_change: the pool's snapshot is the chain's tip
                let _ = self.w.sync_pool();
            };
            pool.verif_process_tx_two_step(t.clone(), between)
        };
        self.w.txs[ti].secret = false;
        let snap1 = self.w.node.shared.snapshot();
        let post = stage_in(&snap1);
        let moved = snap1.tip_hash() != snap0.tip_hash();
        let class = match &r {
            Ok(()) => "accepted".to_string(),
            Err(rej) => format!("rejected-{}", reject_class(rej)),
        };
        self.w.stat(&format!("straddle_{name}_{class}"));
        if between_ran && moved {
            self.w.stat(&format!("straddle_precheck_{pre}_submit_{post}"));
        } else {
            self.w.stat(if between_ran { "straddle_tip_did_not_move" } else { "straddle_precheck_rejected" });
        }
        if let Some(e) = &between_err {
            self.violation("the node rejected an outside block built on its own snapshot", json!({"error": e}), None);
        }
        self.w.log(json!({"straddle_submit": {"tx": ti, "variant": name, "stage_at_precheck_tip": pre, "stage_at_submit_tip": post,
            "tip_at_precheck": snap0.tip_number(), "tip_at_submit": snap1.tip_number(), "tip_moved": moved, "result": class}}));
        // ---- C12: the usual observation after a processed change, now with T's submission behind it
        if moved {
            let ch = change_between(&snap0, &snap1);
            self.w.straddle_tx = Some(id.clone());
            self.after_change(&ch, &format!("straddle-{name}"));
            self.w.straddle_tx = None;
        } else {
            self.refresh_dump();
        }
        // ---- C13: the template built from this pool, sealed, must pass the node's own verification
        if !self.fatal {
            self.w.settle_template();
            if let Some(Some(ch)) = self.template_moment("after-straddle", true) {
                self.after_change(&ch, "mined");
            }
        }
    }

    /// a short fixed script around the four straddling variants (run at the start of every check, like a corpus)
    pub fn run_directed(&mut self, rng: &mut Rng, first: u64) {
        self.refresh_dump();
        for _ in 0..2 {
            self.step_mine(rng, "warmup");
        }
        for k in 0..4 {
            if self.fatal { break; }
            self.step_submit(rng);
            self.step_mine(rng, "steady");
            self.step_straddle(rng, first + k);
            self.w.tick(rng.range(1, 3_000));
            self.step_mine(rng, "steady");
            self.step_mine(rng, "steady");
        }
    }

    pub fn run(&mut self, rng: &mut Rng, steps: u64) {
        self.refresh_dump();
        // warm-up: a few mined blocks so that the proposal window and the reward finalisation are past genesis
        for _ in 0..rng.range(0, 3) {
            self.step_mine(rng, "warmup");
        }
        for _ in 0..steps {
            crate::world::heartbeat(&format!("{}: step after {} recorded operations", self.hist_id, self.w.jops.len()));
            if self.fatal || self.w.viol.len() > 200 {
                break;
            }
            if crate::world::SERVICE_PANICS.lock().map(|v| !v.is_empty()).unwrap_or(false) {
                // the pool no longer follows the chain: nothing further to learn from this history
                self.w.stat("histories_ended_by_a_pool_service_panic");
                break;
            }
            let tip = self.w.node.tip().number();
            match rng.below(if self.legacy_steps { 24 } else { 25 }) {
                24 => {
                    let v = rng.below(4);
                    self.step_straddle(rng, v)
                }
                0..=8 => self.step_submit(rng),
                9..=13 => self.step_mine(rng, "steady"),
                14..=15 => {
                    let (len, ps) = (rng.range(1, 2), rng.chance(1, 2));
                    self.step_branch(rng, tip, len, ps, "outside-extension")
                }
                16..=18 if tip >= 2 => {
                    let depth = std::cmp::min(tip - 1, *rng.pick(&[1u64, 1, 2, 2, 3, 4, 6]));
                    let extra = rng.range(1, 2);
                    let ps = rng.chance(2, 3);
                    self.step_branch(rng, tip - depth, depth + extra, ps, "reorg");
                }
                19 if tip >= 1 => self.step_branch(rng, tip - 1, 1, false, "sibling"),
                20 => self.step_expiry(rng),
                21 => self.step_two_step(rng),
                22 => {
                    self.w.settle_template();
                    self.selection_moment(rng);
                }
                _ => {
                    self.template_moment("idle", false);
                    self.selection_moment(rng);
                }
            }
            self.w.tick(rng.range(1, 3_000));
        }
    }
}

pub fn _keep(_: &BlockView, _: &TransactionView) {}
