//! C13, candidate uncles: random operation sequences on the REAL
//! `ckb_tx_pool::block_assembler::CandidateUncles` (insert / remove_by_number, with len / contains / values
//! observed after every operation), written as `mkU …` cases that `check_ucase` of coq/Pool/Uncles.v replays
//! from the empty container, and judged directly (without the model) by the container's contract.
use ckb_tx_pool::block_assembler::CandidateUncles;
use ckb_types::core::{BlockBuilder, UncleBlockView};
use hx_common::*;
use serde_json::{json, Value};
use std::collections::{BTreeMap, BTreeSet};
use std::panic::{catch_unwind, AssertUnwindSafe};

/// the constants of candidate_uncles.rs (`#[cfg(not(test))]`), as the property text has them
const MAX_CANDIDATE_UNCLES: usize = 128;
const MAX_PER_HEIGHT: usize = 10;
/// at most this many sequences of one process are written as Coq cases (the others are judged directly only)
const COQ_SEQ_CAP: usize = 400;
const FILE_BYTES: usize = 230_000;
pub const FIRST_FILE: usize = 20;

pub struct UnclesOut {
    pub viol: Vec<Value>,
    pub stats: BTreeMap<String, u64>,
    pub sequences: u64,
    pub samples: Vec<Value>,
}

#[derive(Clone)]
struct U {
    number: u64,
    id: u64,
    view: UncleBlockView,
}

fn mk_uncle(number: u64, id: u64) -> U {
    // one number per id: the id is the nonce (and the timestamp), so the hash differs for every id
    let view = BlockBuilder::default().number(number).nonce(id as u128).timestamp(1_000_000 + id).build().as_uncle();
    U { number, id, view }
}

/// values() of the real container as (number, id) in iteration order
fn values_of(c: &CandidateUncles, ids: &BTreeMap<ckb_types::packed::Byte32, (u64, u64)>) -> Vec<(u64, u64)> {
    c.values().map(|u| ids.get(&u.hash()).cloned().unwrap_or((u.header().number(), 9_999_999))).collect()
}

/// the runs of equal numbers of values(), the ids of a run sorted (the order inside a HashSet is not observable)
fn runs(vals: &[(u64, u64)]) -> Vec<(u64, Vec<u64>)> {
    let mut out: Vec<(u64, Vec<u64>)> = vec![];
    for (n, i) in vals {
        match out.last_mut() {
            Some((m, v)) if *m == *n => v.push(*i),
            _ => out.push((*n, vec![*i])),
        }
    }
    for (_, v) in out.iter_mut() {
        v.sort();
    }
    out
}

fn coq_runs(r: &[(u64, Vec<u64>)]) -> String {
    coq_list(r, |(n, v)| format!("({}, {})", n, coq_list(v, |i| i.to_string())))
}

struct Seq {
    coq: String,
    desc: Value,
}

fn count(stats: &mut BTreeMap<String, u64>, k: &str) {
    *stats.entry(k.to_string()).or_default() += 1;
}

/// one sequence; `viol` gets what the contract check finds
fn run_sequence(seed: u64, index: u64, stats: &mut BTreeMap<String, u64>, viol: &mut Vec<Value>, verbose: bool) -> Seq {
    let mut rng = Rng::new(seed ^ 0x55AA_1357 ^ index.wrapping_mul(0x9E37_79B9_7F4A_7C15));
    let hist_id = format!("uncles seed={seed} index={index}");
    // kind 0: wide window, filled up first (reaches and exceeds MAX_CANDIDATE_UNCLES); 1: narrow (buckets beyond
    // MAX_PER_HEIGHT); 2: medium
    let kind = match rng.below(10) { 0..=4 => 0, 5..=7 => 1, _ => 2 };
    let (width, n_ops) = match kind {
        0 => (rng.range(13, 20), rng.range(170, 200)),
        1 => (rng.range(1, 5), rng.range(60, 110)),
        _ => (rng.range(6, 13), rng.range(90, 180)),
    };
    let base = if rng.chance(1, 5) { 0 } else { rng.range(1, 60) };
    let prefill = if kind == 0 { *rng.pick(&[110u64, 128, 140, 150, 150]) } else { 0 };
    let kind_name = ["wide_filled", "narrow", "medium"][kind];
    count(stats, &format!("uncles_sequences_kind_{kind_name}"));

    let mut c = CandidateUncles::new();
    let mut known: Vec<U> = vec![];
    let mut ids: BTreeMap<ckb_types::packed::Byte32, (u64, u64)> = BTreeMap::new();
    let mut next_id = 1u64;
    let mut steps: Vec<String> = vec![];
    let mut before: Vec<(u64, u64)> = vec![];
    let mut reached_full = false;
    let bad = |what: &str, detail: Value, viol: &mut Vec<Value>| {
        if viol.len() < 20 {
            viol.push(json!({"what": format!("candidate uncles: {what}"), "detail": detail, "history_id": hist_id}));
        }
    };
    for k in 0..n_ops {
        let set_before: BTreeSet<(u64, u64)> = before.iter().cloned().collect();
        let len_before = before.len();
        let lowest = before.iter().map(|x| x.0).min();
        let full = len_before >= MAX_CANDIDATE_UNCLES;
        // ---- choose the operation
        let mut fresh = |number: u64, known: &mut Vec<U>, ids: &mut BTreeMap<_, _>| -> U {
            let u = mk_uncle(number, next_id);
            next_id += 1;
            ids.insert(u.view.hash(), (u.number, u.id));
            known.push(u.clone());
            u
        };
        let rnd_height = |rng: &mut Rng| base + rng.below(width);
        let present: Vec<usize> = (0..known.len()).filter(|i| set_before.contains(&(known[*i].number, known[*i].id))).collect();
        let absent: Vec<usize> = (0..known.len()).filter(|i| !set_before.contains(&(known[*i].number, known[*i].id))).collect();
        // a height that still has room (the lowest such one mostly: the lower buckets get complete)
        let roomy: Vec<u64> = (base..base + width).filter(|h| before.iter().filter(|x| x.0 == *h).count() < MAX_PER_HEIGHT).collect();
        let (is_insert, u): (bool, U) = if (k < prefill || (kind == 0 && rng.chance(3, 5))) && !full && !roomy.is_empty() {
            let h = if rng.chance(1, 4) { *rng.pick(&roomy) } else { roomy[0] };
            (true, fresh(h, &mut known, &mut ids))
        } else if full && rng.chance(4, 5) {
            // aimed at `number > first_key`: below / equal / one above / well above the lowest number; a new uncle, a
            // candidate that is already there, one for a height that is complete
            let lo = lowest.unwrap_or(base);
            let number = match rng.below(6) {
                0 => lo.saturating_sub(rng.range(1, 3)),
                1 | 2 => lo,
                3 => lo + 1,
                _ => lo + rng.range(1, width + 2),
            };
            match rng.below(5) {
                0 if !present.is_empty() => (true, known[*rng.pick(&present)].clone()),
                1 => match present.iter().find(|p| known[**p].number == number) {
                    Some(p) => (true, known[*p].clone()),
                    None => (true, fresh(number, &mut known, &mut ids)),
                },
                _ => (true, fresh(number, &mut known, &mut ids)),
            }
        } else {
            match rng.below(20) {
                0..=9 => (true, fresh(rnd_height(&mut rng), &mut known, &mut ids)),
                // one height again and again: beyond MAX_PER_HEIGHT
                10 | 11 => (true, fresh(base + (index % width), &mut known, &mut ids)),
                12 | 13 if !present.is_empty() => (true, known[*rng.pick(&present)].clone()),
                14 if !absent.is_empty() => (true, known[*rng.pick(&absent)].clone()),
                15..=17 if !present.is_empty() => (false, known[*rng.pick(&present)].clone()),
                18 if !absent.is_empty() => (false, known[*rng.pick(&absent)].clone()),
                19 => (false, fresh(rnd_height(&mut rng), &mut known, &mut ids)),
                _ => (true, fresh(rnd_height(&mut rng), &mut known, &mut ids)),
            }
        };
        let key = (u.number, u.id);
        let was_in = set_before.contains(&key);
        let height_before = before.iter().filter(|x| x.0 == u.number).count();
        // ---- the real container
        let ret = catch_unwind(AssertUnwindSafe(|| if is_insert { c.insert(u.view.clone()) } else { c.remove_by_number(&u.view) }));
        let op_txt = format!("{} ({}, {})", if is_insert { "insert" } else { "remove_by_number" }, u.number, u.id);
        let ret = match ret {
            Ok(b) => b,
            Err(p) => {
                let msg = p.downcast_ref::<String>().cloned().or_else(|| p.downcast_ref::<&str>().map(|s| s.to_string())).unwrap_or_default();
                bad("the container panicked", json!({"op": op_txt, "step": k, "panic": msg, "len_before": len_before}), viol);
                count(stats, "uncles_panics");
                steps.push(format!("An ({} {} {}) IPanic 0 [] None", if is_insert { "Ins" } else { "Rem" }, u.number, u.id));
                break;
            }
        };
        let observed = catch_unwind(AssertUnwindSafe(|| {
            let len = c.len();
            let vals = values_of(&c, &ids);
            // probes: the operation's uncle and a candidate of the lowest height or any known uncle
            let mut probes: Vec<U> = vec![u.clone()];
            let low = lowest.and_then(|lo| known.iter().find(|p| p.number == lo && set_before.contains(&(p.number, p.id)) && p.id != u.id));
            match low {
                Some(p) if rng.chance(1, 2) => probes.push(p.clone()),
                _ => probes.push(rng.pick(&known).clone()),
            }
            let answers: Vec<(u64, u64, bool)> = probes.iter().map(|p| (p.number, p.id, c.contains(&p.view))).collect();
            (len, vals, answers, c.is_empty())
        }));
        let (len, vals, answers, is_empty) = match observed {
            Ok(x) => x,
            Err(_) => {
                bad("len / values / contains panicked", json!({"after": op_txt, "step": k}), viol);
                count(stats, "uncles_panics");
                break;
            }
        };
        let set_after: BTreeSet<(u64, u64)> = vals.iter().cloned().collect();
        // ---- the contract, on the implementation's answers alone
        let ctx = |extra: Value| json!({"op": op_txt, "step": k, "answer": ret, "len_before": len_before, "len": len, "lowest_before": lowest, "more": extra});
        if len != vals.len() { bad("len() is not the number of values()", ctx(json!({"values": vals.len()})), viol); }
        if is_empty != (len == 0) { bad("is_empty() disagrees with len()", ctx(json!(null)), viol); }
        if set_after.len() != vals.len() { bad("values() lists an uncle twice", ctx(json!(null)), viol); }
        if vals.windows(2).any(|w| w[0].0 > w[1].0) { bad("values() is not in order of block number", ctx(json!({"numbers": vals.iter().map(|x| x.0).collect::<Vec<_>>()})), viol); }
        if len > MAX_CANDIDATE_UNCLES { bad("more than MAX_CANDIDATE_UNCLES candidates", ctx(json!(null)), viol); }
        for (n, r) in runs(&vals) {
            if r.len() > MAX_PER_HEIGHT { bad("more than MAX_PER_HEIGHT candidates of one height", ctx(json!({"number": n, "count": r.len()})), viol); }
        }
        for (n, i, a) in &answers {
            if *a != set_after.contains(&(*n, *i)) { bad("contains() disagrees with values()", ctx(json!({"probe": [n, i], "contains": a})), viol); }
        }
        let lost: Vec<&(u64, u64)> = set_before.difference(&set_after).collect();
        let gained: Vec<&(u64, u64)> = set_after.difference(&set_before).collect();
        if is_insert {
            count(stats, "uncles_inserts");
            if ret {
                count(stats, "uncles_insert_true");
                if !set_after.contains(&key) { bad("insert answered true and the uncle is not contained", ctx(json!(null)), viol); }
                if was_in { bad("insert answered true for an uncle that was contained", ctx(json!(null)), viol); }
            } else if set_after.contains(&key) != was_in {
                bad("insert answered false and the uncle's membership changed", ctx(json!(null)), viol);
            }
            if gained.iter().any(|g| **g != key) || (gained.len() == 1) != (ret && !was_in) { bad("insert added something else than its uncle", ctx(json!({"gained": gained})), viol); }
            let may_evict = full && lowest.map(|lo| u.number > lo).unwrap_or(false);
            if !lost.is_empty() {
                count(stats, "uncles_evictions");
                if !ret { count(stats, if was_in { "uncles_evictions_by_duplicate_insert_answer_false" } else { "uncles_evictions_by_bucket_full_insert_answer_false" }); }
                if !may_evict { bad("insert removed candidates though the container was not full or the number is not above the lowest", ctx(json!({"lost": lost})), viol); }
                let lo = lowest.unwrap_or(0);
                let whole: Vec<&(u64, u64)> = set_before.iter().filter(|x| x.0 == lo).collect();
                if lost != whole { bad("insert removed something else than the whole lowest bucket", ctx(json!({"lost": lost, "lowest_bucket": whole})), viol); }
            } else if may_evict {
                bad("a full container kept its lowest bucket on an insert above it", ctx(json!(null)), viol);
            }
            if full {
                count(stats, "uncles_full_container_inserts");
                reached_full = true;
                match lowest {
                    Some(lo) if u.number < lo => { count(stats, "uncles_refusals_below_lowest"); if ret { bad("a full container accepted a number below its lowest", ctx(json!(null)), viol); } }
                    Some(lo) if u.number == lo => { count(stats, "uncles_refusals_equal_lowest"); if ret { bad("a full container accepted its lowest number", ctx(json!(null)), viol); } }
                    Some(lo) if u.number == lo + 1 => count(stats, "uncles_full_inserts_one_above_lowest"),
                    _ => {}
                }
            }
            let refused_full = full && !may_evict;
            if was_in { count(stats, "uncles_duplicate_inserts"); }
            // the uncle's own height as it is when the set insert is tried (its bucket is never the evicted one)
            if !refused_full && !was_in && height_before >= MAX_PER_HEIGHT {
                count(stats, "uncles_bucket_full_refusals");
                if ret { bad("an eleventh candidate of one height was accepted", ctx(json!(null)), viol); }
            }
            if !refused_full && !was_in && height_before == MAX_PER_HEIGHT - 1 && ret { count(stats, "uncles_tenth_of_a_height_accepted"); }
            if !refused_full && !was_in && height_before < MAX_PER_HEIGHT && !ret { bad("a new uncle was refused though there was room", ctx(json!({"height_count": height_before})), viol); }
            let expect_len = len_before - lost.len() + usize::from(ret);
            if len != expect_len { bad("len() after insert", ctx(json!({"expected": expect_len})), viol); }
        } else {
            count(stats, if was_in { "uncles_removes_present" } else { "uncles_removes_absent" });
            if ret != was_in { bad("remove_by_number's answer is not whether the uncle was contained", ctx(json!({"was_contained": was_in})), viol); }
            if set_after.contains(&key) { bad("the uncle is still contained after remove_by_number", ctx(json!(null)), viol); }
            if !gained.is_empty() || lost.iter().any(|l| **l != key) { bad("remove_by_number changed another membership", ctx(json!({"lost": lost, "gained": gained})), viol); }
            if len != len_before - usize::from(was_in) { bad("len() after remove_by_number", ctx(json!(null)), viol); }
            if was_in && height_before == 1 { count(stats, "uncles_bucket_emptied_by_remove"); }
        }
        count(stats, "uncles_ops");
        // ---- the Coq step: values() after every other eviction, and now and then (always at the end)
        let with_values = !lost.is_empty() && is_insert && rng.chance(1, 2) || rng.chance(1, 40);
        if with_values { count(stats, "uncles_values_snapshots_in_coq_cases"); }
        steps.push(format!(
            "An ({} {} {}) {} {} {} {}",
            if is_insert { "Ins" } else { "Rem" },
            u.number,
            u.id,
            if ret { "ITrue" } else { "IFalse" },
            len,
            coq_list(&answers, |(n, i, a)| format!("Pr {} {} {}", n, i, coq_bool(*a))),
            if with_values { format!("(Some {})", coq_runs(&runs(&vals))) } else { "None".to_string() }
        ));
        before = vals;
        if verbose {
            println!("  step {k}: {op_txt} -> {ret}, len {len}");
        }
    }
    if reached_full { count(stats, "uncles_sequences_reaching_max"); }
    let final_vals = catch_unwind(AssertUnwindSafe(|| values_of(&c, &ids))).unwrap_or_default();
    Seq {
        coq: format!("mkU {} {}", coq_list(&steps, |s| s.clone()), coq_runs(&runs(&final_vals))),
        desc: json!({"stream": "candidate_uncles", "history_id": format!("uncles seed={seed} index={index}"), "kind": kind_name,
            "base": base, "width": width, "ops": steps.len(), "final_len": final_vals.len()}),
    }
}

/// `n` sequences; writes cases_20.v … into `out`
pub fn run(seed: u64, n: usize, out: &std::path::Path) -> UnclesOut {
    let mut stats = BTreeMap::new();
    let mut viol = vec![];
    let mut samples = vec![];
    let header = "From CKB Require Import Pool.Uncles.\nLocal Open Scope N_scope.";
    let mut file_no = FIRST_FILE;
    let new_file = |no: usize| {
        let mut cf = CaseFile::new(out, &format!("cases_{:02}", no), header);
        cf.group("uncles", "ucase", "check_ucase");
        cf
    };
    let mut cf = new_file(file_no);
    let mut descs: Vec<Value> = vec![];
    let mut bytes = 0usize;
    let mut written = 0u64;
    let flush = |cf: &CaseFile, descs: &Vec<Value>, no: usize| {
        cf.write().unwrap();
        std::fs::write(out.join(format!("cases_{:02}.json", no)), serde_json::to_string(&json!({"uncles": descs})).unwrap()).unwrap();
    };
    for index in 0..n as u64 {
        let s = run_sequence(seed, index, &mut stats, &mut viol, false);
        if samples.is_empty() && index == 2 {
            samples.push(s.desc.clone());
        }
        if (index as usize) < COQ_SEQ_CAP && file_no < FIRST_FILE + 16 {
            if bytes > 0 && bytes + s.coq.len() > FILE_BYTES {
                flush(&cf, &descs, file_no);
                file_no += 1;
                cf = new_file(file_no);
                descs.clear();
                bytes = 0;
                if file_no >= FIRST_FILE + 16 {
                    continue;
                }
            }
            bytes += s.coq.len();
            cf.push(0, s.coq);
            descs.push(s.desc);
            written += 1;
        }
    }
    if bytes > 0 && file_no < FIRST_FILE + 16 {
        flush(&cf, &descs, file_no);
    }
    stats.insert("uncles_sequences".into(), n as u64);
    stats.insert("coq_uncles_cases".into(), written);
    UnclesOut { viol, stats, sequences: n as u64, samples }
}

/// HX_REPLAY of a violation of this stream
pub fn replay(seed: u64, index: u64) -> Vec<Value> {
    let mut stats = BTreeMap::new();
    let mut viol = vec![];
    run_sequence(seed, index, &mut stats, &mut viol, true);
    viol
}
