//! The C12 property predicate, written from the property text and evaluated on
//! the real pool dump and the node's real snapshot (independent of the Coq model).
use crate::world::*;
use ckb_store::ChainStore;
use ckb_tx_pool::verif_hooks::{EntryDump, PoolDump, Status};
use ckb_types::core::TransactionView;
use ckb_types::packed::{Byte32, OutPoint, ProposalShortId};
use ckb_types::prelude::*;
use serde_json::{json, Value};
use std::collections::{BTreeMap, HashMap, HashSet};

pub type Problem = (String, Value, Option<&'static str>);

#[derive(Default)]
pub struct C12Result {
    pub counts: BTreeMap<String, u64>,
    pub problems: Vec<Problem>,
}

pub const SIG_F6: &str = "remove_expired removes the expired entry without its descendants";
pub const SIG_F7: &str = "submit_entry inserts a child whose parent left the pool after pre_check";
pub const SIG_F11: &str = "descendants of a detached tx that cannot be re-added stay pooled";
pub const SIG_H785: &str = "history seed=20260985782785 index=21: tx 46 leaves the pool in a 6-block reorganisation, its child 49 stays";
pub const SIG_F12: &str = "remove_by_detached_proposal drops an entry whose re-add fails but re-adds its descendants";
/// C11's F9 code path reaching C12 without a panic: check_and_record_ancestors evicts the pooled users of a cell the new
/// transaction consumes when it is over the ancestor limit — also when such a user is a PARENT of the new transaction
pub const SIG_F9P: &str = "add_entry evicts a cell-ref parent of the new tx and keeps the new tx";
/// the missing parent `ph` depended (cell dep) on a cell that the orphaned entry consumes: F9P's footprint
pub fn f9p_footprint(w: &World, e: &EntryDump, ph: &Byte32) -> bool {
    match w.tx_id.get(ph) {
        Some(i) => {
            let p = &w.txs[*i].tx;
            p.cell_deps_iter().any(|d| e.inputs.iter().any(|op| *op == d.out_point()))
        }
        None => false,
    }
}
pub const SIG_GAP: &str = "gap-stage entry is not demoted when its proposal leaves the window from the gap";

/// every input / dep of a pooled tx is live on the chain or an output of a pooled tx
pub fn c12_unresolvable(w: &World, dump: &PoolDump) -> Vec<(String, Value, Byte32)> {
    let snap = w.node.shared.snapshot();
    let by_hash: HashMap<Byte32, &EntryDump> = dump.entries.iter().map(|e| (e.tx_hash.clone(), e)).collect();
    let mut out = vec![];
    for e in &dump.entries {
        for (kind, ops) in [("input", &e.inputs), ("dep", &e.related_deps)] {
            for op in ops.iter() {
                let idx: u32 = op.index().unpack();
                let ok = match by_hash.get(&op.tx_hash()) {
                    Some(p) => (idx as usize) < p.outputs_count,
                    None => is_live(&snap, op),
                };
                if !ok {
                    let class = if snap.get_transaction_info(&op.tx_hash()).is_some() { "dead (spent on the main chain)" } else { "unknown (creating tx neither on the main chain nor pooled)" };
                    out.push((
                        format!("C12 pooled tx has an {kind} that is {class}"),
                        json!({"tx": w.tx_no(&e.tx_hash), "out_point": [w.tx_no(&op.tx_hash()), idx], "status": status_name(e.status)}),
                        op.tx_hash(),
                    ));
                }
            }
        }
    }
    out
}

pub fn fee_of_pub(w: &World, tx: &TransactionView) -> Option<u64> {
    fee_of(w, tx)
}

fn fee_of(w: &World, tx: &TransactionView) -> Option<u64> {
    let mut total_in = 0u64;
    for op in tx.input_pts_iter() {
        total_in += w.outs.iter().find(|(o, _)| *o == op).map(|(_, c)| *c)?;
    }
    let total_out: u64 = tx.outputs().into_iter().map(|o| { let c: u64 = o.capacity().unpack(); c }).sum();
    total_in.checked_sub(total_out)
}

/// "still admissible": valid on the new chain + pool and within the pool's fee, size and ancestor policy
pub fn admissible(w: &World, dump: &PoolDump, tx: &TransactionView) -> bool {
    let snap = w.node.shared.snapshot();
    let by_hash: HashMap<Byte32, &EntryDump> = dump.entries.iter().map(|e| (e.tx_hash.clone(), e)).collect();
    let spent: HashSet<OutPoint> = dump.entries.iter().flat_map(|e| e.inputs.iter().cloned()).collect();
    let avail = |op: &OutPoint| match by_hash.get(&op.tx_hash()) {
        Some(p) => { let i: u32 = op.index().unpack(); (i as usize) < p.outputs_count }
        None => is_live(&snap, op),
    };
    if !tx.input_pts_iter().all(|op| avail(&op) && !spent.contains(&op)) { return false; }
    if !tx.cell_deps_iter().all(|d| avail(&d.out_point()) && !spent.contains(&d.out_point())) { return false; }
    if !tx.header_deps_iter().all(|h| snap.is_main_chain(&h)) { return false; }
    let size = tx.data().serialized_size_in_block() as u64;
    let Some(fee) = fee_of(w, tx) else { return false; };
    if fee < w.cfg.min_fee_rate * size / 1000 + 1 { return false; }
    if dump.total_tx_size as u64 + size > w.cfg.max_tx_pool_size as u64 { return false; }
    // ancestors: all pooled ancestors of the pooled parents + itself
    let mut anc: HashSet<Byte32> = HashSet::new();
    let mut stack: Vec<Byte32> = tx.input_pts_iter().chain(tx.cell_deps_iter().map(|d| d.out_point())).map(|op| op.tx_hash()).filter(|h| by_hash.contains_key(h)).collect();
    while let Some(h) = stack.pop() {
        if anc.insert(h.clone()) {
            let e = by_hash[&h];
            for op in e.inputs.iter().chain(e.related_deps.iter()) {
                if by_hash.contains_key(&op.tx_hash()) { stack.push(op.tx_hash()); }
            }
        }
    }
    if anc.len() + 1 > dump.max_ancestors_count { return false; }
    // stored counts may be larger than the real ancestor sets (C11 finding F10): stay clear of the limit
    if dump.entries.iter().filter(|e| anc.contains(&e.tx_hash)).any(|e| e.ancestors_count + 1 >= dump.max_ancestors_count) { return false; }
    // it would pull children over the limit?  descendants of tx that are pooled
    true
}

pub fn c12_predicate(w: &World, dump: &PoolDump, ch: &Change, before: Option<&PoolDump>, learn: &mut Vec<(Byte32, &'static str)>, lost: &mut Vec<Byte32>) -> C12Result {
    let mut r = C12Result::default();
    let snap = w.node.shared.snapshot();
    let view = snap.proposals();
    let mut c = |k: &str, n: u64| *r.counts.entry(k.to_string()).or_default() += n;
    c("c12_pooled_entries_checked", dump.entries.len() as u64);
    let mut problems: Vec<Problem> = vec![];
    // (1) nothing committed on the new main chain
    for e in &dump.entries {
        if snap.get_transaction_info(&e.tx_hash).is_some() {
            problems.push(("C12 pooled tx is committed on the new main chain".into(), json!({"tx": w.tx_no(&e.tx_hash)}), None));
        }
    }
    // (2) inputs and deps resolvable
    let attached0: HashSet<Byte32> = ch.attached.iter().flat_map(|b| b.transactions().into_iter().skip(1).map(|t| t.hash())).collect();
    let detached_only: HashSet<Byte32> = ch.detached.iter().flat_map(|b| b.transactions().into_iter().skip(1).map(|t| t.hash())).filter(|h| !attached0.contains(h)).collect();
    let unres = c12_unresolvable(w, dump);
    for (what, detail, ph) in unres {
        let mut sig = w.orphan_cause.get(&ph).cloned();
        if sig.is_none() {
            if dump.entries.iter().any(|e| e.inputs.iter().any(|op| op.tx_hash() == ph) && f9p_footprint(w, e, &ph)) { sig = Some(SIG_F9P); }
        }
        if sig.is_none() {
            // F6: the missing parent was pooled before this update and had expired
            if let Some(pe) = before.and_then(|b| b.entries.iter().find(|e| e.tx_hash == ph)) {
                if pe.timestamp + w.cfg.expiry_hours as u64 * 3_600_000 < w.clock {
                    sig = Some(SIG_F6);
                }
            }
        }
        if sig.is_none() && (detached_only.contains(&ph) || w.lost_detached.contains(&ph)) {
            // the parent was committed on the abandoned branch only and could not come back
            sig = Some(SIG_F11);
        }
        if sig.is_none() {
            // F12: the parent was pooled, and re-adding it (remove_by_detached_proposal) hits the ancestor limit
            if let Some(pe) = before.and_then(|b| b.entries.iter().find(|e| e.tx_hash == ph)) {
                let by_hash: HashMap<Byte32, &EntryDump> = dump.entries.iter().map(|e| (e.tx_hash.clone(), e)).collect();
                let mut anc: HashSet<Byte32> = HashSet::new();
                let mut stack: Vec<Byte32> = pe.inputs.iter().chain(pe.related_deps.iter()).map(|op| op.tx_hash()).collect();
                while let Some(h) = stack.pop() {
                    if let Some(e) = by_hash.get(&h) {
                        if anc.insert(h) {
                            stack.extend(e.inputs.iter().chain(e.related_deps.iter()).map(|op| op.tx_hash()));
                        }
                    }
                }
                if anc.len() + 1 > dump.max_ancestors_count && pe.status != Status::Pending {
                    sig = Some(SIG_F12);
                }
                // the same defect when the re-add fails for a reason that cannot be recomputed from the dump
                // (the pool's recorded ancestor counts are stale, F3): the parent was proposed / in the gap,
                // its proposal has left the window (so remove_by_detached_proposal took it out with its
                // descendants and offered all of them to add_pending), and only the parent is gone
                // it, or one of its pooled ancestors before this update (remove_by_detached_proposal removes an entry
                // WITH its descendants), was proposed / in the gap and its proposal has left the window
                if sig.is_none() && snap.get_transaction_info(&ph).is_none() {
                    if let Some(bd) = before {
                        let bh: HashMap<Byte32, &EntryDump> = bd.entries.iter().map(|e| (e.tx_hash.clone(), e)).collect();
                        let mut seen: HashSet<Byte32> = HashSet::new();
                        let mut stack = vec![ph.clone()];
                        let mut left_window = false;
                        while let Some(h) = stack.pop() {
                            if !seen.insert(h.clone()) { continue; }
                            if let Some(e) = bh.get(&h) {
                                let pid = ckb_types::packed::ProposalShortId::from_tx_hash(&h);
                                // (the dump before may be older than the entry's proposal: what remove_by_detached_proposal acts on is
                                // exactly "in the old proposed set, not in the new one")
                                if (e.status != Status::Pending || ch.old_set.contains(&pid)) && !view.set().contains(&pid) && !view.gap().contains(&pid) { left_window = true; break; }
                                stack.extend(e.inputs.iter().chain(e.related_deps.iter()).map(|op| op.tx_hash()));
                            }
                        }
                        if left_window { sig = Some(SIG_F12); }
                    }
                }
            }
        }
        if let Some(s) = sig {
            learn.push((ph, s));
        }
        problems.push((what, detail, sig));
    }
    // (3) header deps on the main chain
    for e in &dump.entries {
        for h in &e.header_deps {
            c("c12_header_deps_checked", 1);
            if !snap.is_main_chain(h) {
                problems.push(("C12 pooled tx depends on a header that is not on the new main chain".into(), json!({"tx": w.tx_no(&e.tx_hash), "header": w.block_id.get(h)}), None));
            }
        }
    }
    // (4) detached-only txs that are still admissible are pooled again
    let attached: HashSet<Byte32> = ch.attached.iter().flat_map(|b| b.transactions().into_iter().skip(1).map(|t| t.hash())).collect();
    let pooled: HashSet<Byte32> = dump.entries.iter().map(|e| e.tx_hash.clone()).collect();
    for b in &ch.detached {
        for tx in b.transactions().iter().skip(1) {
            if attached.contains(&tx.hash()) {
                c("c12_detached_tx_recommitted", 1);
                continue;
            }
            if pooled.contains(&tx.hash()) {
                c("c12_detached_tx_readmitted", 1);
                continue;
            }
            lost.push(tx.hash());
            // eviction by size is policy: only judge when the pool has room for everything that comes back
            let back: usize = ch.detached.iter().flat_map(|b| b.transactions().into_iter().skip(1)).map(|t| t.data().serialized_size_in_block()).sum();
            let roomy = before.map(|b| b.total_tx_size + back + 2_000 <= w.cfg.max_tx_pool_size).unwrap_or(false);
            if !roomy || w.racing_since_sync > 0 {
                c("c12_detached_tx_lost_not_judged", 1);
                continue;
            }
            if admissible(w, dump, tx) {
                // the node's own admission test on the final state
                let own = matches!(w.node.pool().test_accept_tx(tx.clone()), Ok(Ok(_)));
                if own {
                    problems.push(("C12 a transaction committed only on the abandoned branch is admissible but not back in the pool".into(),
                        json!({"tx": w.tx_no(&tx.hash()), "detached_block_height": b.number()}), None));
                } else {
                    c("c12_detached_tx_lost_own_test_rejects", 1);
                }
            } else {
                c("c12_detached_tx_not_admissible", 1);
            }
        }
    }
    // (5) stage matches the proposal window (block-assembler node).  The window is read off the new main chain itself
    // (own proposals and the uncles' of the blocks at distance closest..farthest from the next block, closer ones = gap),
    // not off the node's ProposalView
    let (chain_set, chain_gap) = {
        use ckb_store::ChainStore;
        let pw = snap.consensus().tx_proposal_window();
        let (wc, wf) = (pw.closest(), pw.farthest());
        let next = snap.tip_number() + 1;
        let (mut set, mut gap) = (HashSet::new(), HashSet::new());
        for h in next.saturating_sub(wf).max(1)..next {
            if let Some(b) = snap.get_block_hash(h).and_then(|x| snap.get_block(&x)) {
                let d = next - h;
                for id in b.union_proposal_ids_iter() {
                    if d >= wc && d <= wf { set.insert(id); } else if d < wc { gap.insert(id); }
                }
            }
        }
        (set, gap)
    };
    if &chain_set != view.set() || chain_gap.iter().any(|i| !chain_set.contains(i) && !view.contains_gap(i)) {
        problems.push(("C12 the node's proposal view is not the proposal window over the new main chain".into(),
            json!({"tip": snap.tip_number(), "only_on_chain": chain_set.difference(view.set()).filter_map(|i| w.by_short.get(i)).collect::<Vec<_>>(), "only_in_view": view.set().difference(&chain_set).filter_map(|i| w.by_short.get(i)).collect::<Vec<_>>()}), None));
    }
    for e in &dump.entries {
        let exp = if chain_set.contains(&e.id) { Status::Proposed } else if chain_gap.contains(&e.id) { Status::Gap } else { Status::Pending };
        c(&format!("c12_stage_{}", status_name(exp)), 1);
        if w.straddle_tx.as_ref() == Some(&e.id) { c(&format!("c12_stage_of_straddling_submission_{}", status_name(exp)), 1); }
        if exp != e.status {
            // F13's own mechanism: the entry sat in the pool in stage Gap when the pool processed the change (Gap in the
            // dump before; an entry the dump before does not show arrived through the service's own tasks — a racing
            // submission, a re-verified RBF victim — and is given the benefit of the doubt), its id was not in the old
            // proposed set (so it is not among the detached proposal ids) and has left the window from the gap.  An entry
            // inserted by the two-step submission that straddled this change was NOT pooled when the change was
            // processed: its stage is the one submit_entry gave it, never F13.
            let straddled = w.straddle_tx.as_ref() == Some(&e.id);
            let was_gap = before.and_then(|b| b.entries.iter().find(|x| x.id == e.id)).map(|x| x.status == Status::Gap).unwrap_or(true);
            let sig = if e.status == Status::Gap && exp == Status::Pending && !ch.old_set.contains(&e.id) && was_gap && !straddled { Some(SIG_GAP) } else { None };
            if straddled { c("c12_stage_mismatch_of_straddling_submission", 1); }
            problems.push(("C12 stage of a pooled tx does not match the proposal window of the new chain".into(),
                json!({"tx": w.tx_no(&e.tx_hash), "stage": status_name(e.status), "window_says": status_name(exp), "tip": snap.tip_number()}), sig));
        }
    }
    r.problems = problems;
    r
}

/// I4 of C11 on a dump: stored ancestors_* equal the sums over the link closure
pub fn aggregates_consistent(dump: &PoolDump) -> bool {
    let by_id: HashMap<ProposalShortId, &EntryDump> = dump.entries.iter().map(|e| (e.id.clone(), e)).collect();
    let parents: HashMap<ProposalShortId, Vec<ProposalShortId>> = dump.links.iter().map(|(id, p, _)| (id.clone(), p.clone())).collect();
    for e in &dump.entries {
        let mut anc: HashSet<ProposalShortId> = HashSet::new();
        let mut stack = parents.get(&e.id).cloned().unwrap_or_default();
        while let Some(x) = stack.pop() {
            if anc.insert(x.clone()) {
                stack.extend(parents.get(&x).cloned().unwrap_or_default());
            }
        }
        let (mut n, mut s, mut cy) = (1usize, e.size, e.cycles);
        for a in &anc {
            if let Some(x) = by_id.get(a) {
                n += 1;
                s += x.size;
                cy += x.cycles;
            }
        }
        if n != e.ancestors_count || s != e.ancestors_size || cy != e.ancestors_cycles {
            return false;
        }
    }
    true
}
