//! C05 correspondence harness: runs the real `TransactionScriptsVerifier`
//! (verify / resumable_verify / resume_from_state / complete /
//! resumable_verify_with_signal) on transactions built around the programs of
//! /repo/script/testdata, under many cycle budgets and chunk partitions,
//! evaluates the property predicate directly on the answers, and writes the
//! observed accounting (per-group costs, limits, every TransactionState) as
//! Coq cases for the model coq/Script/Chunk.v to recompute.
mod txs;

use ckb_script::{ChunkCommand, RunMode, ScriptError, TransactionScriptError, TransactionState, VerifyResult};
use ckb_types::core::cell::ResolvedTransaction;
use hx_common::*;
use serde_json::{json, Value};
use std::collections::BTreeMap;
use std::fs;
use std::panic::{catch_unwind, AssertUnwindSafe};
use std::sync::Arc;
use txs::*;

// ---------------------------------------------------------------------------
// observables
// ---------------------------------------------------------------------------
#[derive(Clone, Debug, PartialEq)]
enum Cause {
    Exceeded(u64),
    Overflow,
    Other,
    /// failure of the script itself: 1000+exit code, or a code per VM error kind
    Script(u64),
    Interrupts,
}
#[derive(Clone, Debug, PartialEq)]
struct TErr {
    src: Option<usize>,
    cause: Cause,
}
#[derive(Clone, Debug, PartialEq)]
enum Res {
    Ok(u64),
    Err(TErr),
    Panic(String),
}
impl Res {
    fn class(&self) -> String {
        match self {
            Res::Ok(_) => "ok".into(),
            Res::Err(e) => match &e.cause {
                Cause::Exceeded(_) => "exceeded".into(),
                Cause::Overflow => "overflow".into(),
                Cause::Other => "other".into(),
                Cause::Script(c) => format!("script{c}"),
                Cause::Interrupts => "interrupts".into(),
            },
            Res::Panic(_) => "panic".into(),
        }
    }
    fn is_exceeded(&self) -> bool {
        matches!(self, Res::Err(TErr { cause: Cause::Exceeded(_), .. }))
    }
    /// same verdict (success with the same cycles, or the same failure of the same group)
    fn same_verdict(&self, o: &Res) -> bool {
        match (self, o) {
            (Res::Ok(a), Res::Ok(b)) => a == b,
            (Res::Err(a), Res::Err(b)) => match (&a.cause, &b.cause) {
                (Cause::Exceeded(_), Cause::Exceeded(_)) => true,
                (x, y) => x == y && a.src == b.src,
            },
            _ => false,
        }
    }
}

fn vm_error_code(name: &str) -> u64 {
    // stable small code per VM error kind (variant name only, no payload)
    let mut h: u64 = 1469598103934665603;
    for b in name.bytes() {
        h ^= b as u64;
        h = h.wrapping_mul(1099511628211);
    }
    1 + h % 900
}

fn script_cause(e: &ScriptError) -> Cause {
    match e {
        ScriptError::ExceededMaximumCycles(n) => Cause::Exceeded(*n),
        ScriptError::CyclesOverflow(..) => Cause::Overflow,
        ScriptError::Other(_) => Cause::Other,
        ScriptError::ValidationFailure(_, code) => Cause::Script(1000 + (*code as u8 as u64)),
        ScriptError::VMInternalError(v) => {
            let d = format!("{:?}", v);
            let name: String = d.chars().take_while(|c| c.is_alphanumeric() || *c == '_').collect();
            Cause::Script(vm_error_code(&name))
        }
        ScriptError::ScriptNotFound(_) => Cause::Script(2001),
        ScriptError::MultipleMatches => Cause::Script(2002),
        ScriptError::EncounteredKnownBugs(..) => Cause::Script(2003),
        ScriptError::InvalidScriptHashType(_) => Cause::Script(2004),
        ScriptError::InvalidVmVersion(_) => Cause::Script(2005),
        ScriptError::Interrupts => Cause::Interrupts,
    }
}

struct Ctx {
    rtx: Arc<ResolvedTransaction>,
    cons: Arc<ckb_chain_spec::consensus::Consensus>,
    /// "Inputs[0].Lock" -> group index (order of verifier.groups())
    src_map: BTreeMap<String, usize>,
    n_groups: usize,
    pauses: bool,
}

impl Ctx {
    fn new(spec: &TxSpec, cons: &Arc<ckb_chain_spec::consensus::Consensus>) -> Ctx {
        let rtx = build_rtx(spec);
        let v = build_verifier(&rtx, cons, new_pause_ctx(true, None));
        let mut src_map = BTreeMap::new();
        let mut n = 0;
        for (i, (_h, g)) in v.groups().enumerate() {
            let s = if let Some(k) = g.input_indices.first() {
                format!("Inputs[{}].{}", k, g.group_type)
            } else if let Some(k) = g.output_indices.first() {
                format!("Outputs[{}].{}", k, g.group_type)
            } else {
                "Unknown".to_string()
            };
            src_map.insert(s, i);
            n = i + 1;
        }
        let pauses = spec.scripts.iter().any(|(p, _, _)| p.pauses);
        Ctx { rtx, cons: Arc::clone(cons), src_map, n_groups: n, pauses }
    }
    fn verifier(&self, skip_pause: bool) -> Verifier {
        build_verifier(&self.rtx, &self.cons, new_pause_ctx(skip_pause, None))
    }
    fn classify(&self, e: &ckb_error::Error) -> TErr {
        if let Some(t) = e.root_cause().downcast_ref::<TransactionScriptError>() {
            let src = self.src_map.get(&t.originating_script().to_string()).copied();
            return TErr { src, cause: script_cause(t.script_error()) };
        }
        let s = e.to_string();
        if s.contains("Interrupts") {
            TErr { src: None, cause: Cause::Interrupts }
        } else {
            TErr { src: None, cause: Cause::Other }
        }
    }
    fn res(&self, r: Result<Result<u64, ckb_error::Error>, Box<dyn std::any::Any + Send>>) -> Res {
        match r {
            Ok(Ok(c)) => Res::Ok(c),
            Ok(Err(e)) => Res::Err(self.classify(&e)),
            Err(p) => Res::Panic(panic_text(p)),
        }
    }
    fn verify(&self, max: u64) -> Res {
        let v = self.verifier(true);
        self.res(catch_unwind(AssertUnwindSafe(|| v.verify(max))))
    }
}

fn panic_text(p: Box<dyn std::any::Any + Send>) -> String {
    if let Some(s) = p.downcast_ref::<&str>() {
        s.to_string()
    } else if let Some(s) = p.downcast_ref::<String>() {
        s.clone()
    } else {
        "panic".into()
    }
}

/// Per group: (is TYPE_ID, cost, failure class) measured by running the group
/// alone and uninterrupted.  For a failing group the cost is the number of
/// cycles consumed when it fails.
#[derive(Clone, Debug)]
struct GroupInfo {
    type_id: bool,
    cost: u64,
    fail: Option<u64>,
}

fn measure_groups(cx: &Ctx) -> Result<Vec<GroupInfo>, String> {
    let v = cx.verifier(true);
    let mut out = Vec::new();
    let type_id_hash: ckb_types::packed::Byte32 = ckb_chain_spec::consensus::TYPE_ID_CODE_HASH.into();
    for (_h, g) in v.groups() {
        let is_tid = g.script.code_hash() == type_id_hash
            && Into::<u8>::into(g.script.hash_type()) == Into::<u8>::into(ckb_types::core::ScriptHashType::Type);
        if is_tid {
            match v.verify_single(g.group_type, &_h.clone(), u64::MAX) {
                Ok(c) => out.push(GroupInfo { type_id: true, cost: c, fail: None }),
                Err(e) => match script_cause(&e) {
                    Cause::Script(c) => out.push(GroupInfo { type_id: true, cost: 1_000_000, fail: Some(c) }),
                    other => return Err(format!("type-id group: {:?}", other)),
                },
            }
            continue;
        }
        let r = catch_unwind(AssertUnwindSafe(|| -> Result<GroupInfo, String> {
            let mut s = v.create_scheduler(g).map_err(|e| format!("create_scheduler: {e}"))?;
            match s.run(RunMode::LimitCycles(u64::MAX)) {
                Ok(t) => {
                    if t.exit_code == 0 {
                        Ok(GroupInfo { type_id: false, cost: t.consumed_cycles, fail: None })
                    } else {
                        Ok(GroupInfo { type_id: false, cost: t.consumed_cycles, fail: Some(1000 + (t.exit_code as u8 as u64)) })
                    }
                }
                Err(e) => {
                    let d = format!("{:?}", e);
                    let name: String = d.chars().take_while(|c| c.is_alphanumeric() || *c == '_').collect();
                    Ok(GroupInfo { type_id: false, cost: s.consumed_cycles(), fail: Some(vm_error_code(&name)) })
                }
            }
        }));
        match r {
            Ok(Ok(gi)) => out.push(gi),
            Ok(Err(e)) => return Err(e),
            Err(p) => return Err(format!("panic: {}", panic_text(p))),
        }
    }
    Ok(out)
}

fn main() {
    let cons = consensus();
    let progs = programs();
    for p in &progs {
        let spec = TxSpec { scripts: vec![(p.clone(), Slot::Lock, 0)], type_id: false };
        let cx = Ctx::new(&spec, &cons);
        let t = std::time::Instant::now();
        let r = cx.verify(u64::MAX);
        let dt = t.elapsed();
        let gi = measure_groups(&cx);
        println!("{:32} v{} groups={} whole={:?} {:?} groups={:?}", p.name, p.ver, cx.n_groups, r, dt, gi);
    }
    let _ = (seed(), json!(null), fs::metadata("."), Value::Null, ChunkCommand::Resume);
    let _: Option<(TransactionState, VerifyResult, Rng)> = None;
}
