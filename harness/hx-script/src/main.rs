//! C05 correspondence harness: runs the real `TransactionScriptsVerifier`
//! (verify / resumable_verify / resume_from_state / complete /
//! resumable_verify_with_signal) on transactions built around the programs of
//! /repo/script/testdata, under many cycle budgets and chunk partitions,
//! evaluates the property predicate directly on the answers, and writes the
//! observed accounting (per-group costs, limits, every TransactionState) as
//! Coq cases for the model coq/Script/Chunk.v to recompute.
mod txs;

use ckb_script::{ChunkCommand, RunMode, ScriptError, TransactionScriptError, TransactionState, VerifyResult};
use ckb_types::core::cell::ResolvedTransaction;
use hx_common::*;
use serde_json::{json, Value};
use std::collections::BTreeMap;
use std::fs;
use std::panic::{catch_unwind, AssertUnwindSafe};
use std::sync::Arc;
use txs::*;

// ---------------------------------------------------------------------------
// observables
// ---------------------------------------------------------------------------
#[derive(Clone, Debug, PartialEq)]
enum Cause {
    Exceeded(u64),
    Overflow,
    Other,
    /// failure of the script itself: 1000+exit code, or a code per VM error kind
    Script(u64),
    Interrupts,
}
#[derive(Clone, Debug, PartialEq)]
struct TErr {
    src: Option<usize>,
    cause: Cause,
}
#[derive(Clone, Debug, PartialEq)]
enum Res {
    Ok(u64),
    Err(TErr),
    Panic(String),
}
impl Res {
    fn class(&self) -> String {
        match self {
            Res::Ok(_) => "ok".into(),
            Res::Err(e) => match &e.cause {
                Cause::Exceeded(_) => "exceeded".into(),
                Cause::Overflow => "overflow".into(),
                Cause::Other => "other".into(),
                Cause::Script(c) => format!("script{c}"),
                Cause::Interrupts => "interrupts".into(),
            },
            Res::Panic(_) => "panic".into(),
        }
    }
    fn is_exceeded(&self) -> bool {
        matches!(self, Res::Err(TErr { cause: Cause::Exceeded(_), .. }))
    }
    /// same verdict (success with the same cycles, or the same failure of the same group)
    fn same_verdict(&self, o: &Res) -> bool {
        match (self, o) {
            (Res::Ok(a), Res::Ok(b)) => a == b,
            (Res::Err(a), Res::Err(b)) => match (&a.cause, &b.cause) {
                (Cause::Exceeded(_), Cause::Exceeded(_)) => true,
                (x, y) => x == y && a.src == b.src,
            },
            _ => false,
        }
    }
}

fn vm_error_code(name: &str) -> u64 {
    // stable small code per VM error kind (variant name only, no payload)
    let mut h: u64 = 1469598103934665603;
    for b in name.bytes() {
        h ^= b as u64;
        h = h.wrapping_mul(1099511628211);
    }
    1 + h % 900
}

fn script_cause(e: &ScriptError) -> Cause {
    match e {
        ScriptError::ExceededMaximumCycles(n) => Cause::Exceeded(*n),
        ScriptError::CyclesOverflow(..) => Cause::Overflow,
        ScriptError::Other(_) => Cause::Other,
        ScriptError::ValidationFailure(_, code) => Cause::Script(1000 + (*code as u8 as u64)),
        ScriptError::VMInternalError(v) => {
            let d = format!("{:?}", v);
            let name: String = d.chars().take_while(|c| c.is_alphanumeric() || *c == '_').collect();
            Cause::Script(vm_error_code(&name))
        }
        ScriptError::ScriptNotFound(_) => Cause::Script(2001),
        ScriptError::MultipleMatches => Cause::Script(2002),
        ScriptError::EncounteredKnownBugs(..) => Cause::Script(2003),
        ScriptError::InvalidScriptHashType(_) => Cause::Script(2004),
        ScriptError::InvalidVmVersion(_) => Cause::Script(2005),
        ScriptError::Interrupts => Cause::Interrupts,
    }
}

struct Ctx {
    rtx: Arc<ResolvedTransaction>,
    cons: Arc<ckb_chain_spec::consensus::Consensus>,
    /// "Inputs[0].Lock" -> group index (order of verifier.groups())
    src_map: BTreeMap<String, usize>,
    n_groups: usize,
    pauses: bool,
}

impl Ctx {
    fn new(spec: &TxSpec, cons: &Arc<ckb_chain_spec::consensus::Consensus>) -> Ctx {
        let rtx = build_rtx(spec);
        let v = build_verifier(&rtx, cons, new_pause_ctx(true, None));
        let mut src_map = BTreeMap::new();
        let mut n = 0;
        for (i, (_h, g)) in v.groups().enumerate() {
            let s = if let Some(k) = g.input_indices.first() {
                format!("Inputs[{}].{}", k, g.group_type)
            } else if let Some(k) = g.output_indices.first() {
                format!("Outputs[{}].{}", k, g.group_type)
            } else {
                "Unknown".to_string()
            };
            src_map.insert(s, i);
            n = i + 1;
        }
        let pauses = spec.scripts.iter().any(|(p, _, _)| p.pauses);
        Ctx { rtx, cons: Arc::clone(cons), src_map, n_groups: n, pauses }
    }
    fn verifier(&self, skip_pause: bool) -> Verifier {
        build_verifier(&self.rtx, &self.cons, new_pause_ctx(skip_pause, None))
    }
    fn classify(&self, e: &ckb_error::Error) -> TErr {
        if let Some(t) = e.root_cause().downcast_ref::<TransactionScriptError>() {
            let src = self.src_map.get(&t.originating_script().to_string()).copied();
            return TErr { src, cause: script_cause(t.script_error()) };
        }
        let s = e.to_string();
        if s.contains("Interrupts") {
            TErr { src: None, cause: Cause::Interrupts }
        } else {
            TErr { src: None, cause: Cause::Other }
        }
    }
    fn res(&self, r: Result<Result<u64, ckb_error::Error>, Box<dyn std::any::Any + Send>>) -> Res {
        match r {
            Ok(Ok(c)) => Res::Ok(c),
            Ok(Err(e)) => Res::Err(self.classify(&e)),
            Err(p) => Res::Panic(panic_text(p)),
        }
    }
    fn verify(&self, max: u64) -> Res {
        let v = self.verifier(true);
        self.res(catch_unwind(AssertUnwindSafe(|| v.verify(max))))
    }
}

fn panic_text(p: Box<dyn std::any::Any + Send>) -> String {
    if let Some(s) = p.downcast_ref::<&str>() {
        s.to_string()
    } else if let Some(s) = p.downcast_ref::<String>() {
        s.clone()
    } else {
        "panic".into()
    }
}

/// Per group: (is TYPE_ID, cost, failure class) measured by running the group
/// alone and uninterrupted.  For a failing group the cost is the number of
/// cycles consumed when it fails.
#[derive(Clone, Debug)]
struct GroupInfo {
    type_id: bool,
    cost: u64,
    fail: Option<u64>,
}

fn measure_groups(cx: &Ctx) -> Result<Vec<GroupInfo>, String> {
    let v = cx.verifier(true);
    let mut out = Vec::new();
    let type_id_hash: ckb_types::packed::Byte32 = ckb_chain_spec::consensus::TYPE_ID_CODE_HASH.into();
    for (_h, g) in v.groups() {
        let is_tid = g.script.code_hash() == type_id_hash
            && Into::<u8>::into(g.script.hash_type()) == Into::<u8>::into(ckb_types::core::ScriptHashType::Type);
        if is_tid {
            match v.verify_single(g.group_type, &_h.clone(), u64::MAX) {
                Ok(c) => out.push(GroupInfo { type_id: true, cost: c, fail: None }),
                Err(e) => match script_cause(&e) {
                    Cause::Script(c) => out.push(GroupInfo { type_id: true, cost: 1_000_000, fail: Some(c) }),
                    other => return Err(format!("type-id group: {:?}", other)),
                },
            }
            continue;
        }
        let r = catch_unwind(AssertUnwindSafe(|| -> Result<GroupInfo, String> {
            let mut s = v.create_scheduler(g).map_err(|e| format!("create_scheduler: {e}"))?;
            match s.run(RunMode::LimitCycles(u64::MAX)) {
                Ok(t) => {
                    if t.exit_code == 0 {
                        Ok(GroupInfo { type_id: false, cost: t.consumed_cycles, fail: None })
                    } else {
                        Ok(GroupInfo { type_id: false, cost: t.consumed_cycles, fail: Some(1000 + (t.exit_code as u8 as u64)) })
                    }
                }
                Err(e) => {
                    let d = format!("{:?}", e);
                    let name: String = d.chars().take_while(|c| c.is_alphanumeric() || *c == '_').collect();
                    Ok(GroupInfo { type_id: false, cost: s.consumed_cycles(), fail: Some(vm_error_code(&name)) })
                }
            }
        }));
        match r {
            Ok(Ok(gi)) => out.push(gi),
            Ok(Err(e)) => return Err(e),
            Err(p) => return Err(format!("panic: {}", panic_text(p))),
        }
    }
    Ok(out)
}


// ---------------------------------------------------------------------------
// chunked runs
// ---------------------------------------------------------------------------
#[derive(Clone, Debug, PartialEq)]
struct Susp {
    current: usize,
    cycles: u64,
    limit: u64,
    /// total_cycles of the captured scheduler state; None = no state (TYPE_ID restart)
    progress: Option<u64>,
}
#[derive(Clone, Debug, PartialEq)]
enum End {
    Done(u64),
    Err(TErr),
    /// still suspended when the list of limits ended
    Open,
    Panic(String),
}
struct ChunkRun {
    limits: Vec<u64>,
    susp: Vec<Susp>,
    end: End,
    last: Option<TransactionState>,
}

fn susp_of(st: &TransactionState) -> Susp {
    Susp {
        current: st.current,
        cycles: st.current_cycles,
        limit: st.limit_cycles,
        progress: st.state.as_ref().map(|s| s.total_cycles),
    }
}

/// `next(i, previous limit, previous chunk made no progress)` gives the limit
/// of chunk i, None = stop (state stays open).
fn run_chunks(cx: &Ctx, skip_pause: bool, next: &mut dyn FnMut(usize, u64, bool) -> Option<u64>, cap: usize) -> ChunkRun {
    let v = cx.verifier(skip_pause);
    let mut run = ChunkRun { limits: vec![], susp: vec![], end: End::Open, last: None };
    let mut prev_limit = 0u64;
    let mut no_progress = false;
    for i in 0..cap {
        let limit = match next(i, prev_limit, no_progress) {
            Some(l) => l,
            None => break,
        };
        run.limits.push(limit);
        prev_limit = limit;
        let st = run.last.take();
        let r = catch_unwind(AssertUnwindSafe(|| match &st {
            None => v.resumable_verify(limit),
            Some(s) => v.resume_from_state(s, limit),
        }));
        match r {
            Err(p) => {
                run.end = End::Panic(panic_text(p));
                return run;
            }
            Ok(Err(e)) => {
                run.end = End::Err(cx.classify(&e));
                return run;
            }
            Ok(Ok(VerifyResult::Completed(c))) => {
                run.end = End::Done(c);
                return run;
            }
            Ok(Ok(VerifyResult::Suspended(ns))) => {
                let s = susp_of(&ns);
                no_progress = match run.susp.last() {
                    Some(p) => p.current == s.current && p.progress == s.progress,
                    None => s.current == 0 && s.progress.unwrap_or(0) == 0,
                };
                run.susp.push(s);
                run.last = Some(ns);
            }
        }
    }
    run
}

fn complete(cx: &Ctx, st: &TransactionState, max: u64) -> Res {
    let v = cx.verifier(true);
    cx.res(catch_unwind(AssertUnwindSafe(|| v.complete(st, max))))
}

// ---------------------------------------------------------------------------
// signal-driven runs
// ---------------------------------------------------------------------------
#[derive(Clone, Debug)]
enum Sig {
    /// (microseconds to wait before, command 0=Suspend 1=Resume 2=Stop)
    Timed(Vec<(u64, u8)>),
    /// park the VM at its first debug-pause syscall, send Suspend, release the
    /// VM, then Resume: a deterministic mid-run pause
    AtPause,
}

fn cmd(c: u8) -> ChunkCommand {
    match c {
        0 => ChunkCommand::Suspend,
        1 => ChunkCommand::Resume,
        _ => ChunkCommand::Stop,
    }
}

/// returns (result, the pause really happened mid-run (AtPause only))
fn run_signal(cx: &Ctx, rt: &tokio::runtime::Runtime, limit: u64, sig: &Sig) -> (Res, bool) {
    let gate = match sig {
        Sig::AtPause => Some(Arc::new(Gate::default())),
        _ => None,
    };
    let ctx = new_pause_ctx(true, gate.clone());
    let v = build_verifier(&cx.rtx, &cx.cons, ctx);
    let sig = sig.clone();
    let mut landed = false;
    let r = catch_unwind(AssertUnwindSafe(|| {
        rt.block_on(async {
            let (tx, mut rx) = tokio::sync::watch::channel(ChunkCommand::Resume);
            let tx = Arc::new(tx);
            let tx2 = Arc::clone(&tx);
            let g2 = gate.clone();
            let driver = tokio::task::spawn_blocking(move || {
                let mut landed = false;
                match sig {
                    Sig::Timed(steps) => {
                        for (us, c) in steps {
                            std::thread::sleep(std::time::Duration::from_micros(us));
                            let _ = tx2.send(cmd(c));
                        }
                    }
                    Sig::AtPause => {
                        let g = g2.unwrap();
                        if g.wait_arrival(1, 3000) {
                            landed = true;
                            let _ = tx2.send(ChunkCommand::Suspend);
                            std::thread::sleep(std::time::Duration::from_millis(3));
                            g.release_all();
                            std::thread::sleep(std::time::Duration::from_millis(3));
                            let _ = tx2.send(ChunkCommand::Resume);
                        } else {
                            g.release_all();
                        }
                    }
                }
                landed
            });
            let fut = v.resumable_verify_with_signal(limit, &mut rx);
            let r = match tokio::time::timeout(std::time::Duration::from_secs(20), fut).await {
                Ok(r) => Some(r),
                Err(_) => None,
            };
            if let Some(g) = &gate {
                g.release_all();
            }
            landed = driver.await.unwrap_or(false);
            drop(tx);
            r
        })
    }));
    match r {
        Err(p) => (Res::Panic(panic_text(p)), landed),
        Ok(None) => (Res::Panic("timeout: resumable_verify_with_signal did not return within 20 s".into()), landed),
        Ok(Some(Ok(c))) => (Res::Ok(c), landed),
        Ok(Some(Err(e))) => (Res::Err(cx.classify(&e)), landed),
    }
}

// ---------------------------------------------------------------------------
// JSON / Coq rendering
// ---------------------------------------------------------------------------
fn cause_json(c: &Cause) -> Value {
    match c {
        Cause::Exceeded(n) => json!({"ExceededMaximumCycles": n}),
        Cause::Overflow => json!("CyclesOverflow"),
        Cause::Other => json!("Other"),
        Cause::Script(k) => json!({"script_failure_class": k}),
        Cause::Interrupts => json!("Interrupts"),
    }
}
fn terr_json(e: &TErr) -> Value {
    json!({"group": e.src, "cause": cause_json(&e.cause)})
}
fn res_json(r: &Res) -> Value {
    match r {
        Res::Ok(c) => json!({"ok": c}),
        Res::Err(e) => json!({"err": terr_json(e)}),
        Res::Panic(p) => json!({"panic": p}),
    }
}
fn end_json(e: &End) -> Value {
    match e {
        End::Done(c) => json!({"completed": c}),
        End::Err(e) => json!({"err": terr_json(e)}),
        End::Open => json!("still-suspended"),
        End::Panic(p) => json!({"panic": p}),
    }
}
fn susp_json(s: &Susp) -> Value {
    json!({"current": s.current, "current_cycles": s.cycles, "limit_cycles": s.limit, "vm_total_cycles": s.progress})
}
fn spec_json(spec: &TxSpec) -> Value {
    json!({
        "scripts": spec.scripts.iter().map(|(p, s, salt)| json!({"prog": p.name, "ver": p.ver, "slot": format!("{:?}", s), "salt": salt})).collect::<Vec<_>>(),
        "type_id": spec.type_id,
        "fake_type_id": spec.fake_type_id,
    })
}
fn spec_name(spec: &TxSpec) -> String {
    let mut s: Vec<String> = spec.scripts.iter().map(|(p, sl, _)| format!("{}.v{}{}", p.name, p.ver, match sl { Slot::Lock => "", Slot::Lock2 => "x2", Slot::TypeOut => "@type" })).collect();
    if spec.type_id {
        s.push("TYPE_ID".into());
    }
    if spec.fake_type_id > 0 {
        s.push(format!("TYPE_ID_code_hash_as_data{}", spec.fake_type_id - 1));
    }
    s.join("+")
}
fn spec_from_json(v: &Value, progs: &[Prog]) -> TxSpec {
    let mut scripts = Vec::new();
    for s in v["scripts"].as_array().unwrap() {
        let name = s["prog"].as_str().unwrap();
        let ver = s["ver"].as_u64().unwrap() as u8;
        let p = progs.iter().find(|p| p.name == name && p.ver == ver).expect("program").clone();
        let slot = match s["slot"].as_str().unwrap() {
            "Lock2" => Slot::Lock2,
            "TypeOut" => Slot::TypeOut,
            _ => Slot::Lock,
        };
        scripts.push((p, slot, s["salt"].as_u64().unwrap() as u8));
    }
    TxSpec { scripts, type_id: v["type_id"].as_bool().unwrap_or(false), fake_type_id: v["fake_type_id"].as_u64().unwrap_or(0) as u8 }
}

fn coq_cause(c: &Cause) -> String {
    match c {
        Cause::Exceeded(n) => format!("(OExceeded {})", coq_n(*n as u128)),
        Cause::Overflow => "OOverflow".into(),
        Cause::Other => "OOther".into(),
        Cause::Script(k) => format!("(OScript {})", coq_n(*k as u128)),
        Cause::Interrupts => "OOther".into(),
    }
}
fn coq_terr(e: &TErr) -> String {
    format!("({}, {})", coq_option(&e.src, |i| coq_nat(*i as u64)), coq_cause(&e.cause))
}
fn coq_res(r: &Res) -> String {
    match r {
        Res::Ok(c) => format!("(OOk {})", coq_n(*c as u128)),
        Res::Err(e) => format!("(OErr {})", coq_terr(e)),
        Res::Panic(_) => "OPanic".into(),
    }
}
fn coq_end(e: &End) -> String {
    match e {
        End::Done(c) => format!("(EDone {})", coq_n(*c as u128)),
        End::Err(e) => format!("(EErr {})", coq_terr(e)),
        End::Open => "EOpen".into(),
        End::Panic(_) => "EPanic".into(),
    }
}
fn coq_susp(s: &Susp) -> String {
    format!(
        "(mkS {} {} {} {})",
        coq_nat(s.current as u64),
        coq_n(s.cycles as u128),
        coq_n(s.limit as u128),
        coq_option(&s.progress, |p| coq_n(*p as u128))
    )
}
fn coq_groups(gs: &[GroupInfo]) -> String {
    coq_list(gs, |g| format!("(mkG {} {} {})", coq_bool(g.type_id), coq_n(g.cost as u128), coq_option(&g.fail, |c| coq_n(*c as u128))))
}

// ---------------------------------------------------------------------------
// the property predicate, written from the property text
// ---------------------------------------------------------------------------
struct Whole {
    res: Res,
    /// success: total cycles; failure: the smallest budget with which the
    /// uninterrupted run reports the failure itself
    cost: u64,
}

struct Violation {
    what: String,
    detail: Value,
    signature: Option<String>,
}

/// budget semantics: `r` is the answer of a run that was given the cycle budget `max`
fn check_budget(w: &Whole, max: u64, r: &Res) -> Option<String> {
    if max >= w.cost {
        if !r.same_verdict(&w.res) || matches!(r, Res::Panic(_)) {
            return Some(format!("budget {} >= uninterrupted cost {} but the answer {} differs from the unlimited run {}", max, w.cost, res_json(r), res_json(&w.res)));
        }
    } else if !r.is_exceeded() {
        return Some(format!("budget {} < uninterrupted cost {} but the run answered {} instead of ExceededMaximumCycles", max, w.cost, res_json(r)));
    }
    None
}

/// some chunk consumed at least SPAWN_YIELD_CYCLES_BASE (800) more than its limit: it was cut by the unchecked yield / spawn
/// charge of a spawn-family syscall (smaller overshoots also come from other unchecked charges and do not count)
fn overshoot(susp: &[Susp]) -> bool {
    let mut prev: Option<(usize, u64)> = None;
    for s in susp {
        if let Some(p) = s.progress {
            let before = match prev { Some((g, q)) if g == s.current => q, _ => 0 };
            if p.saturating_sub(before) >= s.limit.saturating_add(800) { return true; }
            prev = Some((s.current, p));
        } else {
            prev = None;
        }
    }
    false
}

/// a chunked run that came to an end must agree with the unlimited run
fn check_chunk_end(w: &Whole, e: &End) -> Option<String> {
    let r = match e {
        End::Open => return None,
        End::Done(c) => Res::Ok(*c),
        End::Err(e) => Res::Err(e.clone()),
        End::Panic(p) => Res::Panic(p.clone()),
    };
    if matches!(r, Res::Panic(_)) || r.is_exceeded() || !r.same_verdict(&w.res) {
        return Some(format!("chunked run ended with {} but the uninterrupted run gives {}", res_json(&r), res_json(&w.res)));
    }
    None
}

// ---------------------------------------------------------------------------
// generation
// ---------------------------------------------------------------------------
fn gen_specs(rng: &mut Rng, progs: &[Prog], thorough: bool) -> Vec<TxSpec> {
    let mut specs = Vec::new();
    // every program alone
    for p in progs {
        specs.push(TxSpec { scripts: vec![(p.clone(), Slot::Lock, 0)], type_id: false, fake_type_id: 0 });
    }
    // regression corpus: the shapes of script/src/verify/tests
    let find = |n: &str, v: u8| progs.iter().find(|p| p.name == n && p.ver == v).unwrap().clone();
    specs.push(TxSpec { scripts: vec![(find("always_success", 1), Slot::Lock, 0)], type_id: true, fake_type_id: 0 });
    for k in 1..=3u8 {
        specs.push(TxSpec { scripts: vec![(find("always_success", 1), Slot::Lock, 0)], type_id: false, fake_type_id: k });
        specs.push(TxSpec { scripts: vec![(find("always_success", 2), Slot::Lock, 0)], type_id: true, fake_type_id: k });
    }
    specs.push(TxSpec { scripts: vec![(find("always_success", 2), Slot::Lock2, 0), (find("cpop_lock", 1), Slot::Lock, 0)], type_id: true, fake_type_id: 0 });
    let floating: Vec<&Prog> = progs.iter().filter(|p| p.deps.is_empty() && p.witness.is_none()).collect();
    let anchored: Vec<&Prog> = progs.iter().filter(|p| !p.deps.is_empty() || p.witness.is_some()).collect();
    let n_multi = if thorough { 260 } else { 36 };
    for _ in 0..n_multi {
        let mut scripts: Vec<(Prog, Slot, u8)> = Vec::new();
        if rng.chance(2, 3) {
            let a = (*rng.pick(&anchored)).clone();
            scripts.push((a, Slot::Lock, 0));
        }
        let nf = rng.range(1, 3);
        let mut salt = 1u8;
        for _ in 0..nf {
            let f = (*rng.pick(&floating)).clone();
            // mostly succeeding companions, so that later groups are reached
            if f.name != "always_success" && f.name != "cpop_lock" && f.name != "mop_adc_lock" && f.name != "current_cycles" && rng.chance(1, 2) {
                continue;
            }
            let slot = match rng.below(5) {
                0 => Slot::Lock2,
                1 => Slot::TypeOut,
                _ => Slot::Lock,
            };
            let s = if f.salt_ok { salt } else { 0 };
            salt += 1;
            if scripts.iter().any(|(p, sl, sa)| p.name == f.name && p.ver == f.ver && *sa == s && (*sl == Slot::TypeOut) == (slot == Slot::TypeOut)) {
                continue;
            }
            scripts.push((f, slot, s));
        }
        if scripts.is_empty() {
            continue;
        }
        specs.push(TxSpec { scripts, type_id: rng.chance(1, 3), fake_type_id: 0 });
    }
    specs
}

#[derive(Clone, Debug)]
enum Strat {
    /// constant step
    Fixed(u64),
    /// the tests' next_limit_cycles style: the limit grows by `step` every chunk
    Growing(u64),
    /// log-uniform random limits in [lo, hi]
    Random(u64, u64),
    /// explicit limits, then unlimited
    List(Vec<u64>),
}

fn log_uniform(r: &mut Rng, lo: u64, hi: u64) -> u64 {
    let lo = lo.max(1);
    let hi = hi.max(lo);
    let a = (lo as f64).ln();
    let b = (hi as f64).ln();
    let x = a + (b - a) * (r.below(1 << 30) as f64 / (1u64 << 30) as f64);
    (x.exp() as u64).clamp(lo, hi)
}

fn limiter<'a>(strat: &'a Strat, rng: &'a mut Rng) -> impl FnMut(usize, u64, bool) -> Option<u64> + 'a {
    move |i, prev, stuck| {
        let base = match strat {
            Strat::Fixed(s) => *s,
            Strat::Growing(s) => prev.saturating_add(*s),
            Strat::Random(lo, hi) => log_uniform(rng, *lo, *hi),
            Strat::List(l) => {
                if i < l.len() {
                    l[i]
                } else {
                    u64::MAX
                }
            }
        };
        // a chunk smaller than the next atomic step cannot make progress: widen
        Some(if stuck { base.max(prev.saturating_mul(2)).max(1024) } else { base })
    }
}

#[derive(Default)]
struct TxOut {
    viol: Vec<Violation>,
    cases: Vec<(String, Value)>,
    stats: BTreeMap<String, u64>,
    samples: Vec<Value>,
    distinct: Vec<String>,
    evaluations: u64,
}

const SIG_COMPLETE: &str = "complete-budget-ignores-cycles-of-the-suspended-group";
const SIG_SIGNAL: &str = "signal-resume-restarts-the-cycle-budget";
const SIG_IO: &str = "chunk-limit-crossed-by-io-syscall-skips-process-io";
const SIG_SWAP: &str = "chunked-total-cycles-differ-many-vm-spawn";

/// class code of ckb_vm::Error::Unexpected ("A deadlock situation has been reached!")
fn unexpected_code() -> u64 {
    vm_error_code("Unexpected")
}

/// keep at most three violations per known class and transaction (the rest is only counted)
fn compact(t: &mut TxOut) {
    let mut kept: BTreeMap<String, u32> = BTreeMap::new();
    let mut dropped: BTreeMap<String, u64> = BTreeMap::new();
    t.viol.retain(|v| match &v.signature {
        None => true,
        Some(s) => {
            let k = kept.entry(s.clone()).or_default();
            *k += 1;
            if *k > 3 {
                *dropped.entry(s.clone()).or_default() += 1;
                false
            } else {
                true
            }
        }
    });
    for (s, n) in dropped {
        *t.stats.entry(format!("known_class_more:{s}")).or_default() += n;
    }
}

fn process_tx(spec: &TxSpec, cons: &Arc<ckb_chain_spec::consensus::Consensus>, rt: &tokio::runtime::Runtime, mut rng: Rng, thorough: bool) -> TxOut {
    let mut t = TxOut::default();
    macro_rules! bump {
        ($k:expr) => {
            *t.stats.entry($k.to_string()).or_default() += 1
        };
    }
    // Coq cases: the 16 shards hold ~6 MB in total; in the thorough tier keep a
    // thinned sample per transaction instead of buffering hundreds of thousands
    let case_budget: usize = if thorough { 20_000 } else { usize::MAX };
    let mut case_bytes = 0usize;
    let mut case_seen = 0u64;
    let mut keep_case = move |len: usize| -> bool {
        case_seen += 1;
        if case_bytes + len > case_budget || (case_budget != usize::MAX && case_seen % 7 != 0 && case_seen > 40) {
            return false;
        }
        case_bytes += len;
        true
    };
    let n_part = if thorough { 400 } else { 22 };
    let cap = if thorough { 4000 } else { 400 };
    let cx = Ctx::new(spec, cons);
    let name = spec_name(spec);
    let sj = spec_json(spec);
    let uses_pipes = spec.scripts.iter().any(|(p, _, _)| p.name.starts_with("spawn"));
    // scripts that keep more than MAX_INSTANTIATED_VMS (4) VMs alive and talk over pipes
    let many_vms = spec.scripts.iter().any(|(p, _, _)| p.name == "spawn_cycles" || p.name == "spawn_create_17_spawn" || p.name == "spawn_cases_10");
    let whole_res = cx.verify(u64::MAX);
    if spec.fake_type_id > 0 {
        // a group that resolves to no cell: the transaction fails the same way however it is executed (no Coq case:
        // the model's groups are measured by running them)
        bump!("transactions_with_unresolvable_group");
        let mut obs: Vec<(String, Res)> = vec![];
        obs.push(("verify(u64::MAX - 1)".into(), cx.verify(u64::MAX - 1)));
        for lim in [u64::MAX, 1_000_000_000u64, 700] {
            let mut r2 = rng.fork();
            let strat = Strat::Growing(lim);
            let mut lm = limiter(&strat, &mut r2);
            let run = run_chunks(&cx, true, &mut lm, 40);
            drop(lm);
            let r = match &run.end { End::Done(c) => Res::Ok(*c), End::Err(e) => Res::Err(e.clone()), End::Panic(p) => Res::Panic(p.clone()), End::Open => Res::Panic("still suspended after 40 chunks".into()) };
            obs.push((format!("resumable_verify / resume_from_state, limits growing by {lim}"), r));
        }
        obs.push(("resumable_verify_with_signal(u64::MAX), no command".into(), run_signal(&cx, rt, u64::MAX, &Sig::Timed(vec![])).0));
        obs.push(("resumable_verify_with_signal(u64::MAX), Suspend / Resume".into(), run_signal(&cx, rt, u64::MAX, &Sig::Timed(vec![(0, 0), (200, 1)])).0));
        for (how, r) in obs {
            t.evaluations += 1;
            if !r.same_verdict(&whole_res) {
                t.viol.push(Violation { what: format!("{name}: {how} answers {} but verify(u64::MAX) answers {}", res_json(&r), res_json(&whole_res)), detail: json!({"tx": sj, "tx_name": name}), signature: None });
            }
        }
        if matches!(whole_res, Res::Ok(_)) {
            t.viol.push(Violation { what: format!("{name}: a script whose code cell does not exist verified: {}", res_json(&whole_res)), detail: json!({"tx": sj}), signature: None });
        }
        return t;
    }
    let groups = match measure_groups(&cx) {
        Ok(g) => g,
        Err(e) => {
            t.viol.push(Violation { what: format!("cannot measure the groups of {name}: {e}"), detail: json!({"tx": sj}), signature: None });
            return t;
        }
    };
    bump!("transactions");
    bump!(format!("tx_groups_{}", groups.len()));
    bump!(format!("whole_{}", whole_res.class().chars().take_while(|c| c.is_alphabetic()).collect::<String>()));
    // ---- the uninterrupted cost ------------------------------------------
    let cost = match &whole_res {
        Res::Ok(c) => *c,
        Res::Err(e) => {
            // cycles of the groups before the failing one + cycles the failing group consumed
            let k = e.src.unwrap_or(0);
            groups[..k].iter().map(|g| g.cost).sum::<u64>() + groups[k].cost
        }
        Res::Panic(p) => {
            t.viol.push(Violation { what: format!("verify(u64::MAX) panicked on {name}: {p}"), detail: json!({"tx": sj}), signature: None });
            return t;
        }
    };
    // the per-group measurements must add up to the whole run
    let sum_ok: u64 = groups.iter().map(|g| g.cost).sum();
    if let Res::Ok(c) = &whole_res {
        if *c != sum_ok || groups.iter().any(|g| g.fail.is_some()) {
            t.viol.push(Violation { what: format!("{name}: verify(u64::MAX) = {c} but the groups run alone cost {:?}", groups), detail: json!({"tx": sj}), signature: None });
            return t;
        }
    }
    let w = Whole { res: whole_res.clone(), cost };
    let gj = json!(groups.iter().map(|g| json!({"type_id": g.type_id, "cost": g.cost, "fail_class": g.fail})).collect::<Vec<_>>());
    let cg = coq_groups(&groups);
    let mk_detail = |run: Value| json!({"tx": sj, "tx_name": name, "groups": gj, "uninterrupted": res_json(&w.res), "cost": w.cost, "run": run});
    // a chunked run of a pipe-using script that ends in the scheduler's
    // "deadlock" error although the uninterrupted run does not: known class
    let io_known = |r: &Res| -> bool {
        uses_pipes && matches!(r, Res::Err(TErr { cause: Cause::Script(c), .. }) if *c == unexpected_code()) && !r.same_verdict(&w.res)
    };

    // ---- budgets: verify(max) --------------------------------------------
    let mut budgets: Vec<u64> = vec![0, 1, cost.saturating_sub(1), cost, cost.saturating_add(1), u64::MAX, u64::MAX - 1];
    let mut acc = 0u64;
    for g in &groups {
        acc += g.cost;
        budgets.extend([acc.saturating_sub(1), acc, acc + 1]);
    }
    for _ in 0..4 {
        budgets.push(rng.range(0, cost.saturating_add(cost / 4 + 2)));
    }
    budgets.sort();
    budgets.dedup();
    for max in budgets {
        let r = cx.verify(max);
        t.evaluations += 1;
        bump!("run_verify_budget");
        let runj = json!({"kind": "verify", "max": max, "observed": res_json(&r)});
        if let Some(msg) = check_budget(&w, max, &r) {
            t.viol.push(Violation { what: format!("{name}: verify({max}): {msg}"), detail: mk_detail(runj.clone()), signature: None });
        }
        if keep_case(200) {
            t.cases.push((format!("mkCase {} (RVerify {} {})", cg, coq_n(max as u128), coq_res(&r)), mk_detail(runj)));
        }
    }

    // ---- chunk partitions ------------------------------------------------
    let mut strats: Vec<(Strat, bool)> = Vec::new();
    // boundary-directed: chunks that end exactly at / one off a group boundary
    let mut acc = 0u64;
    for g in &groups {
        for d in [0i64, -1, 1] {
            let l = (acc + g.cost) as i64 + d;
            if l >= 0 {
                strats.push((Strat::List(vec![l as u64]), true));
            }
        }
        let l2 = g.cost as i64 + [0i64, -1, 1][rng.below(3) as usize];
        if l2 > 0 {
            strats.push((Strat::Fixed(l2 as u64), true));
        }
        acc += g.cost;
    }
    strats.push((Strat::List(vec![0, 0, 1]), true));
    strats.push((Strat::Fixed(u64::MAX), true));
    let min_step = (cost / (cap as u64 - 50)).max(1);
    for _ in 0..n_part {
        let pause_mode = cx.pauses && rng.chance(1, 2);
        let s = match rng.below(4) {
            0 => Strat::Fixed(log_uniform(&mut rng, min_step.max(if cost < 50_000 { 1 } else { 700 }), cost.max(2))),
            1 => Strat::Growing(log_uniform(&mut rng, (min_step / 8).max(1), cost.max(2))),
            2 => {
                let lo = log_uniform(&mut rng, min_step.max(600), cost.max(601));
                Strat::Random(lo, lo.saturating_mul(rng.range(2, 64)))
            }
            _ => {
                let n = rng.range(1, 5);
                Strat::List((0..n).map(|_| rng.range(0, cost.saturating_add(2))).collect())
            }
        };
        strats.push((s, !pause_mode));
    }
    // all split points at a coarse grain for cheap transactions
    if cost <= 20_000 {
        let n = if thorough { 2000 } else { 40 };
        let grain = (cost / n).max(1);
        let mut k = grain;
        while k < cost {
            strats.push((Strat::List(vec![k]), true));
            k += grain;
        }
    }
    for (si, (strat, skip_pause)) in strats.iter().enumerate() {
        if si % 16 == 0 {
            compact(&mut t);
        }
        let mut r2 = rng.fork();
        let mut lim = limiter(strat, &mut r2);
        let run = run_chunks(&cx, *skip_pause, &mut lim, cap);
        drop(lim);
        t.evaluations += 1;
        bump!("run_chunked");
        *t.stats.entry("chunks_total".into()).or_default() += run.limits.len() as u64;
        if run.limits.len() > 1 {
            t.distinct.push(format!("{name}:{:?}", run.limits));
        }
        if !*skip_pause {
            bump!("run_chunked_with_debug_pause");
        }
        let mut runj = json!({"kind": "chunks", "skip_debug_pause": skip_pause, "limits": run.limits,
                              "suspensions": run.susp.iter().map(susp_json).collect::<Vec<_>>(), "end": end_json(&run.end)});
        let end_res = match &run.end {
            End::Err(e) => Some(Res::Err(e.clone())),
            End::Done(c) => Some(Res::Ok(*c)),
            _ => None,
        };
        let io = end_res.as_ref().map(|r| io_known(r)).unwrap_or(false);
        // known class: a many-VM spawn script ends with a different cycle total
        // (or the script's own cycle self-check fails: spawn_cycles exits with 31)
        let swap = many_vms && matches!(w.res, Res::Ok(_))
            && matches!(&end_res, Some(r) if !r.same_verdict(&w.res) && (matches!(r, Res::Ok(_)) || matches!(r, Res::Err(TErr { cause: Cause::Script(c), .. }) if *c >= 1000 && *c < 1256)));
        // the same skipped process_io, ending differently: a chunk whose consumption overshot its limit was cut by the
        // unchecked charge of a spawn-family syscall (ordinary instructions never cross the limit); the pending message is
        // handled one iteration late after the resume, the VMs run in another order, and a script whose root VM exits while a
        // child is still running (spawn_cases 13) completes with another total
        let io_total = uses_pipes && matches!(w.res, Res::Ok(_)) && matches!(&end_res, Some(Res::Ok(c)) if *c != cost) && overshoot(&run.susp);
        let chunk_sig: Option<&str> = if io || io_total { Some(SIG_IO) } else if swap { Some(SIG_SWAP) } else { None };
        if let Some(sg) = chunk_sig {
            runj["known_class"] = json!(sg);
        }
        if let Some(msg) = check_chunk_end(&w, &run.end) {
            t.viol.push(Violation { what: format!("{name}: {msg}"), detail: mk_detail(runj.clone()), signature: chunk_sig.map(|x| x.to_string()) });
        }
        if run.end == End::Open {
            bump!("run_chunked_open_at_cap");
        }
        // consumed cycles recorded in a state never exceed the uninterrupted cost
        for s in &run.susp {
            if matches!(w.res, Res::Ok(_)) && s.cycles + s.progress.unwrap_or(0) > cost {
                t.viol.push(Violation { what: format!("{name}: a suspended state holds {} + {} cycles, more than the uninterrupted cost {}", s.cycles, s.progress.unwrap_or(0), cost), detail: mk_detail(runj.clone()), signature: if many_vms { Some(SIG_SWAP.into()) } else { None } });
                break;
            }
        }
        if run.limits.len() <= 20 && *skip_pause && keep_case(200 + 90 * run.limits.len()) {
            let mut d = mk_detail(runj.clone());
            if let Some(sg) = chunk_sig {
                d["known_signature"] = json!(sg);
            }
            t.cases.push((format!("mkCase {} (RChunks {} {} {})", cg, coq_list(&run.limits, |l| coq_n(*l as u128)), coq_list(&run.susp, coq_susp), coq_end(&run.end)), d));
        }
        if t.samples.is_empty() && run.limits.len() >= 3 && groups.len() >= 2 {
            t.samples.push(mk_detail(runj.clone()));
        }
        // ---- complete() from an intermediate state -----------------------
        if si % 3 == 0 {
            // re-run a prefix of this partition to get a state, then complete it
            if run.susp.is_empty() {
                continue;
            }
            let k = rng.range(1, run.susp.len() as u64) as usize;
            let pre: Vec<u64> = run.limits[..k].to_vec();
            let mut it = pre.clone().into_iter();
            let mut lim2 = move |_i: usize, _p: u64, _s: bool| it.next();
            let run2 = run_chunks(&cx, *skip_pause, &mut lim2, cap);
            if run2.end != End::Open || run2.last.is_none() {
                continue;
            }
            let st = run2.last.as_ref().unwrap();
            let sp = susp_of(st);
            let prog = sp.progress.unwrap_or(0);
            let consumed = sp.cycles + prog;
            let mut maxes = vec![u64::MAX, cost, cost.saturating_sub(1)];
            maxes.push(*rng.pick(&[cost.saturating_add(1), sp.cycles.saturating_sub(1), cost.saturating_sub(prog), cost.saturating_sub(prog).saturating_sub(1)]));
            maxes.push(rng.range(0, cost));
            maxes.sort();
            maxes.dedup();
            for max in maxes {
                let r = complete(&cx, st, max);
                t.evaluations += 1;
                bump!("run_complete");
                let mut runj = json!({"kind": "complete", "skip_debug_pause": skip_pause, "limits": pre, "state": susp_json(&sp), "max": max, "observed": res_json(&r)});
                let io = io_known(&r);
                // many-VM spawn scripts: the chunked prefix already changed the total
                let swap = many_vms && matches!(w.res, Res::Ok(_)) && (matches!(&r, Res::Ok(c) if *c != cost) || (max >= cost && r.is_exceeded())
                    || matches!(&r, Res::Err(TErr { cause: Cause::Script(c), .. }) if *c >= 1000 && *c < 1256));
                if let Some(msg) = check_budget(&w, max, &r) {
                    // known class: complete() grants the suspended group the cycles it
                    // already consumed on top of the budget: it behaves like the
                    // unlimited run (or reports an internal "Other" error) although max < cost
                    let known = max < w.cost && prog > 0 && (r.same_verdict(&w.res) || matches!(&r, Res::Err(TErr { cause: Cause::Other, .. })));
                    let sig = if io { Some(SIG_IO.to_string()) } else if swap { Some(SIG_SWAP.to_string()) } else if known { Some(SIG_COMPLETE.to_string()) } else { None };
                    if let Some(s) = &sig {
                        runj["known_class"] = json!(s);
                    }
                    t.viol.push(Violation { what: format!("{name}: complete(state after {k} chunks [{} cycles consumed], {max}): {msg}", consumed), detail: mk_detail(runj.clone()), signature: sig });
                }
                if pre.len() <= 20 && *skip_pause && keep_case(200 + 90 * pre.len()) {
                    let mut d = mk_detail(runj);
                    if io {
                        d["known_signature"] = json!(SIG_IO);
                    } else if swap {
                        d["known_signature"] = json!(SIG_SWAP);
                    }
                    t.cases.push((format!("mkCase {} (RComplete {} {} {} {})", cg, coq_list(&pre, |l| coq_n(*l as u128)), coq_list(&run2.susp, coq_susp), coq_n(max as u128), coq_res(&r)), d));
                }
            }
        }
    }

    // ---- pause / resume signals ------------------------------------------
    let n_sig = if thorough { 24 } else { 5 };
    for i in 0..n_sig {
        let limit = match i % 5 {
            0 => u64::MAX,
            1 => cost,
            2 => cost.saturating_sub(1),
            3 => cost + 1,
            _ => rng.range(0, cost + 10),
        };
        let mut steps = Vec::new();
        let n = rng.range(0, 4);
        for _ in 0..n {
            steps.push((rng.range(0, 400), 0u8));
            steps.push((rng.range(0, 400), 1u8));
        }
        steps.push((0, 1u8));
        let sig = Sig::Timed(steps.clone());
        let (r, _) = run_signal(&cx, rt, limit, &sig);
        t.evaluations += 1;
        bump!("run_signal_timed");
        let runj = json!({"kind": "signal", "limit": limit, "commands_us": steps, "observed": res_json(&r)});
        if let Some(msg) = check_budget(&w, limit, &r) {
            // known class: every Resume restarts the group's cycle budget
            let known = limit < w.cost && n > 0 && (r.same_verdict(&w.res) || matches!(&r, Res::Err(TErr { cause: Cause::Other, .. })));
            // known class: a many-VM spawn script completes with another total when it is interrupted (the same totals as in chunks)
            let swap = many_vms && n > 0 && limit >= w.cost && matches!(w.res, Res::Ok(_)) && matches!(&r, Res::Ok(c) if *c != w.cost);
            t.viol.push(Violation { what: format!("{name}: resumable_verify_with_signal({limit}) with {n} suspend/resume pairs: {msg}"), detail: mk_detail(runj),
                                    signature: if known { Some(SIG_SIGNAL.into()) } else if swap { Some(SIG_SWAP.into()) } else { None } });
        }
    }
    if cx.pauses {
        for limit in [u64::MAX, cost, cost - 1] {
            let (r, landed) = run_signal(&cx, rt, limit, &Sig::AtPause);
            t.evaluations += 1;
            bump!("run_signal_at_debug_pause");
            if landed {
                bump!("run_signal_at_debug_pause_landed");
            }
            let runj = json!({"kind": "signal_at_pause", "limit": limit, "suspend_landed_mid_run": landed, "observed": res_json(&r)});
            if let Some(msg) = check_budget(&w, limit, &r) {
                let known = limit < w.cost && landed && (r.same_verdict(&w.res) || matches!(&r, Res::Err(TErr { cause: Cause::Other, .. })));
                t.viol.push(Violation { what: format!("{name}: resumable_verify_with_signal({limit}), Suspend while the VM sits in its debug-pause syscall, then Resume: {msg}"), detail: mk_detail(runj),
                                        signature: if known { Some(SIG_SIGNAL.into()) } else { None } });
            }
        }
    }
    compact(&mut t);
    t
}

fn main() {
    let progs = programs();
    let cons = consensus();
    let rt = tokio::runtime::Builder::new_multi_thread().worker_threads(4).enable_all().build().unwrap();
    if let Ok(p) = std::env::var("HX_REPLAY") {
        replay(&p, &progs, &cons, &rt);
    }
    let seed = seed();
    let thorough = tier_is_thorough();
    let out = out_dir("C05");
    for e in fs::read_dir(&out).unwrap().flatten() {
        let n = e.file_name().to_string_lossy().to_string();
        if n.starts_with("cases_") || n == "summary.json" {
            let _ = fs::remove_file(e.path());
        }
    }
    let mut rng = Rng::new(seed);
    let specs = gen_specs(&mut rng, &progs, thorough);
    let rngs: Vec<Rng> = specs.iter().map(|_| rng.fork()).collect();
    // transactions are independent: run them on worker threads, merge in order
    let next = std::sync::atomic::AtomicUsize::new(0);
    let results: std::sync::Mutex<Vec<Option<TxOut>>> = std::sync::Mutex::new((0..specs.len()).map(|_| None).collect());
    let workers = std::thread::available_parallelism().map(|n| n.get()).unwrap_or(4).clamp(2, 12);
    std::thread::scope(|sc| {
        for _ in 0..workers {
            sc.spawn(|| loop {
                let i = next.fetch_add(1, std::sync::atomic::Ordering::SeqCst);
                if i >= specs.len() {
                    break;
                }
                let r = catch_unwind(AssertUnwindSafe(|| process_tx(&specs[i], &cons, &rt, rngs[i].clone(), thorough)));
                let t = match r {
                    Ok(t) => t,
                    Err(p) => {
                        let mut t = TxOut::default();
                        t.viol.push(Violation { what: format!("harness panic on {}: {}", spec_name(&specs[i]), panic_text(p)), detail: json!({"tx": spec_json(&specs[i])}), signature: None });
                        t
                    }
                };
                results.lock().unwrap()[i] = Some(t);
            });
        }
    });
    let results: Vec<TxOut> = results.into_inner().unwrap().into_iter().map(|t| t.unwrap()).collect();

    let mut stats: BTreeMap<String, u64> = BTreeMap::new();
    let mut viol: Vec<Violation> = Vec::new();
    let mut samples: Vec<Value> = Vec::new();
    let mut distinct = std::collections::BTreeSet::new();
    let mut evaluations = 0u64;
    let shards = 16usize;
    let header = "From CKB Require Import Script.Chunk Script.ChunkCases.";
    let mut files: Vec<CaseFile> = (0..shards)
        .map(|i| {
            let mut cf = CaseFile::new(&out, &format!("cases_{:02}", i), header);
            cf.group("run", "case", "check_case");
            cf
        })
        .collect();
    let mut descs: Vec<BTreeMap<String, Vec<Value>>> = (0..shards).map(|_| BTreeMap::new()).collect();
    let mut bytes = vec![0usize; shards];
    let (mut emitted, mut dropped, mut nextc) = (0u64, 0u64, 0usize);
    for t in results {
        for (k, v) in t.stats {
            *stats.entry(k).or_default() += v;
        }
        viol.extend(t.viol);
        if samples.len() < 3 {
            samples.extend(t.samples);
        }
        distinct.extend(t.distinct);
        evaluations += t.evaluations;
        for (case, desc) in t.cases {
            let sh = nextc % shards;
            nextc += 1;
            // keep every shard under ~400 KB
            if bytes[sh] + case.len() > 400_000 {
                dropped += 1;
                continue;
            }
            bytes[sh] += case.len();
            files[sh].push(0, case);
            descs[sh].entry("run".into()).or_default().push(desc);
            emitted += 1;
        }
    }
    for (i, cf) in files.iter().enumerate() {
        cf.write().unwrap();
        fs::write(out.join(format!("cases_{:02}.json", i)), serde_json::to_string(&descs[i]).unwrap()).unwrap();
    }
    stats.insert("coq_cases".into(), emitted);
    stats.insert("coq_cases_dropped_size_cap".into(), dropped);
    let mut known_counts: BTreeMap<String, u64> = BTreeMap::new();
    for v in &viol {
        if let Some(s) = &v.signature {
            *known_counts.entry(s.clone()).or_default() += 1;
        }
    }
    for (k, n) in &stats {
        if let Some(s) = k.strip_prefix("known_class_more:") {
            *known_counts.entry(s.to_string()).or_default() += n;
        }
    }
    // one representative per known class is enough for the report
    let mut seen_sig = std::collections::BTreeSet::new();
    let viol_out: Vec<&Violation> = viol.iter().filter(|v| match &v.signature { Some(s) => seen_sig.insert(s.clone()), None => true }).collect();
    let summary = json!({
        "property": "C05",
        "seed": seed,
        "evaluations": evaluations,
        "distinct_nontrivial": distinct.len(),
        "rule": "one evaluation = one run of verify(max) / a resumable_verify+resume_from_state chain / complete / resumable_verify_with_signal on a transaction built around script/testdata programs, compared with verify(u64::MAX) of the same transaction; distinct = distinct (transaction, list of chunk limits) with at least two chunks",
        "distribution": stats,
        "samples": samples,
        "extra_coverage": {"known_class_hits": known_counts},
        "impl_violations": viol_out.iter().map(|v| {
            let mut j = json!({"what": v.what, "detail": v.detail});
            if let Some(s) = &v.signature { j["signature"] = json!(s); }
            j
        }).collect::<Vec<_>>(),
    });
    fs::write(out.join("summary.json"), serde_json::to_string_pretty(&summary).unwrap()).unwrap();
    println!("hx-script: {} evaluations over {} transactions, {} coq cases, {} implementation-side violations ({} outside the known classes)",
             evaluations, specs.len(), emitted, viol.len(), viol.iter().filter(|v| v.signature.is_none()).count());
    let mut seen = std::collections::BTreeSet::new();
    for v in &viol {
        let key = v.signature.clone().unwrap_or_else(|| v.what.clone());
        if seen.insert(key) && seen.len() <= 12 {
            println!("  violation: {}{}", v.what.chars().take(400).collect::<String>(), v.signature.as_ref().map(|s| format!(" [signature {s}]")).unwrap_or_default());
        }
    }
}

/// re-run the first case of a replay file on the implementation
fn replay(path: &str, progs: &[Prog], cons: &Arc<ckb_chain_spec::consensus::Consensus>, rt: &tokio::runtime::Runtime) -> ! {
    let v: Value = serde_json::from_str(&fs::read_to_string(path).unwrap()).unwrap();
    let case = if let Some(vs) = v.get("violations") { vs[0]["detail"].clone() } else { v["cases"][0]["case"].clone() };
    let spec = spec_from_json(&case["tx"], progs);
    let cx = Ctx::new(&spec, cons);
    let whole = cx.verify(u64::MAX);
    let cost = case["cost"].as_u64().unwrap_or(0);
    println!("transaction {}: verify(u64::MAX) = {} (recorded cost {})", spec_name(&spec), res_json(&whole), cost);
    let cost_now = match &whole { Res::Ok(c) => *c, _ => cost };
    let w = Whole { res: whole, cost: cost_now };
    let run = &case["run"];
    let limits: Vec<u64> = run.get("limits").and_then(|l| l.as_array()).map(|a| a.iter().map(|x| x.as_u64().unwrap()).collect()).unwrap_or_default();
    let skip = run.get("skip_debug_pause").and_then(|b| b.as_bool()).unwrap_or(true);
    let mut bad: Option<String> = None;
    match run["kind"].as_str().unwrap_or("") {
        "verify" => {
            let max = run["max"].as_u64().unwrap();
            let r = cx.verify(max);
            println!("verify({max}) = {}", res_json(&r));
            bad = check_budget(&w, max, &r);
        }
        "chunks" => {
            let mut it = limits.clone().into_iter();
            let mut lim = move |_i: usize, _p: u64, _s: bool| it.next();
            let r = run_chunks(&cx, skip, &mut lim, limits.len() + 1);
            println!("limits {:?}\nsuspensions {}\nend {}", r.limits, json!(r.susp.iter().map(susp_json).collect::<Vec<_>>()), end_json(&r.end));
            bad = check_chunk_end(&w, &r.end);
        }
        "complete" => {
            let mut it = limits.clone().into_iter();
            let mut lim = move |_i: usize, _p: u64, _s: bool| it.next();
            let r = run_chunks(&cx, skip, &mut lim, limits.len() + 1);
            let max = run["max"].as_u64().unwrap();
            if let Some(st) = &r.last {
                let c = complete(&cx, st, max);
                println!("after limits {:?}: state {}; complete(state, {max}) = {}", r.limits, susp_json(&susp_of(st)), res_json(&c));
                bad = check_budget(&w, max, &c);
            } else {
                println!("the chunk prefix no longer ends suspended: {}", end_json(&r.end));
            }
        }
        "signal" => {
            let limit = run["limit"].as_u64().unwrap();
            let steps: Vec<(u64, u8)> = run["commands_us"].as_array().unwrap().iter().map(|p| (p[0].as_u64().unwrap(), p[1].as_u64().unwrap() as u8)).collect();
            let (r, _) = run_signal(&cx, rt, limit, &Sig::Timed(steps));
            println!("resumable_verify_with_signal({limit}) = {}", res_json(&r));
            bad = check_budget(&w, limit, &r);
        }
        "signal_at_pause" => {
            let limit = run["limit"].as_u64().unwrap();
            let (r, landed) = run_signal(&cx, rt, limit, &Sig::AtPause);
            println!("resumable_verify_with_signal({limit}), suspend at the debug pause (landed: {landed}) = {}", res_json(&r));
            bad = check_budget(&w, limit, &r);
        }
        k => println!("unknown run kind {k}"),
    }
    match bad {
        Some(m) => {
            println!("PROPERTY VIOLATED: {m}");
            std::process::exit(1)
        }
        None => {
            println!("property holds on this case now");
            std::process::exit(0)
        }
    }
}
