//! Transactions around the programs of /repo/script/testdata, built the way
//! script/src/verify/tests does (resolved transaction with the binaries as
//! cell deps, a mock data loader, a consensus with VM1 at epoch 5 and VM2 at
//! epoch 10, verification at epoch 10 so that data/data1/data2 scripts run on
//! VM 0/1/2 in one transaction).
use ckb_chain_spec::consensus::{Consensus, ConsensusBuilder, TYPE_ID_CODE_HASH};
use ckb_script::types::{DebugPrinter, SgData, VmContext, VmId};
use ckb_script::{generate_ckb_syscalls, TransactionScriptsVerifier, TxVerifyEnv};
use ckb_traits::{CellDataProvider, ExtensionProvider, HeaderProvider};
use ckb_types::{
    bytes::Bytes,
    core::{
        cell::{CellMeta, CellMetaBuilder, ResolvedTransaction},
        hardfork::{HardForks, CKB2021, CKB2023},
        Capacity, EpochNumberWithFraction, HeaderView, ScriptHashType, TransactionBuilder,
        TransactionInfo,
    },
    packed::{self, Byte32, CellInput, CellOutput, OutPoint, Script},
    prelude::*,
};
use ckb_vm::{registers::A7, Error as VMError, Register, SupportMachine, Syscalls};
use std::sync::atomic::{AtomicBool, AtomicU64, Ordering};
use std::sync::{Arc, Condvar, Mutex};

pub const TESTDATA: &str = "/repo/script/testdata";
pub const DEBUG_PAUSE: u64 = 2178;

#[derive(Default, Clone)]
pub struct MockDataLoader;
impl CellDataProvider for MockDataLoader {
    fn get_cell_data(&self, _out_point: &OutPoint) -> Option<Bytes> {
        None
    }
    fn get_cell_data_hash(&self, _out_point: &OutPoint) -> Option<Byte32> {
        None
    }
}
impl HeaderProvider for MockDataLoader {
    fn get_header(&self, _block_hash: &Byte32) -> Option<HeaderView> {
        None
    }
}
impl ExtensionProvider for MockDataLoader {
    fn get_block_extension(&self, _hash: &Byte32) -> Option<packed::Bytes> {
        None
    }
}

/// What the debug-pause syscall (2178, test programs `*_with_snapshot`,
/// `exec_callee_pause`) does in this verifier instance.
#[derive(Clone)]
pub struct PauseCtx {
    pub debug_printer: DebugPrinter,
    /// true: the syscall is a no-op
    pub skip: Arc<AtomicBool>,
    /// number of times the syscall was reached
    pub hits: Arc<AtomicU64>,
    /// when set, the syscall does not return `Pause` itself but parks the VM
    /// thread until the gate is opened (used to aim Suspend signals)
    pub gate: Option<Arc<Gate>>,
}

#[derive(Default)]
pub struct Gate {
    /// (number of arrivals, number of releases granted)
    pub st: Mutex<(u64, u64)>,
    pub cv: Condvar,
}
impl Gate {
    /// called by the VM thread
    fn arrive_and_wait(&self) {
        let mut g = self.st.lock().unwrap();
        g.0 += 1;
        let my = g.0;
        self.cv.notify_all();
        let deadline = std::time::Instant::now() + std::time::Duration::from_secs(5);
        while g.1 < my {
            let now = std::time::Instant::now();
            if now >= deadline {
                break;
            }
            let (ng, _) = self.cv.wait_timeout(g, deadline - now).unwrap();
            g = ng;
        }
    }
    /// called by the harness: wait until the VM arrived `n` times
    pub fn wait_arrival(&self, n: u64, ms: u64) -> bool {
        let mut g = self.st.lock().unwrap();
        let deadline = std::time::Instant::now() + std::time::Duration::from_millis(ms);
        while g.0 < n {
            let now = std::time::Instant::now();
            if now >= deadline {
                return false;
            }
            let (ng, _) = self.cv.wait_timeout(g, deadline - now).unwrap();
            g = ng;
        }
        true
    }
    pub fn release(&self, n: u64) {
        let mut g = self.st.lock().unwrap();
        if g.1 < n {
            g.1 = n;
        }
        self.cv.notify_all();
    }
    pub fn release_all(&self) {
        self.release(u64::MAX);
    }
}

pub struct PauseSyscall {
    ctx: PauseCtx,
}
impl<Mac: SupportMachine> Syscalls<Mac> for PauseSyscall {
    fn initialize(&mut self, _machine: &mut Mac) -> Result<(), VMError> {
        Ok(())
    }
    fn ecall(&mut self, machine: &mut Mac) -> Result<bool, VMError> {
        if machine.registers()[A7].to_u64() != DEBUG_PAUSE {
            return Ok(false);
        }
        self.ctx.hits.fetch_add(1, Ordering::SeqCst);
        if let Some(g) = &self.ctx.gate {
            g.arrive_and_wait();
            return Ok(true);
        }
        if self.ctx.skip.load(Ordering::SeqCst) {
            return Ok(true);
        }
        Err(VMError::Pause)
    }
}

pub fn gen_syscalls<DL, M>(
    vm_id: &VmId,
    sg_data: &SgData<DL>,
    vm_context: &VmContext<DL>,
    ctx: &PauseCtx,
) -> Vec<Box<dyn Syscalls<M>>>
where
    DL: CellDataProvider + HeaderProvider + ExtensionProvider + Send + Sync + Clone + 'static,
    M: SupportMachine,
{
    let mut v = generate_ckb_syscalls(vm_id, sg_data, vm_context, &ctx.debug_printer);
    v.push(Box::new(PauseSyscall { ctx: ctx.clone() }));
    v
}

pub type Verifier = TransactionScriptsVerifier<MockDataLoader, PauseCtx>;

pub fn consensus() -> Arc<Consensus> {
    let hardfork_switch = HardForks {
        ckb2021: CKB2021::new_mirana().as_builder().rfc_0032(5).build().unwrap(),
        ckb2023: CKB2023::new_mirana().as_builder().rfc_0049(10).build().unwrap(),
    };
    Arc::new(ConsensusBuilder::default().hardfork_switch(hardfork_switch).build())
}

pub fn new_pause_ctx(skip: bool, gate: Option<Arc<Gate>>) -> PauseCtx {
    PauseCtx {
        debug_printer: Arc::new(|_h: &Byte32, _m: &str| {}),
        skip: Arc::new(AtomicBool::new(skip)),
        hits: Arc::new(AtomicU64::new(0)),
        gate,
    }
}

pub fn build_verifier(rtx: &Arc<ResolvedTransaction>, cons: &Arc<Consensus>, ctx: PauseCtx) -> Verifier {
    let epoch = EpochNumberWithFraction::new(10, 0, 1);
    let header = HeaderView::new_advanced_builder().epoch(epoch).build();
    let tx_env = Arc::new(TxVerifyEnv::new_commit(&header));
    TransactionScriptsVerifier::new_with_generator(
        Arc::clone(rtx),
        MockDataLoader,
        Arc::clone(cons),
        tx_env,
        gen_syscalls,
        ctx,
    )
}

fn default_transaction_info() -> TransactionInfo {
    packed::TransactionInfoBuilder::default()
        .block_number(1u64)
        .block_epoch(0u64)
        .key(
            packed::TransactionKeyBuilder::default()
                .block_hash(Byte32::zero())
                .index(1u32)
                .build(),
        )
        .build()
        .into()
}

/// Re-packs a shared library so that the file content of every segment starts one page later in the
/// cell (ckb_dlopen2 then loads the executable segment with a NON-ZERO content offset); the bytes at
/// the old position of `.text` in the first page are replaced by `li a0, 1; ret`, which a correct
/// loader never reads.
fn shift_lib_content_by_one_page(lib: &[u8]) -> Vec<u8> {
    const PAGE: usize = 4096;
    let u16_at = |buf: &[u8], at: usize| u16::from_le_bytes(buf[at..at + 2].try_into().unwrap());
    let u64_at = |buf: &[u8], at: usize| u64::from_le_bytes(buf[at..at + 8].try_into().unwrap());
    fn add_u64(buf: &mut [u8], at: usize, delta: u64) {
        let v = u64::from_le_bytes(buf[at..at + 8].try_into().unwrap()) + delta;
        buf[at..at + 8].copy_from_slice(&v.to_le_bytes());
    }
    let phoff = u64_at(lib, 0x20) as usize;
    let shoff = u64_at(lib, 0x28) as usize;
    let (phentsize, phnum) = (u16_at(lib, 0x36) as usize, u16_at(lib, 0x38) as usize);
    let (shentsize, shnum) = (u16_at(lib, 0x3A) as usize, u16_at(lib, 0x3C) as usize);
    assert!(phoff + phentsize * phnum <= PAGE);
    let mut out = lib[..PAGE].to_vec();
    out.extend_from_slice(lib);
    add_u64(&mut out, 0x28, PAGE as u64);
    for i in 0..phnum {
        add_u64(&mut out, phoff + i * phentsize + 8, PAGE as u64);
    }
    let mut text = None;
    for i in 0..shnum {
        let sh = PAGE + shoff + i * shentsize;
        let sh_type = u32::from_le_bytes(out[sh..sh + 4].try_into().unwrap());
        let sh_flags = u64_at(&out, sh + 8);
        if sh_flags & 0x4 != 0 {
            text = Some((u64_at(&out, sh + 24) as usize, u64_at(&out, sh + 32) as usize));
        }
        if sh_type != 0 && sh_flags & 0x2 == 0 {
            add_u64(&mut out, sh + 24, PAGE as u64);
        }
    }
    let (text_offset, text_size) = text.expect(".text");
    assert!(text_size >= 8 && text_offset + 8 <= PAGE);
    out[text_offset..text_offset + 8].copy_from_slice(&[0x05, 0x45, 0x82, 0x80, 0x01, 0x00, 0x01, 0x00]);
    out
}

/// `name@shifted` = the file re-packed by shift_lib_content_by_one_page
pub fn load_cell(file: &str) -> (CellMeta, Byte32) {
    let (path, shifted) = match file.strip_suffix("@shifted") { Some(f) => (f, true), None => (file, false) };
    let data = std::fs::read(format!("{}/{}", TESTDATA, path)).unwrap_or_else(|e| panic!("{file}: {e}"));
    let data = if shifted { shift_lib_content_by_one_page(&data) } else { data };
    let cell_data = Bytes::from(data);
    let cell_output = CellOutput::new_builder()
        .capacity(Capacity::bytes(cell_data.len()).unwrap())
        .build();
    let cell_meta = CellMetaBuilder::from_cell_output(cell_output, cell_data)
        .transaction_info(default_transaction_info())
        .build();
    let data_hash = cell_meta.mem_cell_data_hash.as_ref().unwrap().to_owned();
    (cell_meta, data_hash)
}

/// One script of a transaction.
#[derive(Clone, Debug)]
pub struct Prog {
    /// label used in reports and replay files
    pub name: &'static str,
    /// main binary
    pub file: &'static str,
    /// binaries the program addresses by cell-dep index: they must sit at
    /// cell_deps[0..]; empty = found by data hash only ("floating")
    pub deps: &'static [&'static str],
    pub args: &'static [u8],
    /// script version 0/1/2 -> hash type data/data1/data2
    pub ver: u8,
    /// binary that has to be witness 0 (exec from witness)
    pub witness: Option<&'static str>,
    /// does the program reach the debug-pause syscall
    pub pauses: bool,
    /// the program ignores extra trailing script args (so a salt can make
    /// several distinct groups of it)
    pub salt_ok: bool,
}

/// Where a script is attached.
#[derive(Clone, Debug, PartialEq)]
pub enum Slot {
    /// lock of its own input
    Lock,
    /// lock shared by two inputs (one group, two cells)
    Lock2,
    /// type script of an output
    TypeOut,
}

#[derive(Clone, Debug)]
pub struct TxSpec {
    pub scripts: Vec<(Prog, Slot, u8)>, // program, slot, salt
    /// add a TYPE_ID type script (one input cell, one output cell)
    pub type_id: bool,
    /// 0 = none; 1..=3: a type script whose code_hash is the TYPE_ID constant but whose hash_type is data / data1 / data2:
    /// an ordinary script that resolves to no cell (ScriptNotFound) in every mode of execution
    pub fake_type_id: u8,
}

fn hash_type(ver: u8) -> ScriptHashType {
    match ver {
        0 => ScriptHashType::Data,
        1 => ScriptHashType::Data1,
        _ => ScriptHashType::Data2,
    }
}

pub fn build_rtx(spec: &TxSpec) -> Arc<ResolvedTransaction> {
    // cell deps: the anchored program's deps first, then every other binary
    let mut dep_files: Vec<&str> = Vec::new();
    for (p, _, _) in &spec.scripts {
        if !p.deps.is_empty() {
            assert!(dep_files.is_empty() || dep_files.iter().zip(p.deps.iter()).all(|(a, b)| a == b),
                    "two anchored programs with different cell-dep layouts");
            for (i, d) in p.deps.iter().enumerate() {
                if i >= dep_files.len() {
                    dep_files.push(d);
                }
            }
        }
    }
    for (p, _, _) in &spec.scripts {
        if !dep_files.contains(&p.file) {
            dep_files.push(p.file);
        }
    }
    let mut deps = Vec::new();
    let mut hashes = std::collections::HashMap::new();
    for f in &dep_files {
        let (c, h) = load_cell(f);
        deps.push(c);
        hashes.insert(f.to_string(), h);
    }
    let mut tb = TransactionBuilder::default();
    let mut resolved_inputs = Vec::new();
    let mut n_in = 0u32;
    let mut witness0: Option<Bytes> = None;
    let null_lock = Script::new_builder()
        .hash_type(hash_type(1))
        .code_hash(hashes.get("always_success").cloned().unwrap_or_else(|| load_cell("always_success").1))
        .build();
    let mut need_always_success = false;
    let mut add_input = |tb: TransactionBuilder, lock: Script, ty: Option<Script>, resolved: &mut Vec<CellMeta>, n_in: &mut u32| {
        let mut h = [0u8; 32];
        h[0] = 0x77;
        h[1] = *n_in as u8;
        let op = OutPoint::new(Byte32::from_slice(&h).unwrap(), *n_in);
        let input = CellInput::new(op.clone(), 0);
        let out = CellOutput::new_builder()
            .capacity(Capacity::bytes(1000).unwrap())
            .lock(lock)
            .type_(ty)
            .build();
        let meta = CellMetaBuilder::from_cell_output(out, Bytes::new())
            .out_point(op)
            .transaction_info(default_transaction_info())
            .build();
        resolved.push(meta);
        *n_in += 1;
        tb.input(input)
    };
    for (p, slot, salt) in &spec.scripts {
        let mut args = p.args.to_vec();
        if *salt != 0 {
            assert!(p.salt_ok);
            args.push(*salt);
        }
        let script = Script::new_builder()
            .hash_type(hash_type(p.ver))
            .code_hash(hashes[p.file].clone())
            .args(Bytes::from(args))
            .build();
        if let Some(w) = p.witness {
            witness0 = Some(Bytes::from(std::fs::read(format!("{}/{}", TESTDATA, w)).unwrap()));
        }
        match slot {
            Slot::Lock => {
                tb = add_input(tb, script, None, &mut resolved_inputs, &mut n_in);
            }
            Slot::Lock2 => {
                tb = add_input(tb, script.clone(), None, &mut resolved_inputs, &mut n_in);
                tb = add_input(tb, script, None, &mut resolved_inputs, &mut n_in);
            }
            Slot::TypeOut => {
                need_always_success = true;
                let out = CellOutput::new_builder()
                    .capacity(Capacity::bytes(500).unwrap())
                    .lock(null_lock.clone())
                    .type_(Some(script))
                    .build();
                tb = tb.output(out).output_data(Bytes::new());
            }
        }
    }
    if spec.type_id {
        need_always_success = true;
        let mut a = [0u8; 32];
        a[0] = 0x11;
        a[1] = 0x11;
        let type_id_script = Script::new_builder()
            .args(Bytes::from(a.to_vec()))
            .code_hash(TYPE_ID_CODE_HASH)
            .hash_type(ScriptHashType::Type)
            .build();
        tb = add_input(tb, null_lock.clone(), Some(type_id_script.clone()), &mut resolved_inputs, &mut n_in);
        let out = CellOutput::new_builder()
            .capacity(Capacity::bytes(990).unwrap())
            .lock(null_lock.clone())
            .type_(Some(type_id_script))
            .build();
        tb = tb.output(out).output_data(Bytes::new());
    }
    if spec.fake_type_id > 0 {
        need_always_success = true;
        let mut a = [0u8; 32];
        a[0] = 0x22;
        a[1] = spec.fake_type_id;
        let fake = Script::new_builder()
            .args(Bytes::from(a.to_vec()))
            .code_hash(TYPE_ID_CODE_HASH)
            .hash_type(hash_type(spec.fake_type_id - 1))
            .build();
        tb = add_input(tb, null_lock.clone(), Some(fake.clone()), &mut resolved_inputs, &mut n_in);
        let out = CellOutput::new_builder()
            .capacity(Capacity::bytes(990).unwrap())
            .lock(null_lock.clone())
            .type_(Some(fake))
            .build();
        tb = tb.output(out).output_data(Bytes::new());
    }
    if n_in == 0 {
        need_always_success = true;
        tb = add_input(tb, null_lock.clone(), None, &mut resolved_inputs, &mut n_in);
    }
    if need_always_success && !dep_files.contains(&"always_success") {
        deps.push(load_cell("always_success").0);
    }
    if let Some(w) = witness0 {
        tb = tb.set_witnesses(vec![w.into()]);
    }
    Arc::new(ResolvedTransaction {
        transaction: tb.build(),
        resolved_cell_deps: deps,
        resolved_inputs,
        resolved_dep_groups: vec![],
    })
}

macro_rules! prog {
    ($name:expr, $file:expr, $deps:expr, $args:expr, $ver:expr) => {
        Prog { name: $name, file: $file, deps: $deps, args: $args, ver: $ver, witness: None, pauses: false, salt_ok: false }
    };
}

/// The program table.  `floating` programs can be combined freely, at most
/// one `anchored` program (non-empty deps) per transaction.
pub fn programs() -> Vec<Prog> {
    let mut v = Vec::new();
    for ver in 0..=2u8 {
        v.push(Prog { salt_ok: true, ..prog!("always_success", "always_success", &[], &[], ver) });
        v.push(Prog { salt_ok: true, ..prog!("always_failure", "always_failure", &[], &[], ver) });
        v.push(Prog { salt_ok: true, ..prog!("jalr_zero", "jalr_zero", &[], &[], ver) });
    }
    // b-extension / mop: succeed on VM1/VM2, InvalidInstruction on VM0
    const CPOP_ARGS: &[u8] = &[8, 7, 6, 5, 4, 3, 2, 1, 13, 0, 0, 0, 0, 0, 0, 0];
    for ver in 0..=2u8 {
        v.push(prog!("cpop_lock", "cpop_lock", &[], CPOP_ARGS, ver));
        v.push(Prog { salt_ok: true, ..prog!("mop_adc_lock", "mop_adc_lock", &[], &[], ver) });
        v.push(Prog { salt_ok: true, ..prog!("cadd_hint_lock", "cadd_hint_lock", &[], &[], ver) });
    }
    for ver in 1..=2u8 {
        v.push(Prog { salt_ok: true, ..prog!("current_cycles", "current_cycles", &[], &[], ver) });
        v.push(Prog { salt_ok: true, pauses: true, ..prog!("current_cycles_with_snapshot", "current_cycles_with_snapshot", &[], &[], ver) });
        v.push(Prog { salt_ok: true, ..prog!("vm_version", "vm_version", &[], &[], ver) });
        v.push(Prog { salt_ok: true, pauses: true, ..prog!("vm_version_with_snapshot", "vm_version_with_snapshot", &[], &[], ver) });
        v.push(prog!("exec_from_cell_data", "exec_caller_from_cell_data", &["exec_caller_from_cell_data", "exec_callee"], &[], ver));
        v.push(Prog { pauses: true, ..prog!("exec_callee_pause", "exec_caller_from_cell_data", &["exec_caller_from_cell_data", "exec_callee_pause"], &[], ver) });
        v.push(Prog { witness: Some("exec_callee"), ..prog!("exec_from_witness", "exec_caller_from_witness", &[], &[], ver) });
        v.push(prog!("exec_wrong_callee", "exec_caller_from_cell_data", &["exec_caller_from_cell_data", "always_success", "is_even.lib"], &[], ver));
        v.push(prog!("exec_big_offset_length", "exec_caller_big_offset_length", &["exec_caller_big_offset_length", "exec_callee"], &[], ver));
    }
    // ckb_dlopen2 (load_cell_data_as_code): args = number (u64 LE) ++ data hash of the library; the
    // library is found among the cell deps by its data hash.  `@shifted`: its executable segment sits at a
    // non-zero offset of the cell.  is_even(number) decides: odd -> success, even -> failure.
    for ver in 0..=2u8 {
        for (lib, tag) in [("is_even.lib", "plain"), ("is_even.lib@shifted", "shifted")] {
            for number in [1u64, 2] {
                let mut a = number.to_le_bytes().to_vec();
                a.extend_from_slice(load_cell(lib).1.as_slice());
                let args: &'static [u8] = Box::leak(a.into_boxed_slice());
                let name: &'static str = Box::leak(format!("dlopen_is_even_{tag}_{number}").into_boxed_str());
                let deps: &'static [&'static str] = Box::leak(vec!["load_is_even_with_snapshot", lib].into_boxed_slice());
                v.push(Prog { pauses: true, ..prog!(name, "load_is_even_with_snapshot", deps, args, ver) });
            }
        }
    }
    v.push(Prog { salt_ok: true, ..prog!("vm_version_2", "vm_version_2", &[], &[], 2) });
    // spawn family (VM2)
    for c in 1..=19u8 {
        // leaked: one static slice per case id
        let args: &'static [u8] = Box::leak(vec![c].into_boxed_slice());
        let name: &'static str = Box::leak(format!("spawn_cases_{c}").into_boxed_str());
        v.push(prog!(name, "spawn_cases", &["spawn_cases"], args, 2));
    }
    v.push(prog!("spawn_strcat", "spawn_caller_strcat", &["spawn_caller_strcat", "spawn_callee_strcat"], &[], 2));
    v.push(prog!("spawn_exec", "spawn_caller_exec", &["spawn_caller_exec", "spawn_callee_exec_caller", "spawn_callee_exec_callee"], &[], 2));
    v.push(prog!("spawn_strcat_wrap", "spawn_caller_strcat_wrap", &["spawn_caller_strcat_wrap", "spawn_caller_strcat", "spawn_callee_strcat"], &[], 2));
    v.push(prog!("spawn_recursive", "spawn_recursive", &["spawn_recursive"], &[], 2));
    v.push(Prog { pauses: true, ..prog!("spawn_snapshot", "spawn_caller_exec", &["spawn_caller_exec", "current_cycles_with_snapshot"], &[], 2) });
    v.push(prog!("spawn_current_cycles", "spawn_caller_current_cycles", &["spawn_caller_current_cycles", "spawn_callee_current_cycles"], &[], 2));
    v.push(prog!("spawn_cycles", "spawn_cycles", &["spawn_cycles", "spawn_cycles"], &[], 2));
    const IO_ARGS: &[u8] = &[128, 0, 0, 0, 0, 0, 0, 0, 1, 0, 0, 0, 0, 0, 0, 0];
    v.push(prog!("spawn_io_cycles", "spawn_io_cycles", &["spawn_io_cycles"], IO_ARGS, 2));
    v.push(prog!("spawn_saturate_memory", "spawn_saturate_memory", &["spawn_saturate_memory"], &[0], 2));
    v.push(prog!("spawn_create_17_spawn", "spawn_create_17_spawn", &["spawn_create_17_spawn"], &[], 2));
    v
}
