//! C19, serving side: the component that SERVES chain roots and membership
//! proofs to light clients (util/light-client-protocol-server).  A
//! `LightClientProtocol` over the node's `Shared` is driven through
//! `CKBProtocolHandler::received` with well-formed `packed::LightClientMessage`
//! requests; every reply is decoded the way a client would and judged against
//! the property text, using nothing of the server but its reply bytes:
//!
//! * every served `last_header` / verifiable header is a block of the main
//!   chain, and the `parent_chain_root` sent with it is the MMR root over the
//!   main chain's header digests below it (recomputed structurally by
//!   `c19::expected`) and is the root that header commits in its extension;
//! * every MMR proof verifies against that root for exactly the headers the
//!   reply lists, which are main-chain blocks below the served last header;
//! * the items reported missing are exactly the requested ones that are not on
//!   the main chain, the proved ones exactly those that are;
//! * a request anchored (`last_hash`) at a hash that is not on the main chain —
//!   a stored block of an abandoned branch or an unknown hash — is answered
//!   with the current tip state: `last_header` = the tip, empty proof, no items.
//!   This is the reading of the schema comment on `SendLastStateProof.last_header`
//!   / `.proof` ("If the block whose hash is sent from the client is on the
//!   chain, then returns its verifiable header; otherwise, returns the
//!   verifiable header for the tip block in the server … [proof] be empty if
//!   the block hash sent from the client isn't on the chain") and of the
//!   `is_main_chain` guard at the top of every component's `execute`;
//! * nothing panics, a well-formed request is answered exactly once and does
//!   not get the peer banned.
//!
//! Requests the server defines as malformed (a repeated block hash), requests
//! with a repeated transaction hash, with items that are not ancestors of the
//! anchor, or with a start block above the anchor are a smaller boundary stream
//! judged leniently: no panic, and whatever is replied must still verify.
//! Requests anchored at the genesis block are judged strictly.
//!
//! Three defects of the unchanged server show up in these streams and are
//! recorded in /verif/known_findings.json (see `known_signature`): u64 underflow
//! in `reply_proof` for last_hash = genesis, u64 underflow in GetLastStateProof
//! for start_number > number(last_hash), and GetTransactionsProof accepting a
//! repeated tx hash (merkle-cbt assertion, or a merkle proof that does not verify).
use crate::node::Node;
use ckb_light_client_protocol_server::LightClientProtocol;
use ckb_merkle_mountain_range::{leaf_index_to_mmr_size, leaf_index_to_pos};
use ckb_network::{
    async_trait, bytes::Bytes as P2pBytes, Behaviour, CKBProtocolContext, CKBProtocolHandler, Error, Peer, PeerIndex,
    ProtocolId, SupportProtocols, TargetSession,
};
use ckb_store::ChainStore;
use ckb_types::core::{BlockView, ExtraHashView, HeaderView};
use ckb_types::packed::{self, Byte32};
use ckb_types::prelude::*;
use ckb_types::utilities::merkle_mountain_range::MMRProof;
use ckb_types::utilities::{merkle_root, MerkleProof};
use ckb_types::U256;
use hx_common::{hex, Rng};
use serde_json::{json, Value};
use std::collections::{BTreeMap, BTreeSet, HashMap};
use std::future::Future;
use std::pin::Pin;
use std::sync::{Arc, Mutex};
use std::task::{Context, Poll, Waker};
use std::time::Duration;

// ---------------------------------------------------------------------------
// a protocol context that records what the server does with it
// ---------------------------------------------------------------------------

#[derive(Default)]
struct Rec {
    sent: Vec<Vec<u8>>,
    bans: Vec<String>,
    other: Vec<&'static str>,
}

struct Ctx {
    rec: Mutex<Rec>,
}

impl Ctx {
    fn note(&self, what: &'static str) {
        self.rec.lock().unwrap().other.push(what);
    }
    fn push(&self, data: P2pBytes) -> Result<(), Error> {
        self.rec.lock().unwrap().sent.push(data.to_vec());
        Ok(())
    }
}

type Task = Pin<Box<dyn Future<Output = ()> + 'static + Send>>;

#[async_trait]
impl CKBProtocolContext for Ctx {
    async fn set_notify(&self, _interval: Duration, _token: u64) -> Result<(), Error> {
        self.note("set_notify");
        Ok(())
    }
    async fn remove_notify(&self, _token: u64) -> Result<(), Error> {
        self.note("remove_notify");
        Ok(())
    }
    async fn async_quick_send_message(&self, _p: ProtocolId, _peer: PeerIndex, data: P2pBytes) -> Result<(), Error> {
        self.push(data)
    }
    async fn async_quick_send_message_to(&self, _peer: PeerIndex, data: P2pBytes) -> Result<(), Error> {
        self.push(data)
    }
    async fn async_quick_filter_broadcast(&self, _t: TargetSession, _data: P2pBytes) -> Result<(), Error> {
        self.note("broadcast");
        Ok(())
    }
    async fn async_future_task(&self, _task: Task, _blocking: bool) -> Result<(), Error> {
        self.note("future_task");
        Ok(())
    }
    async fn async_send_message(&self, _p: ProtocolId, _peer: PeerIndex, data: P2pBytes) -> Result<(), Error> {
        self.push(data)
    }
    async fn async_send_message_to(&self, _peer: PeerIndex, data: P2pBytes) -> Result<(), Error> {
        self.push(data)
    }
    async fn async_filter_broadcast(&self, _t: TargetSession, _data: P2pBytes) -> Result<(), Error> {
        self.note("broadcast");
        Ok(())
    }
    async fn async_filter_broadcast_with_proto(&self, _p: ProtocolId, _t: TargetSession, _data: P2pBytes) -> Result<(), Error> {
        self.note("broadcast");
        Ok(())
    }
    async fn async_quick_filter_broadcast_with_proto(&self, _p: ProtocolId, _t: TargetSession, _data: P2pBytes) -> Result<(), Error> {
        self.note("broadcast");
        Ok(())
    }
    async fn async_disconnect(&self, _peer: PeerIndex, _message: &str) -> Result<(), Error> {
        self.note("disconnect");
        Ok(())
    }
    fn quick_send_message(&self, _p: ProtocolId, _peer: PeerIndex, data: P2pBytes) -> Result<(), Error> {
        self.push(data)
    }
    fn quick_send_message_to(&self, _peer: PeerIndex, data: P2pBytes) -> Result<(), Error> {
        self.push(data)
    }
    fn quick_filter_broadcast(&self, _t: TargetSession, _data: P2pBytes) -> Result<(), Error> {
        self.note("broadcast");
        Ok(())
    }
    fn quick_filter_broadcast_with_proto(&self, _p: ProtocolId, _t: TargetSession, _data: P2pBytes) -> Result<(), Error> {
        self.note("broadcast");
        Ok(())
    }
    fn future_task(&self, _task: Task, _blocking: bool) -> Result<(), Error> {
        self.note("future_task");
        Ok(())
    }
    fn send_message(&self, _p: ProtocolId, _peer: PeerIndex, data: P2pBytes) -> Result<(), Error> {
        self.push(data)
    }
    fn send_message_to(&self, _peer: PeerIndex, data: P2pBytes) -> Result<(), Error> {
        self.push(data)
    }
    fn filter_broadcast(&self, _t: TargetSession, _data: P2pBytes) -> Result<(), Error> {
        self.note("broadcast");
        Ok(())
    }
    fn disconnect(&self, _peer: PeerIndex, _message: &str) -> Result<(), Error> {
        self.note("disconnect");
        Ok(())
    }
    fn get_peer(&self, _peer: PeerIndex) -> Option<Peer> {
        None
    }
    fn with_peer_mut(&self, _peer: PeerIndex, _f: Box<dyn FnOnce(&mut Peer)>) {
        // GetLastState{subscribe: true} marks the peer; there is no peer registry here
        self.note("with_peer_mut");
    }
    fn connected_peers(&self) -> Vec<PeerIndex> {
        vec![]
    }
    fn full_relay_connected_peers(&self) -> Vec<PeerIndex> {
        vec![]
    }
    fn report_peer(&self, _peer: PeerIndex, _b: Behaviour) {
        self.note("report_peer");
    }
    fn ban_peer(&self, _peer: PeerIndex, _d: Duration, reason: String) {
        self.rec.lock().unwrap().bans.push(reason);
    }
    fn protocol_id(&self) -> ProtocolId {
        SupportProtocols::LightClient.protocol_id()
    }
}

/// Every future on this path (store reads, the recording context) is ready at
/// once; a future that stays pending is reported instead of waited for.
fn block_on<F: Future>(f: F) -> Option<F::Output> {
    let mut f = std::pin::pin!(f);
    let mut cx = Context::from_waker(Waker::noop());
    for _ in 0..100_000 {
        if let Poll::Ready(v) = f.as_mut().poll(&mut cx) {
            return Some(v);
        }
        std::thread::yield_now();
    }
    None
}

struct Exchange {
    replies: Vec<Vec<u8>>,
    bans: Vec<String>,
    panic: Option<String>,
    hung: bool,
}

fn exchange(node: &Node, request: &[u8]) -> Exchange {
    let ctx = Arc::new(Ctx { rec: Mutex::new(Rec::default()) });
    let nc: Arc<dyn CKBProtocolContext + Sync> = ctx.clone();
    let shared = node.shared.clone();
    let data = P2pBytes::from(request.to_vec());
    let r = std::panic::catch_unwind(std::panic::AssertUnwindSafe(move || {
        let mut protocol = LightClientProtocol::new(shared);
        block_on(protocol.received(nc, PeerIndex::new(1), data)).is_some()
    }));
    let rec = std::mem::take(&mut *ctx.rec.lock().unwrap_or_else(|e| e.into_inner()));
    let (panic, hung) = match r {
        Ok(done) => (None, !done),
        Err(p) => (Some(p.downcast_ref::<String>().cloned().or_else(|| p.downcast_ref::<&str>().map(|s| s.to_string())).unwrap_or_else(|| "?".into())), false),
    };
    Exchange { replies: rec.sent, bans: rec.bans, panic, hung }
}

// ---------------------------------------------------------------------------
// the client's view of the chain the proofs are about
// ---------------------------------------------------------------------------

struct World<'a> {
    main: &'a [BlockView],
    /// hash -> number, main chain only
    idx: HashMap<Byte32, u64>,
    /// roots[k] = MMR root over the digests of main[0..=k], recomputed structurally
    roots: Vec<packed::HeaderDigest>,
    /// transactions committed on the main chain: hash -> block number
    txs: HashMap<Byte32, u64>,
}

impl<'a> World<'a> {
    fn is_main(&self, h: &HeaderView) -> bool {
        self.idx.get(&h.hash()) == Some(&h.number())
    }

    /// P1/P2: a served verifiable header is a main-chain block and the chain root sent with it is
    /// the root of the main chain below it, committed in its extension; returns its number
    fn check_vh(&self, vh: &packed::VerifiableHeader, role: &str) -> Result<u64, String> {
        let header = vh.header().into_view();
        let n = header.number();
        if !self.is_main(&header) {
            return Err(format!("the served {role} (#{n} {}) is not a block of the main chain", hex(header.hash().as_slice())));
        }
        let pcr = vh.parent_chain_root();
        let ext: Option<packed::Bytes> = vh.extension().to_opt();
        if n == 0 {
            if !pcr.is_default() {
                return Err(format!("the served {role} is the genesis block but carries a non-default parent chain root"));
            }
        } else {
            if pcr.as_slice() != self.roots[n as usize - 1].as_slice() {
                return Err(format!("the parent chain root served with the {role} #{n} is not the MMR root over main-chain blocks 0..={}", n - 1));
            }
            let committed = ext.as_ref().map(|e| e.raw_data().starts_with(pcr.calc_mmr_hash().as_slice())).unwrap_or(false);
            if !committed {
                return Err(format!("the served {role} #{n} does not commit (extension[0..32]) to the chain root served with it"));
            }
        }
        let extra = ExtraHashView::new(vh.uncles_hash(), ext.map(|e| e.calc_raw_data_hash())).extra_hash();
        if extra != header.extra_hash() {
            return Err(format!("uncles hash / extension served with the {role} #{n} do not hash to the header's extra_hash"));
        }
        Ok(n)
    }

    /// P3: the MMR proof verifies against the root committed by the last header (#last) for exactly `leaves`,
    /// which are main-chain blocks below it
    fn check_mmr(&self, last: u64, proof: &packed::HeaderDigestVec, leaves: &[HeaderView]) -> Result<(), String> {
        if leaves.is_empty() {
            return Ok(());
        }
        if last == 0 {
            return Err("headers are listed as proved below a genesis last header".into());
        }
        let mut items = vec![];
        let mut seen = BTreeSet::new();
        for h in leaves {
            if !self.is_main(h) {
                return Err(format!("a header listed as proved (#{} {}) is not a block of the main chain", h.number(), hex(h.hash().as_slice())));
            }
            if h.number() >= last {
                return Err(format!("a header listed as proved (#{}) is not below the served last header #{last}", h.number()));
            }
            if !seen.insert(h.number()) {
                return Err(format!("header #{} is listed twice as proved", h.number()));
            }
            items.push((leaf_index_to_pos(h.number()), h.digest()));
        }
        items.sort_by_key(|(p, _)| *p);
        let root = self.roots[last as usize - 1].clone();
        let p = MMRProof::new(leaf_index_to_mmr_size(last - 1), proof.clone().into_iter().collect());
        match p.verify(root, items) {
            Ok(true) => Ok(()),
            Ok(false) => Err(format!("the served MMR proof does not verify against the root committed by the last header #{last} for the headers listed")),
            Err(e) => Err(format!("the served MMR proof does not verify against the root committed by the last header #{last}: {e}")),
        }
    }
}

fn sorted(mut v: Vec<Byte32>) -> Vec<Vec<u8>> {
    let mut r: Vec<Vec<u8>> = v.drain(..).map(|h| h.as_slice().to_vec()).collect();
    r.sort();
    r
}

#[derive(Clone, Copy, PartialEq)]
enum Anchor {
    /// a block of the main chain at this height
    Main(u64),
    /// stored block of an abandoned branch, or unknown
    NotMain,
}

#[derive(Clone, Copy, PartialEq)]
enum Class {
    /// distinct items; the main-chain ones are ancestors of the anchor
    Strict,
    /// duplicates / items at or above the anchor: no panic, and what is replied verifies
    Lenient,
}

enum Expect {
    LastState,
    Blocks { requested: Vec<Byte32> },
    Txs { requested: Vec<Byte32> },
    /// header numbers that must be among the served ones (when anchored on the main chain)
    StateProof { at_least: Vec<u64>, exactly: bool },
}

struct Req {
    kind: String,
    bytes: Vec<u8>,
    anchor: Anchor,
    class: Class,
    /// which boundary stream the request belongs to ("" = plain)
    tag: &'static str,
    expect: Expect,
}

fn msg(u: impl Into<packed::LightClientMessageUnion>) -> Vec<u8> {
    packed::LightClientMessage::new_builder().set(u).build().as_slice().to_vec()
}

/// the property predicates on one request/response exchange
fn judge(w: &World, rq: &Req, ex: &Exchange) -> Vec<String> {
    let mut v = vec![];
    if let Some(p) = &ex.panic {
        v.push(format!("the light-client server panicked: {p}"));
        return v;
    }
    if ex.hung {
        v.push("the light-client server did not finish processing the request".into());
        return v;
    }
    if rq.class == Class::Strict {
        if !ex.bans.is_empty() {
            v.push(format!("a well-formed request got the peer banned ({})", ex.bans[0].split(':').next().unwrap_or("")));
        }
        if ex.replies.len() != 1 {
            v.push(format!("a well-formed request was answered with {} messages", ex.replies.len()));
        }
    }
    let tip = w.main.len() as u64 - 1;
    for raw in &ex.replies {
        let m = match packed::LightClientMessageReader::from_compatible_slice(raw) {
            Ok(m) => m,
            Err(e) => { v.push(format!("the reply is not a LightClientMessage: {e}")); continue; }
        };
        // (last header, MMR proof, headers listed as proved)
        let (last, proof, leaves): (packed::VerifiableHeader, packed::HeaderDigestVec, Vec<HeaderView>);
        let mut items_empty = true;
        match (m.to_enum(), &rq.expect) {
            (packed::LightClientMessageUnionReader::SendLastState(r), Expect::LastState) => {
                last = r.last_header().to_entity();
                proof = Default::default();
                leaves = vec![];
            }
            (packed::LightClientMessageUnionReader::SendLastStateProof(r), Expect::StateProof { at_least, exactly }) => {
                last = r.last_header().to_entity();
                proof = r.proof().to_entity();
                let mut hs = vec![];
                let mut nums = BTreeSet::new();
                for vh in r.headers().to_entity().into_iter() {
                    items_empty = false;
                    match w.check_vh(&vh, "sampled header") {
                        Ok(n) => { nums.insert(n); }
                        Err(e) => v.push(e),
                    }
                    hs.push(vh.header().into_view());
                }
                leaves = hs;
                if let Anchor::Main(_) = rq.anchor {
                    if rq.class == Class::Strict {
                        let lacking: Vec<u64> = at_least.iter().filter(|n| !nums.contains(n)).cloned().collect();
                        if !lacking.is_empty() {
                            v.push(format!("the last-state proof lacks the headers {lacking:?} that the request's last_n_blocks / start block demand"));
                        }
                        if *exactly && nums.len() != at_least.len() {
                            v.push(format!("the last-state proof lists headers {nums:?}, requested were exactly {at_least:?}"));
                        }
                    }
                }
            }
            (packed::LightClientMessageUnionReader::SendBlocksProof(r), Expect::Blocks { requested }) => {
                last = r.last_header().to_entity();
                proof = r.proof().to_entity();
                leaves = r.headers().to_entity().into_iter().map(|h| h.into_view()).collect();
                let missing: Vec<Byte32> = r.missing_block_hashes().to_entity().into_iter().collect();
                items_empty = leaves.is_empty() && missing.is_empty();
                if r.field_count() >= 6 {
                    match packed::SendBlocksProofV1Reader::from_compatible_slice(r.as_slice()) {
                        Ok(r1) => {
                            let uh: Vec<Byte32> = r1.blocks_uncles_hash().to_entity().into_iter().collect();
                            let exts: Vec<packed::BytesOpt> = r1.blocks_extension().to_entity().into_iter().collect();
                            if uh.len() != leaves.len() || exts.len() != leaves.len() {
                                v.push("the blocks proof lists a different number of uncles hashes / extensions than headers".into());
                            } else {
                                for (i, h) in leaves.iter().enumerate() {
                                    let e = ExtraHashView::new(uh[i].clone(), exts[i].to_opt().map(|e| e.calc_raw_data_hash())).extra_hash();
                                    if e != h.extra_hash() {
                                        v.push(format!("uncles hash / extension served for proved header #{} do not hash to its extra_hash", h.number()));
                                    }
                                }
                            }
                        }
                        Err(e) => v.push(format!("the blocks proof does not parse as SendBlocksProofV1: {e}")),
                    }
                }
                if let (Anchor::Main(_), Class::Strict) = (rq.anchor, rq.class) {
                    let want_found: Vec<Byte32> = requested.iter().filter(|h| w.idx.contains_key(*h)).cloned().collect();
                    let want_missing: Vec<Byte32> = requested.iter().filter(|h| !w.idx.contains_key(*h)).cloned().collect();
                    if sorted(missing) != sorted(want_missing) {
                        v.push("the block hashes reported missing are not exactly the requested ones that are not on the main chain".into());
                    }
                    if sorted(leaves.iter().map(|h| h.hash()).collect()) != sorted(want_found) {
                        v.push("the headers listed as proved are not exactly the requested blocks that are on the main chain".into());
                    }
                }
            }
            (packed::LightClientMessageUnionReader::SendTransactionsProof(r), Expect::Txs { requested }) => {
                last = r.last_header().to_entity();
                proof = r.proof().to_entity();
                let missing: Vec<Byte32> = r.missing_tx_hashes().to_entity().into_iter().collect();
                let mut hs = vec![];
                let mut proved_txs: Vec<Byte32> = vec![];
                let fbs: Vec<packed::FilteredBlock> = r.filtered_blocks().to_entity().into_iter().collect();
                items_empty = fbs.is_empty() && missing.is_empty();
                for fb in &fbs {
                    let h = fb.header().into_view();
                    let hashes: Vec<Byte32> = fb.transactions().into_iter().map(|t| t.calc_tx_hash()).collect();
                    // the transactions are committed by that header: CBMT proof up to transactions_root
                    let mp = MerkleProof::new(fb.proof().indices().into_iter().map(|i| i.into()).collect(), fb.proof().lemmas().into_iter().collect());
                    let ok = mp.root(&hashes).map(|raw| merkle_root(&[raw, fb.witnesses_root()]) == h.transactions_root()).unwrap_or(false);
                    if !ok {
                        v.push(format!("the transactions served in the filtered block #{} are not proved by its merkle proof against the header's transactions_root", h.number()));
                    }
                    for t in &hashes {
                        if w.txs.get(t) != Some(&h.number()) && w.is_main(&h) {
                            v.push(format!("a transaction served in the filtered block #{} is not committed in that main-chain block", h.number()));
                        }
                        if !requested.contains(t) {
                            v.push(format!("a transaction served in the filtered block #{} was not requested", h.number()));
                        }
                    }
                    proved_txs.extend(hashes);
                    hs.push(h);
                }
                if r.field_count() >= 6 {
                    match packed::SendTransactionsProofV1Reader::from_compatible_slice(r.as_slice()) {
                        Ok(r1) => {
                            let uh: Vec<Byte32> = r1.blocks_uncles_hash().to_entity().into_iter().collect();
                            let exts: Vec<packed::BytesOpt> = r1.blocks_extension().to_entity().into_iter().collect();
                            if uh.len() != hs.len() || exts.len() != hs.len() {
                                v.push("the transactions proof lists a different number of uncles hashes / extensions than filtered blocks".into());
                            } else {
                                for (i, h) in hs.iter().enumerate() {
                                    let e = ExtraHashView::new(uh[i].clone(), exts[i].to_opt().map(|e| e.calc_raw_data_hash())).extra_hash();
                                    if e != h.extra_hash() {
                                        v.push(format!("uncles hash / extension served for filtered block #{} do not hash to its extra_hash", h.number()));
                                    }
                                }
                            }
                        }
                        Err(e) => v.push(format!("the transactions proof does not parse as SendTransactionsProofV1: {e}")),
                    }
                }
                leaves = hs;
                if let (Anchor::Main(_), Class::Strict) = (rq.anchor, rq.class) {
                    let want_found: Vec<Byte32> = requested.iter().filter(|h| w.txs.contains_key(*h)).cloned().collect();
                    let want_missing: Vec<Byte32> = requested.iter().filter(|h| !w.txs.contains_key(*h)).cloned().collect();
                    if sorted(missing) != sorted(want_missing) {
                        v.push("the transaction hashes reported missing are not exactly the requested ones that are not committed on the main chain".into());
                    }
                    if sorted(proved_txs) != sorted(want_found) {
                        v.push("the transactions served as proved are not exactly the requested ones that are committed on the main chain".into());
                    }
                }
            }
            (other, _) => {
                v.push(format!("the request was answered with a {}", other.item_name()));
                continue;
            }
        }
        let n = match w.check_vh(&last, "last header") {
            Ok(n) => n,
            Err(e) => { v.push(e); continue; }
        };
        match rq.anchor {
            Anchor::Main(a) => {
                if !matches!(rq.expect, Expect::LastState) && n != a {
                    v.push(format!("the request is anchored at main-chain block #{a} but the served last header is #{n}"));
                }
            }
            Anchor::NotMain => {
                if n != tip {
                    v.push(format!("the request is anchored at a hash that is not on the main chain; the served last header #{n} is not the tip #{tip}"));
                }
                if !items_empty || !proof.is_empty() {
                    v.push("the request is anchored at a hash that is not on the main chain; the reply is not the bare tip state (it carries proved / missing items or a proof)".into());
                }
            }
        }
        if matches!(rq.expect, Expect::LastState) && n != tip {
            v.push(format!("GetLastState was answered with #{n}, the tip is #{tip}"));
        }
        if let Err(e) = w.check_mmr(n, &proof, &leaves) {
            v.push(e);
        }
    }
    v
}

fn pick_distinct(rng: &mut Rng, pool: &[Byte32], lo: u64, hi: u64) -> Vec<Byte32> {
    let k = rng.range(lo, hi) as usize;
    let mut out: Vec<Byte32> = vec![];
    for _ in 0..k * 3 {
        if out.len() >= k || pool.is_empty() { break; }
        let c = rng.pick(pool).clone();
        if !out.contains(&c) { out.push(c); }
    }
    out
}

fn unknown_hash(rng: &mut Rng) -> Byte32 {
    let mut b = [0u8; 32];
    for c in b.chunks_mut(8) { c.copy_from_slice(&rng.next().to_le_bytes()); }
    b.pack()
}

fn shuffle<T>(rng: &mut Rng, v: &mut Vec<T>) {
    for i in (1..v.len()).rev() {
        let j = rng.below(i as u64 + 1) as usize;
        v.swap(i, j);
    }
}

/// Drives the light-client protocol server of `node` and returns the violated predicates.
/// `main`: the main chain, genesis first.  `stale`: blocks of abandoned branches.
pub fn probe(node: &Node, main: &[BlockView], stale: &[BlockView], rng: &mut Rng, stats: &mut BTreeMap<String, u64>) -> Vec<Value> {
    let headers: Vec<HeaderView> = main.iter().map(|b| b.header()).collect();
    let (_, roots) = crate::c19::expected(&headers);
    let mut w = World { main, idx: HashMap::new(), roots, txs: HashMap::new() };
    for b in main {
        w.idx.insert(b.hash(), b.number());
        for t in b.transactions() { w.txs.insert(t.hash(), b.number()); }
    }
    let tip = main.len() as u64 - 1;
    let snap = node.shared.snapshot();
    let stale: Vec<&BlockView> = stale.iter().filter(|b| !w.idx.contains_key(&b.hash())).collect();
    let stale_stored: Vec<Byte32> = stale.iter().filter(|b| snap.get_block_header(&b.hash()).is_some()).map(|b| b.hash()).collect();
    let mut stale_txs: Vec<Byte32> = vec![];
    for b in &stale {
        for t in b.transactions() {
            if !w.txs.contains_key(&t.hash()) && !stale_txs.contains(&t.hash()) { stale_txs.push(t.hash()); }
        }
    }
    // total difficulty up to each main-chain block (request parameters only)
    let td: Vec<U256> = main.iter().map(|b| snap.get_block_ext(&b.hash()).map(|e| e.total_difficulty).unwrap_or_default()).collect();

    // ---- anchors -------------------------------------------------------------
    let mut anchors: Vec<(&'static str, Byte32, Anchor)> = vec![];
    if tip >= 1 { anchors.push(("tip", main[tip as usize].hash(), Anchor::Main(tip))); }
    if tip >= 2 {
        let a = rng.range(1, tip - 1);
        anchors.push(("older", main[a as usize].hash(), Anchor::Main(a)));
    }
    if rng.chance(1, 10) || tip == 0 { anchors.push(("genesis", main[0].hash(), Anchor::Main(0))); }
    if !stale_stored.is_empty() { anchors.push(("stale", rng.pick(&stale_stored).clone(), Anchor::NotMain)); }
    if stale_stored.len() >= 2 && rng.chance(1, 2) { anchors.push(("stale", rng.pick(&stale_stored).clone(), Anchor::NotMain)); }
    anchors.push(("unknown", unknown_hash(rng), Anchor::NotMain));

    let mut reqs: Vec<Req> = vec![];
    // ---- GetLastState ----------------------------------------------------------
    let sub = rng.chance(1, 3);
    reqs.push(Req {
        kind: format!("GetLastState{{subscribe: {sub}}}"),
        bytes: msg(packed::GetLastState::new_builder().subscribe(sub).build()),
        anchor: Anchor::Main(tip), class: Class::Strict, tag: "", expect: Expect::LastState,
    });
    for (aname, ahash, anchor) in &anchors {
        let below: u64 = match anchor { Anchor::Main(a) => *a, Anchor::NotMain => tip + 1 };
        // ---- GetBlocksProof ------------------------------------------------------
        {
            let pool_main: Vec<Byte32> = main[..below as usize].iter().map(|b| b.hash()).collect();
            let mut want = pick_distinct(rng, &pool_main, 0, 4);
            let pool_stale: Vec<Byte32> = stale.iter().map(|b| b.hash()).filter(|h| h != ahash).collect();
            want.extend(pick_distinct(rng, &pool_stale, 0, 2));
            if rng.chance(1, 3) || want.is_empty() { want.push(unknown_hash(rng)); }
            shuffle(rng, &mut want);
            let mut class = Class::Strict;
            let mut variant = "";
            let mut tag = "";
            match rng.below(10) {
                0 => { let d = want[0].clone(); want.push(d); class = Class::Lenient; variant = ", one hash twice"; tag = "dup"; }
                1 if below <= tip => {
                    // a main-chain block that is not an ancestor of the anchor
                    let n = rng.range(below, tip);
                    if main[n as usize].hash() != *ahash { want.push(main[n as usize].hash()); class = Class::Lenient; variant = ", one block at/above the anchor"; tag = "above"; }
                }
                _ => {}
            }
            reqs.push(Req {
                kind: format!("GetBlocksProof{{last_hash: {aname}, {} block hashes{variant}}}", want.len()),
                bytes: msg(packed::GetBlocksProof::new_builder().last_hash(ahash.clone()).block_hashes(want.clone()).build()),
                anchor: *anchor, class, tag, expect: Expect::Blocks { requested: want },
            });
        }
        // ---- GetTransactionsProof ------------------------------------------------
        {
            let pool_main: Vec<Byte32> = main[..below as usize].iter().flat_map(|b| b.transactions().into_iter().map(|t| t.hash())).collect();
            let mut want = pick_distinct(rng, &pool_main, 0, 5);
            want.extend(pick_distinct(rng, &stale_txs, 0, 2));
            if rng.chance(1, 3) || want.is_empty() { want.push(unknown_hash(rng)); }
            shuffle(rng, &mut want);
            let mut class = Class::Strict;
            let mut variant = "";
            let mut tag = "";
            match rng.below(10) {
                0 => { let d = want[0].clone(); want.push(d); class = Class::Lenient; variant = ", one hash twice"; tag = "dup"; }
                1 if below <= tip => {
                    let n = rng.range(below, tip);
                    want.push(main[n as usize].transactions()[0].hash());
                    class = Class::Lenient;
                    variant = ", one transaction of a block at/above the anchor";
                    tag = "above";
                }
                _ => {}
            }
            reqs.push(Req {
                kind: format!("GetTransactionsProof{{last_hash: {aname}, {} tx hashes{variant}}}", want.len()),
                bytes: msg(packed::GetTransactionsProof::new_builder().last_hash(ahash.clone()).tx_hashes(want.clone()).build()),
                anchor: *anchor, class, tag, expect: Expect::Txs { requested: want },
            });
        }
        // ---- GetLastStateProof -----------------------------------------------------
        {
            let last = match anchor { Anchor::Main(a) => *a, Anchor::NotMain => tip };
            let shape = rng.below(4);
            let mut class = Class::Strict;
            let mut tag = "";
            let (start, start_hash, last_n, boundary, diffs, at_least, exactly, sname): (u64, Byte32, u64, U256, Vec<U256>, Vec<u64>, bool, &str) = if shape == 0 || last < 3 {
                // everything from genesis
                let n = last + rng.below(3);
                (0, main[0].hash(), n, td[0].clone(), vec![], (0..last).collect(), true, "from genesis, all blocks")
            } else if rng.chance(1, 12) {
                // the start block is not below the anchor: nothing can be proved; judged leniently
                class = Class::Lenient;
                let s = last + rng.below(3);
                if s > last { tag = "start-above"; }
                let sh = if s <= tip && rng.chance(1, 2) { main[s as usize].hash() } else { unknown_hash(rng) };
                (s, sh, rng.range(0, 3), td[last as usize].clone(), vec![], vec![], false, "start block at/above the anchor")
            } else {
                // a proved start block s, the last n blocks, a difficulty boundary at block bb, samples between
                let s = rng.range(if shape == 1 { 0 } else { 1 }, last - 2);
                let n = rng.range(0, last - s);
                let bb = rng.range(s, last - 1);
                let boundary = td[bb as usize].clone();
                let mut ds: Vec<U256> = vec![];
                for b in s..bb {
                    if rng.chance(1, 2) {
                        let d = if rng.chance(1, 2) { td[b as usize].clone() } else { td[b as usize].clone() - U256::one() };
                        let above_start = s == 0 || d > td[s as usize - 1];
                        if above_start && d < boundary && ds.last().map(|l| *l < d).unwrap_or(true) { ds.push(d); }
                    }
                }
                let matching = s == 0 || shape != 3;
                let sh = if matching { main[s as usize].hash() } else if !stale_stored.is_empty() && rng.chance(1, 2) { rng.pick(&stale_stored).clone() } else { unknown_hash(rng) };
                let mut need: Vec<u64> = (std::cmp::max(s, last.saturating_sub(n))..last).collect();
                if !matching { need.extend(s - std::cmp::min(s, n)..s); }
                need.sort();
                (s, sh, n, boundary, ds, need, false, if matching { "start block on the chain, sampled" } else { "start hash not on the chain, sampled" })
            };
            let content = packed::GetLastStateProof::new_builder()
                .last_hash(ahash.clone())
                .start_hash(start_hash)
                .start_number(start)
                .last_n_blocks(last_n)
                .difficulty_boundary(boundary)
                .difficulties(packed::Uint256Vec::new_builder().extend(diffs.iter().map(|d| { let p: packed::Uint256 = d.into(); p })).build())
                .build();
            reqs.push(Req {
                kind: format!("GetLastStateProof{{last_hash: {aname}, start_number: {start}, last_n_blocks: {last_n}, {} difficulties; {sname}}}", diffs.len()),
                bytes: msg(content),
                anchor: *anchor, class, tag, expect: Expect::StateProof { at_least, exactly },
            });
        }
    }

    // ---- run and judge ---------------------------------------------------------
    let mut out = vec![];
    for rq in &reqs {
        let ex = exchange(node, &rq.bytes);
        let key = rq.kind.split('{').next().unwrap_or("");
        *stats.entry(format!("lc_{key}")).or_default() += 1;
        *stats.entry("lc_requests".into()).or_default() += 1;
        match rq.anchor {
            Anchor::NotMain => *stats.entry("lc_requests_anchored_off_main_chain".into()).or_default() += 1,
            Anchor::Main(0) if !matches!(rq.expect, Expect::LastState) => *stats.entry("lc_requests_anchored_at_genesis".into()).or_default() += 1,
            _ => {}
        }
        if !rq.tag.is_empty() { *stats.entry(format!("lc_requests_boundary_{}", rq.tag)).or_default() += 1; }
        if ex.replies.is_empty() && ex.panic.is_none() {
            *stats.entry(if rq.tag.is_empty() { "lc_requests_unanswered".to_string() } else { format!("lc_requests_unanswered_{}", rq.tag) }).or_default() += 1;
        }
        if !ex.bans.is_empty() { *stats.entry(if rq.tag.is_empty() { "lc_requests_banned".to_string() } else { format!("lc_requests_banned_{}", rq.tag) }).or_default() += 1; }
        let problems = judge(&w, rq, &ex);
        if let Some(p) = problems.first() {
            let sig = known_signature(rq, &problems);
            if let Some(sig) = sig {
                // recorded defects of the unchanged server: a few witnesses per run are enough
                let mut seen = KNOWN_EMITTED.lock().unwrap_or_else(|e| e.into_inner());
                let n = seen.entry(sig).or_default();
                *n += 1;
                *stats.entry(format!("lc_known_{sig}")).or_default() += 1;
                if *n > 3 { continue; }
            } else if out.iter().filter(|o: &&Value| o.get("signature").is_none()).count() >= 4 {
                continue;
            }
            let mut o = json!({
                "what": format!("light-client server, {}: {}", key, p),
                "detail": {"request": rq.kind, "request_bytes": hex(&rq.bytes), "all_problems": problems,
                           "replies": ex.replies.iter().map(|r| { let h = hex(r); if h.len() > 1200 { format!("{}… ({} bytes)", &h[..1200], r.len()) } else { h } }).collect::<Vec<_>>(),
                           "bans": ex.bans, "main_chain_tip": tip},
            });
            if let Some(sig) = sig { o["signature"] = json!(sig); }
            out.push(o);
        }
    }
    out
}

static KNOWN_EMITTED: Mutex<BTreeMap<&'static str, u32>> = Mutex::new(BTreeMap::new());

/// Defects of the unchanged server recorded in /verif/known_findings.json (property C19).  A signature is
/// attached only when EVERY problem of the exchange belongs to that class of input and of failure.
fn known_signature(rq: &Req, problems: &[String]) -> Option<&'static str> {
    let underflow = problems.len() == 1 && problems[0].contains("panicked") && problems[0].contains("subtract with overflow");
    let proof_request = !matches!(rq.expect, Expect::LastState);
    if underflow && proof_request && rq.tag == "start-above" {
        // GetLastStateProof, start_number > number(last_hash): `last_block_number - start_block_number`
        return Some("lc-get-last-state-proof-start-above-last-hash-underflow");
    }
    if underflow && proof_request && rq.anchor == Anchor::Main(0) {
        // any proof request with last_hash = genesis: reply_proof computes `last_block.number() - 1`
        return Some("lc-proof-request-anchored-at-genesis-underflow");
    }
    if matches!(rq.expect, Expect::Txs { .. }) && rq.tag == "dup"
        && problems.iter().all(|p| (p.contains("panicked") && p.contains("queue.is_empty()")) || p.contains("are not proved by its merkle proof"))
    {
        // GetTransactionsProof does not reject a repeated tx hash (GetBlocksProof does): CBMT::build_merkle_proof gets a
        // repeated index — assertion in merkle-cbt when the block has one transaction, else a proof that does not verify
        return Some("lc-get-transactions-proof-repeated-tx-hash");
    }
    None
}
