//! hx-chain <Cxx>: correspondence harness for the properties that are observed
//! on the real chain service (ckb-chain + ckb-shared + ckb-store).
mod c20;
mod node;

use hx_common::*;
use serde_json::json;
use std::fs;

fn main() {
    let prop = std::env::args().nth(1).expect("usage: hx-chain <Cxx>");
    let seed = seed();
    let thorough = tier_is_thorough();
    let out = out_dir(&prop);
    for e in fs::read_dir(&out).unwrap().flatten() {
        let n = e.file_name().to_string_lossy().to_string();
        if n.starts_with("cases_") || n == "summary.json" {
            let _ = fs::remove_file(e.path());
        }
    }
    let scratch = scratch_dir(&prop);
    let (o, rule) = match prop.as_str() {
        "C20" => (
            c20::run(seed, thorough, &out, &scratch),
            "stream chain: histories of extensions (with uncles carrying proposals), forks that take over from any depth, truncations and restarts on a real node, windows (2,10),(1,3),(2,4),(3,3),(1,1); after every tip change the snapshot's proposal view is compared with the window recomputed from the stored main chain and with the Coq model. stream table: random insert/remove/finalize sequences on ProposalTable. distinct = distinct histories; every history has >= 3 operations",
        ),
        _ => panic!("unknown property {prop}"),
    };
    let _ = fs::remove_dir_all(&scratch);
    let summary = json!({
        "property": prop, "seed": seed,
        "evaluations": o.evaluations, "distinct_nontrivial": o.distinct.len(),
        "rule": rule, "distribution": o.stats, "samples": o.samples,
        "impl_violations": o.viol,
    });
    fs::write(out.join("summary.json"), serde_json::to_string_pretty(&summary).unwrap()).unwrap();
    println!("hx-chain {}: {} evaluations, {} implementation-side violations", prop, o.evaluations, o.viol.len());
}
