//! hx-chain <Cxx>: correspondence harness for the properties that are observed
//! on the real chain service (ckb-chain + ckb-shared + ckb-store).
mod c01;
mod c02;
mod c03;
mod c08;
mod c10;
mod c19;
mod c20;
mod hist;
mod lightclient;
mod node;
mod tree;

use hx_common::*;
use serde_json::{json, Value};
use std::collections::BTreeMap;
use std::fs;

struct RemoveOnDrop(Option<std::path::PathBuf>);
impl Drop for RemoveOnDrop {
    fn drop(&mut self) { if let Some(p) = &self.0 { let _ = fs::remove_file(p); } }
}

pub struct Summary {
    pub viol: Vec<Value>,
    pub evaluations: u64,
    pub distinct: usize,
    pub stats: BTreeMap<String, u64>,
    pub samples: Vec<Value>,
    pub rule: &'static str,
}

/// The executable child processes are spawned from: a private copy taken when the run starts, so that
/// a rebuild of the harness during a long run does not pull the binary from under it.
pub fn self_exe() -> std::path::PathBuf {
    match std::env::var("HX_SELF_EXE") { Ok(p) => std::path::PathBuf::from(p), Err(_) => std::env::current_exe().expect("current exe") }
}

fn main() {
    let prop = std::env::args().nth(1).expect("usage: hx-chain <Cxx>");
    let mut private_copy: Option<std::path::PathBuf> = None;
    if std::env::var("HX_SELF_EXE").is_err() && !prop.ends_with("-child") {
        let dir = out_dir(&prop);
        for e in fs::read_dir(&dir).unwrap().flatten() {
            if e.file_name().to_string_lossy().starts_with("hx-self-") { let _ = fs::remove_file(e.path()); }
        }
        let copy = dir.join(format!("hx-self-{}", std::process::id()));
        if fs::copy(std::env::current_exe().expect("current exe"), &copy).is_ok() {
            std::env::set_var("HX_SELF_EXE", &copy);
            private_copy = Some(copy);
        }
    }
    let _cleanup = RemoveOnDrop(private_copy);
    if prop == "C10-child" {
        c10::child(std::path::Path::new(&std::env::args().nth(2).expect("dir")));
    }
    if prop == "C08-child" {
        c08::child(std::path::Path::new(&std::env::args().nth(2).expect("dir")));
    }
    let thorough = tier_is_thorough();
    let out = out_dir(&prop);
    let in_shard = std::env::var("HX_SHARD").is_ok();
    if thorough && !in_shard && std::env::var("HX_REPLAY").is_err() && env_u64("HX_SHARDS", 16) > 1 {
        run_sharded(&prop, &out);
        return;
    }
    // a shard explores its own part of the seed space
    let seed = if in_shard { seed().wrapping_mul(1_000_003).wrapping_add(env_u64("HX_SHARD", 0) + 1) } else { seed() };
    for e in fs::read_dir(&out).unwrap().flatten() {
        let n = e.file_name().to_string_lossy().to_string();
        if n.starts_with("cases_") || n == "summary.json" {
            let _ = fs::remove_file(e.path());
        }
    }
    let scratch = scratch_dir(&prop);
    let s: Summary = match prop.as_str() {
        "C01" => {
            let r = c01::run(seed, thorough, &out);
            Summary { viol: r.viol, evaluations: r.evaluations, distinct: r.distinct.len(), stats: r.stats, samples: r.samples,
                rule: "random block trees (5..26 blocks quick, ..60 thorough; fork bias 10/25/45 %; genesis epoch of 3/4/6/9/1000 blocks so that branches get different difficulties after the first epoch; 0/6/12 % contextually invalid blocks (DAO field, cellbase reward), 0/4 % non-contextually invalid (transactions root)) x delivery schedules (in order, reversed, neighbour swaps, random permutation, early block withheld; 10 % duplicates) delivered asynchronously to a real node; after every delivery the node is observed at quiescence. distinct = distinct (tree, schedule); all have >= 5 blocks" }
        }
        "C02" => {
            let r = c02::run(seed, thorough, &out, &scratch);
            Summary { viol: r.viol, evaluations: r.evaluations, distinct: r.distinct.len(), stats: r.stats, samples: r.samples,
                rule: "histories on a real on-disk node: extensions with fee-paying transactions (proposed, then committed inside the window; in-block chains, conflicting spends, re-commits of the same transaction on a competing branch, uncles), competing branches that take over (longer, or shorter but heavier after the first epoch), truncations, restarts; after every change of the main chain COLUMN_CELL / TRANSACTION_INFO / INDEX / UNCLES are dumped by iteration from the store and from the published snapshot and compared with a replay of the main chain (property predicate) and with the Coq model's reorg; second stream: the blocks of such a history are delivered asynchronously to a fresh node while a reader thread keeps taking Shared::snapshot() and checks every snapshot against a replay of that snapshot's own main chain. distinct = distinct histories, each >= 5 steps" }
        }
        "C03" => {
            let r = c03::run(seed, thorough, &out);
            Summary { viol: r.viol, evaluations: r.evaluations, distinct: r.distinct.len(), stats: r.stats, samples: r.samples,
                rule: "chain contexts (windows (2,4),(2,5),(1,3),(2,10); transactions proposed at distance w_far, w_close, w_close-1, w_far+1 and never; uncle candidates built as siblings of main-chain blocks) on a real node; the next block is offered through HeaderVerifier + chain service in ~13 valid variants sitting on rule boundaries (timestamp = median+1, = now+15 s, commits exactly at w_close / w_far, two uncles, proposals at the limit) and ~30 mutants breaking exactly one rule (number, epoch continuity / malformed, timestamp old / new, target, cellbase count / position / outputs, duplicate tx / proposal, roots, proposal limit, uncle count / duplicate / main-chain block / number / parent / epoch / target / proposals, commit window too recent / too old / never proposed, reward, DAO, extension root / length); after each refusal tip and canonical columns must be unchanged; a heavier extension of a refused branch must not become canonical. distinct = distinct (context, variant)" }
        }
        "C08" => {
            let r = c08::run(seed, thorough, &out, &scratch);
            Summary { viol: r.viol, evaluations: r.evaluations, distinct: r.distinct.len(), stats: r.stats, samples: r.samples,
                rule: "histories with transactions and competing branches are imported by a child process over an on-disk DB (sequentially, or all blocks delivered asynchronously); a reference run logs every write to the database (transaction commits, write batches: before and after each); for every such point (all of them up to 45 quick / 400 thorough per history, otherwise first/last third plus a sample) the child is aborted there, the parent re-opens the DB, waits for the start-up recovery (InitLoadUnverified), checks the C02 replay consistency of the stored columns and that stored-but-unverified blocks were picked up, redelivers all blocks and compares tip, total difficulty and columns with the run that never crashed. distinct = distinct (history, crash point)" }
        }
        "C10" => {
            let r = c10::run(seed, thorough, &out, &scratch);
            Summary { viol: r.viol, evaluations: r.evaluations, distinct: r.distinct.len(), stats: r.stats, samples: r.samples,
                rule: "on-disk nodes with a freezer grow chains through several short epochs (transactions, uncles, short side branches at heights that become frozen); every answer the property lists (block as view and packed, header, body, tx hashes, cellbase, uncles, proposals, extension, every transaction with its location, ancestor lookup, cell status of every output) is recorded for every main-chain block, then one freeze pass runs (hook) and the answers are compared before / after / after a restart; the freezer number is checked against the two-epoch threshold; then the freeze pass runs in a child process that is aborted at every database write and at (a sample of) every freezer file write, the parent re-opens and compares again, runs a further pass and compares again. distinct = distinct (chain, crash point)" }
        }
        "C19" => {
            let r = c19::run(seed, thorough, &out, &scratch);
            Summary { viol: r.viol, evaluations: r.evaluations, distinct: r.distinct.len(), stats: r.stats, samples: r.samples,
                rule: "the histories of C02 (transactions, reorganisations incl. to shorter-but-heavier chains, truncations, restarts); after every main-chain change: every COLUMN_CHAIN_ROOT_MMR position below mmr_size(tip+1), chain_root_mmr(n).get_root() for every n <= tip and the root committed in every main-chain block's extension are compared byte-for-byte with an MMR recomputed structurally from the main chain's header digests (blake2b merges included); membership proofs for random leaf sets are verified against the right root, a neighbouring root and with a foreign digest; block filters are built (lazily, not after every change) and checked for the hash chain and for matching every output / spent-input script. The Coq model recomputes the numeric digest fields (start, end, total difficulty) of all nodes and roots. distinct = distinct histories" }
        }
        "C20" => {
            let r = c20::run(seed, thorough, &out, &scratch);
            Summary { viol: r.viol, evaluations: r.evaluations, distinct: r.distinct.len(), stats: r.stats, samples: r.samples,
                rule: "stream chain: histories of extensions (with uncles carrying proposals), forks that take over from any depth, truncations and restarts on a real node, windows (2,10),(1,3),(2,4),(3,3),(1,1); after every tip change the snapshot's proposal view is compared with the window recomputed from the stored main chain and with the Coq model. stream table: random insert/remove/finalize sequences on ProposalTable. distinct = distinct histories; every history has >= 3 operations" }
        }
        _ => panic!("unknown property {prop}"),
    };
    let _ = fs::remove_dir_all(&scratch);
    let summary = json!({
        "property": prop, "seed": seed,
        "evaluations": s.evaluations, "distinct_nontrivial": s.distinct,
        "rule": s.rule, "distribution": s.stats, "samples": s.samples,
        "impl_violations": s.viol,
    });
    fs::write(out.join("summary.json"), serde_json::to_string_pretty(&summary).unwrap()).unwrap();
    println!("hx-chain {}: {} evaluations, {} implementation-side violations", prop, s.evaluations, s.viol.len());
}

/// Every node of a process leaves threads and caches behind that only the
/// process-wide exit signal would stop (the header map's sled instance and its
/// memory-limit task), so a thorough run, which opens thousands of nodes, is
/// split over child processes; their case files and summaries are merged here.
fn run_sharded(prop: &str, out: &std::path::Path) {
    let n = env_u64("HX_SHARDS", 16);
    let par = env_u64("HX_SHARD_PAR", 4).max(1) as usize;
    for e in fs::read_dir(out).unwrap().flatten() {
        let name = e.file_name().to_string_lossy().to_string();
        if name.starts_with("cases_") || name == "summary.json" {
            let _ = fs::remove_file(e.path());
        }
    }
    let shards_dir = out.join("shards");
    let _ = fs::remove_dir_all(&shards_dir);
    let exe = self_exe();
    let mut pending: Vec<u64> = (0..n).rev().collect();
    let mut running: Vec<(u64, std::process::Child)> = vec![];
    let mut failed: Vec<String> = vec![];
    while !pending.is_empty() || !running.is_empty() {
        while running.len() < par && !pending.is_empty() {
            let i = pending.pop().unwrap();
            let dir = shards_dir.join(format!("{i:02}"));
            fs::create_dir_all(&dir).unwrap();
            let child = std::process::Command::new(&exe)
                .arg(prop)
                .env("HX_SHARD", i.to_string())
                .env("HX_NSHARDS", n.to_string())
                .env("HX_OUT", &dir)
                .stdout(std::process::Stdio::null())
                .spawn()
                .expect("spawn shard");
            running.push((i, child));
        }
        let mut k = 0;
        while k < running.len() {
            match running[k].1.try_wait().expect("wait") {
                Some(st) => {
                    if !st.success() {
                        failed.push(format!("shard {} ended with {st}", running[k].0));
                    }
                    running.remove(k);
                }
                None => k += 1,
            }
        }
        std::thread::sleep(std::time::Duration::from_millis(200));
    }
    let mut evaluations = 0u64;
    let mut distinct = 0u64;
    let mut stats: BTreeMap<String, u64> = BTreeMap::new();
    let mut samples: Vec<Value> = vec![];
    let mut viol: Vec<Value> = vec![];
    let mut rule = Value::Null;
    for i in 0..n {
        let d = shards_dir.join(format!("{i:02}")).join(prop);
        let sp = d.join("summary.json");
        let Ok(txt) = fs::read_to_string(&sp) else {
            failed.push(format!("shard {i} wrote no summary"));
            continue;
        };
        let s: Value = serde_json::from_str(&txt).expect("summary");
        evaluations += s["evaluations"].as_u64().unwrap_or(0);
        distinct += s["distinct_nontrivial"].as_u64().unwrap_or(0);
        if let Some(m) = s["distribution"].as_object() {
            for (k, v) in m {
                *stats.entry(k.clone()).or_insert(0) += v.as_u64().unwrap_or(0);
            }
        }
        if let Some(a) = s["samples"].as_array() {
            for x in a {
                if samples.len() < 8 {
                    samples.push(x.clone());
                }
            }
        }
        if let Some(a) = s["impl_violations"].as_array() {
            for x in a {
                let mut x = x.clone();
                x["shard"] = json!(i);
                x["shard_seed_env"] = json!(format!("HX_SHARD={i} HX_NSHARDS={n}"));
                viol.push(x);
            }
        }
        rule = s["rule"].clone();
        for e in fs::read_dir(&d).unwrap().flatten() {
            let name = e.file_name().to_string_lossy().to_string();
            if let Some(rest) = name.strip_prefix("cases_") {
                fs::rename(e.path(), out.join(format!("cases_s{i:02}_{rest}"))).unwrap();
            }
        }
    }
    let _ = fs::remove_dir_all(&shards_dir);
    let summary = json!({
        "property": prop, "seed": seed(), "shards": n,
        "evaluations": evaluations, "distinct_nontrivial": distinct,
        "rule": rule, "distribution": stats, "samples": samples,
        "impl_violations": viol,
    });
    fs::write(out.join("summary.json"), serde_json::to_string_pretty(&summary).unwrap()).unwrap();
    println!("hx-chain {prop}: {evaluations} evaluations in {n} shards, {} implementation-side violations", viol.len());
    if !failed.is_empty() {
        eprintln!("hx-chain {prop}: {}", failed.join("; "));
        if let Ok(p) = std::env::var("HX_SELF_EXE") { let _ = fs::remove_file(p); }
        std::process::exit(3);
    }
}
